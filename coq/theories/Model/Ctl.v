(** C19 — model of the control socket: the request handler given to
    [kvarn_signal::unix::start_at] by [ctl::listen] (src/ctl.rs l.621-682), the built-in plugins
    [ping], [shutdown] and [clear] (src/ctl.rs), and the accept loop of
    [kvarn_signal::unix::start_at] (signal/src/lib.rs) reduced to what a client can observe:
    one request = all bytes the client wrote before shutting down its write side, one reply =
    all bytes the server wrote before dropping the connection, listener [Listening | Closed].
    Definitions only; proofs live in Proofs/CtlProofs.v. *)
From KV Require Export Bytes Quoted.
Open Scope N_scope.

(** ---- UTF-8 ([core::str::from_utf8] and [String] -> [Vec<u8>]) ---------------------------------- *)

Definition is_cont (b : N) : bool := (128 <=? b) && (b <=? 191).
(** second byte of a 3-byte sequence: no overlong forms (E0), no surrogates (ED) *)
Definition second3_ok (b0 b1 : N) : bool :=
  if b0 =? 224 then (160 <=? b1) && (b1 <=? 191)
  else if b0 =? 237 then (128 <=? b1) && (b1 <=? 159)
  else is_cont b1.
(** second byte of a 4-byte sequence: no overlong forms (F0), nothing above U+10FFFF (F4) *)
Definition second4_ok (b0 b1 : N) : bool :=
  if b0 =? 240 then (144 <=? b1) && (b1 <=? 191)
  else if b0 =? 244 then (128 <=? b1) && (b1 <=? 143)
  else is_cont b1.

(** [str::from_utf8(data)] followed by [.chars()]: [None] for invalid UTF-8. *)
Fixpoint utf8_decode (s : bytes) : option str :=
  match s with
  | [] => Some []
  | b0 :: r0 =>
      if b0 <? 128 then option_map (cons b0) (utf8_decode r0)
      else if (194 <=? b0) && (b0 <=? 223) then
        match r0 with
        | b1 :: r1 =>
            if is_cont b1 then option_map (cons ((b0 - 192) * 64 + (b1 - 128))) (utf8_decode r1) else None
        | _ => None
        end
      else if (224 <=? b0) && (b0 <=? 239) then
        match r0 with
        | b1 :: b2 :: r2 =>
            if second3_ok b0 b1 && is_cont b2
            then option_map (cons ((b0 - 224) * 4096 + (b1 - 128) * 64 + (b2 - 128))) (utf8_decode r2)
            else None
        | _ => None
        end
      else if (240 <=? b0) && (b0 <=? 244) then
        match r0 with
        | b1 :: b2 :: b3 :: r3 =>
            if second4_ok b0 b1 && is_cont b2 && is_cont b3
            then option_map (cons ((b0 - 240) * 262144 + (b1 - 128) * 4096 + (b2 - 128) * 64 + (b3 - 128)))
                            (utf8_decode r3)
            else None
        | _ => None
        end
      else None
  end.

Definition utf8_encode_char (c : N) : bytes :=
  if c <? 128 then [c]
  else if c <? 2048 then [192 + c / 64; 128 + c mod 64]
  else if c <? 65536 then [224 + c / 4096; 128 + (c / 64) mod 64; 128 + c mod 64]
  else [240 + c / 262144; 128 + (c / 4096) mod 64; 128 + (c / 64) mod 64; 128 + c mod 64].
Definition utf8_encode (s : str) : bytes := flat_map utf8_encode_char s.

(** Rust's [char]: a Unicode scalar value. *)
Definition is_scalar (c : N) : bool := (c <? 55296) || ((57344 <=? c) && (c <=? 1114111)).

(** ---- plugin responses and reply framing --------------------------------------------------------- *)

Inductive response_kind :=
| KOk (data : option bytes)
| KError (data : option bytes).
(** [pr_ack]: the response has a [post_send] callback, and what that callback does is acknowledge
    the pre-shutdown phase ([sender.send(())] in [with_shutdown] and [with_reload]; no other
    built-in plugin has a [post_send]). *)
Record plugin_response := { pr_kind : response_kind; pr_close : bool; pr_ack : bool }.

Definition pr_ok (d : bytes) := {| pr_kind := KOk (Some d); pr_close := false; pr_ack := false |}.
Definition pr_ok_empty := {| pr_kind := KOk None; pr_close := false; pr_ack := false |}.
Definition pr_error (d : bytes) := {| pr_kind := KError (Some d); pr_close := false; pr_ack := false |}.
Definition pr_error_empty := {| pr_kind := KError None; pr_close := false; pr_ack := false |}.
Definition pr_closing (r : plugin_response) := {| pr_kind := pr_kind r; pr_close := true; pr_ack := pr_ack r |}.
Definition pr_acking (r : plugin_response) := {| pr_kind := pr_kind r; pr_close := pr_close r; pr_ack := true |}.

Record handler_response := { hr_data : bytes; hr_close : bool }.

(** [let mut data = data.unwrap_or_default();
     let len = prepend.len() + usize::from(!data.is_empty());
     (0..len).for_each(|_| data.insert(0, b' '));
     data[..prepend.len()].copy_from_slice(prepend.as_bytes());] *)
Definition frame (prepend : bytes) (data : option bytes) : bytes :=
  let data := match data with Some d => d | None => [] end in
  let len := (length prepend + (if is_empty data then 0 else 1))%nat in
  let data := repeat c_space len ++ data in
  prepend ++ skipn (length prepend) data.

(** ---- checked string / vector operations: every panic of the Rust operation is explicit ---------- *)

(** [str::is_char_boundary(index)] on the bytes of a [&str]:
    [index == 0 || (index >= len ? index == len : (bytes[index] as i8) >= -0x40)] *)
Definition is_char_boundary (s : bytes) (i : nat) : bool :=
  match i with
  | O => true
  | _ => match Nat.compare i (length s) with
         | Eq => true
         | Gt => false
         | Lt => negb (is_cont (nth i s 0))
         end
  end.

(** [&s[lo..hi]] where [s : &str] / [String]: panics ("byte index .. is not a char boundary" /
    "out of bounds") unless [lo <= hi] and both are char boundaries of [s]. *)
Definition str_slice_chk (lo hi : nat) (s : bytes) : outcome bytes :=
  if (Nat.leb lo hi && is_char_boundary s lo && is_char_boundary s hi)%bool then Ok (slice lo hi s) else Panic.

(** length of the UTF-8 sequence that starts with byte [b0] of a valid [&str] *)
Definition char_width (b0 : N) : nat :=
  if b0 <? 128 then 1%nat else if b0 <? 224 then 2%nat else if b0 <? 240 then 3%nat else 4%nat.

(** [String::remove(idx)]:
    [let ch = self[idx..].chars().next().expect("cannot remove a char from the end of a string");]
    then the bytes of [ch] are cut out. *)
Definition str_remove_chk (idx : nat) (s : bytes) : outcome bytes :=
  match str_slice_chk idx (length s) s with
  | Ok (b0 :: _) => Ok (firstn idx s ++ skipn (idx + char_width b0) s)
  | Ok [] => Panic
  | Err e => Err e
  | Panic => Panic
  end.

(** NOT in the code: what cutting a logged request at a byte count ([&data[..data.len().min(max)]])
    would be. It is here to state (Properties/C19.v, [log_truncation_refuted]) why the handler
    must not do this: the request is a [&str] and [max] need not be a char boundary. *)
Definition log_truncate_chk (max : nat) (data : bytes) : outcome bytes :=
  str_slice_chk 0 (Nat.min (length data) max) data.

(** [frame] with its two partial operations explicit: the range check of
    [data[..prepend.len()]] and the length check of [copy_from_slice]. *)
Definition frame_chk (prepend : bytes) (data : option bytes) : outcome bytes :=
  let data := match data with Some d => d | None => [] end in
  let len := (length prepend + (if is_empty data then 0 else 1))%nat in
  let data := repeat c_space len ++ data in
  match slice_chk 0 (length prepend) data with
  | Ok dst => if Nat.eqb (length dst) (length prepend) then Ok (prepend ++ skipn (length prepend) data) else Panic
  | Err e => Err e
  | Panic => Panic
  end.

Definition msg_binary : bytes := B "error Received binary content. Requests have to be UTF-8.".
Definition msg_not_found : bytes := B "error 'Command not found.'".

Section Handler.
  (** Whatever the plugins can see and change besides their arguments (shutdown manager, caches,
      counters of user plugins, ...). *)
  Variable S : Type.

  (** A plugin: arguments and state in, response and state out. *)
  Definition plugin := list str -> S -> plugin_response * S.
  (** [HashMap<String, Plugin>] as an association list; [add_plugin] of an existing name
      replaces it, which is a new first entry here. *)
  Definition plugins := list (str * plugin).

  Fixpoint lookup_plugin (name : str) (ps : plugins) : option plugin :=
    match ps with
    | [] => None
    | (k, p) :: r => if beq k name then Some p else lookup_plugin name r
    end.

  (** [iter.next().unwrap_or_default()] and [iter.collect()] *)
  Definition request_name (toks : list str) : str := match toks with [] => [] | n :: _ => n end.
  Definition request_args (toks : list str) : list str := tl toks.

  (** The closure passed to [start_at]. *)
  Definition handle (ps : plugins) (req : bytes) (s : S) : handler_response * S :=
    match utf8_decode req with
    | None => ({| hr_data := msg_binary; hr_close := false |}, s)
    | Some data =>
        let toks := quoted_str_split data in
        match lookup_plugin (request_name toks) ps with
        | Some p =>
            let (response, s') := p (request_args toks) s in
            let (data, prepend) :=
              match pr_kind response with
              | KError data => (data, B "error")
              | KOk data => (data, B "ok")
              end in
            ({| hr_data := frame prepend data; hr_close := pr_close response |}, s')
        | None => ({| hr_data := msg_not_found; hr_close := false |}, s)
        end
    end.

  (** ---- the same closure with every panic explicit ------------------------------------------------
      A plugin may panic ([Panic]); the handler's own partial operations are [frame_chk]'s.
      Sites checked for byte-index slicing of a [&str]/[String]: src/ctl.rs has none in [listen]
      (the "command not found" branch logs the whole request with [{data:?}], no truncation),
      [with_ping] has [data.remove(0)] ([str_remove_chk], below); signal/src/lib.rs has none
      ([Vec<u8>] only); utils/src/lib.rs [encode_quoted_str]/[QuotedStrSplitIter] iterate over
      [chars()] and [push], never index. *)
  Definition plugin_chk := list str -> S -> outcome (plugin_response * S).
  Definition plugins_chk := list (str * plugin_chk).

  Fixpoint lookup_chk (name : str) (ps : plugins_chk) : option plugin_chk :=
    match ps with
    | [] => None
    | (k, p) :: r => if beq k name then Some p else lookup_chk name r
    end.

  Definition lift_plugin (p : plugin) : plugin_chk := fun args s => Ok (p args s).
  Definition lift_plugins (ps : plugins) : plugins_chk := map (fun kp => (fst kp, lift_plugin (snd kp))) ps.

  Definition handle_chk (ps : plugins_chk) (req : bytes) (s : S) : outcome (handler_response * S) :=
    match utf8_decode req with
    | None => Ok ({| hr_data := msg_binary; hr_close := false |}, s)
    | Some data =>
        let toks := quoted_str_split data in
        match lookup_chk (request_name toks) ps with
        | Some p =>
            obind (p (request_args toks) s) (fun rs =>
              let response := fst rs in
              let (data, prepend) :=
                match pr_kind response with
                | KError data => (data, B "error")
                | KOk data => (data, B "ok")
                end in
              obind (frame_chk prepend data) (fun d =>
                Ok ({| hr_data := d; hr_close := pr_close response |}, snd rs)))
        | None => Ok ({| hr_data := msg_not_found; hr_close := false |}, s)
        end
    end.

  (** [with_ping] at byte level with [String::remove(0)] explicit *)
  Definition ping_fold_bytes (args : list str) : bytes :=
    fold_left (fun acc arg => acc ++ [c_space] ++ utf8_encode (encode_quoted_str arg)) args [].
  Definition ping_data_chk (args : list str) : outcome bytes :=
    let data := ping_fold_bytes args in
    if is_empty data then Ok data else str_remove_chk 0 data.
  Definition ping_plugin_chk : plugin_chk := fun args s =>
    obind (ping_data_chk args) (fun d => Ok (pr_ok d, s)).

  (** The accept loop: while listening every connection is read to its end, handled and answered;
      [close] makes the loop [break 'outer], after which nobody accepts. *)
  (** [Unlinked]: the socket file was removed; nobody can connect until the accept loop has
      bound the path again (signal/src/lib.rs: the watcher sends [false], the loop drops the
      listener, sleeps 100 ms and [continue 'outer]). *)
  Inductive listener := Listening | Unlinked | Closed.
  Inductive reply := Data (b : bytes) | NoAnswer.

  Definition serve (ps : plugins) (ls : listener * S) (req : bytes) : (listener * S) * reply :=
    match ls with
    | (Closed, s) => ((Closed, s), NoAnswer)
    | (Unlinked, s) => ((Unlinked, s), NoAnswer)
    | (Listening, s) =>
        let (hr, s') := handle ps req s in
        ((if hr_close hr then Closed else Listening, s'), Data (hr_data hr))
    end.

  Fixpoint run (ps : plugins) (ls : listener * S) (reqs : list bytes) : (listener * S) * list reply :=
    match reqs with
    | [] => (ls, [])
    | req :: r =>
        let (ls', rep) := serve ps ls req in
        let (ls'', reps) := run ps ls' r in
        (ls'', rep :: reps)
    end.

  (** ---- built-in plugins ------------------------------------------------------------------------ *)

  (** [with_ping] *)
  Definition ping_plugin : plugin := fun args s => (pr_ok (utf8_encode (ping_data args)), s).

  (** [{arg:?}] for a string without control or non-printable characters: quotes, with the double
      quote and the backslash escaped (the single quote is not escaped in [str]'s Debug). *)
  Definition debug_str (s : str) : str := [c_dquote] ++ flat_map encode_char s ++ [c_dquote].

  (** [with_shutdown], with [shutdown_effect] standing for [Manager::shutdown] and the wait for
      the pre-shutdown phase. *)
  Variable shutdown_effect : bool -> S -> S.
  Definition shutdown_plugin : plugin := fun args s =>
    let done (no_wait : bool) (rest : list str) :=
      match rest with
      | _ :: _ => (pr_error (B "unexpected argument"), s)
      | [] => let r := pr_closing (pr_ok (B "'Successfully completed a graceful shutdown.'")) in
              (* [.post_send(move || if let Some(sender) = sender { sender.send(()) })]: [sender] is
                 [Some] in the waiting variant *)
              (if no_wait then r else pr_acking r, shutdown_effect no_wait s)
      end in
    match args with
    | [] => done false []
    | arg :: rest =>
        if beq arg (B "no-wait") then done true rest
        else (pr_error (B "unexpected argument: " ++ utf8_encode (debug_str arg)), s)
    end.

  (** [with_clear] on an instance without ports (no host collection is consulted: [found] and
      [cleared] stay false); [uri_ok] stands for [Uri::builder().path_and_query(..).build().is_ok()]. *)
  Variable uri_ok : str -> bool.
  Definition clear_plugin : plugin := fun args s =>
    let finish (msg : bytes) (rest : list str) :=
      match rest with
      | _ :: _ => (pr_error (B "unexpected argument"), s)
      | [] => (pr_ok msg, s)
      end in
    let with_host (all one : bytes) (rest : list str) :=
      match rest with
      | host :: rest' => finish (one ++ utf8_encode host) rest'
      | [] => finish all []
      end in
    match args with
    | [] => (pr_error (B "you must specify what to clear"), s)
    | m :: rest =>
        if beq m (B "all") then with_host (B "cleared all caches") (B "cleared the caches on ") rest
        else if beq m (B "files") then with_host (B "cleared all file caches") (B "cleared the file cache on ") rest
        else if beq m (B "responses") then
          with_host (B "cleared all response caches") (B "cleared the response cache on ") rest
        else if beq m (B "file") then
          match rest with
          | [] => (pr_error (B "please supply the host you want to clear the response from"), s)
          | [_] => (pr_error (B "please supply response you want to clear after the host"), s)
          | _ :: _ :: _ =>
              (pr_error (B "didn't find the target host. Use \'default\' for the default host"), s)
          end
        else if beq m (B "response") then
          match rest with
          | [] => (pr_error (B "please supply the host you want to clear the response from"), s)
          | [_] => (pr_error (B "please supply response you want to clear after the host"), s)
          | _ :: response :: _ =>
              if uri_ok response
              then (pr_error (B "didn't find the target host. Use 'default' for the default host"), s)
              else (pr_error (B "failed to format target response"), s)
          end
        else (pr_error (B "clear method invalid"), s)
    end.
End Handler.

Arguments lookup_plugin {S}.
Arguments handle {S}.
Arguments serve {S}.
Arguments run {S}.
Arguments ping_plugin {S}.
Arguments lookup_chk {S}.
Arguments lift_plugin {S}.
Arguments lift_plugins {S}.
Arguments handle_chk {S}.
Arguments ping_plugin_chk {S}.
Arguments shutdown_plugin {S}.
Arguments clear_plugin {S}.
Arguments request_name toks : simpl never.


(** ---- the listener as a labelled transition system with any number of open connections ---------------
    [start_at]: the accept loop only accepts and spawns; every accepted connection is served by
    its own task ([read_to_end], handler, [write_all], [post_send], drop).  A connection's progress:
    accepted and reading ([POpen], the bytes received so far) -> the client has shut down its
    write side ([PComplete], the request) -> the task has written its reply and dropped the
    connection ([PReplied]; the empty reply when the task panicked).  [PRefused]: connect failed,
    nobody listens.  [PGone req handled]: the client closed the connection altogether (the server's
    [read_to_end] ends there too, so [req] is the request; nobody will read the reply); [handled]:
    the task has run.  What a handler can wait for (the pre-shutdown phase for [wait], anything a
    user plugin awaits) is [blocked]; what happens outside the socket (a shutdown initiated
    elsewhere sends [close] to the accept loop, ...) is [env_step]: new state and whether the
    listener is closed.  Every event concerns one connection (or the environment) and reads and
    writes only that connection's entry.

    Events of the listener itself: [EUnlink] -- the socket file is removed (the watcher notices it);
    [ERelisten] -- the accept loop has bound the path again; [EAcceptErr] -- [accept()] returned an
    error (EMFILE, ...).

    The per-connection task after the handler returned [{ data, close, post_send }]:
      [if close { sender.send(true) }  write_all(data)  flush()  post_send()]
    [post_send] acknowledges the pre-shutdown phase ([pr_ack]); its effect on the state is [ack]. *)
Inductive conn_phase :=
| PRefused
| POpen (buf : bytes)
| PComplete (req : bytes)
| PReplied (d : bytes)
| PGone (req : bytes) (handled : bool).

Inductive event :=
| EConnect (k : N)
| ESend (k : N) (b : bytes)
| EFin (k : N)
| EHandle (k : N)
| EEnv (e : N)
| EDrop (k : N)
| EUnlink
| ERelisten
| EAcceptErr.

Definition event_conn (ev : event) : option N :=
  match ev with
  | EConnect k | ESend k _ | EFin k | EHandle k | EDrop k => Some k
  | EEnv _ | EUnlink | ERelisten | EAcceptErr => None
  end.

Definition conns := list (N * conn_phase).
Fixpoint conn_get (k : N) (cs : conns) : option conn_phase :=
  match cs with
  | [] => None
  | (j, p) :: r => if j =? k then Some p else conn_get k r
  end.
Fixpoint conn_set (k : N) (v : conn_phase) (cs : conns) : conns :=
  match cs with
  | [] => [(k, v)]
  | (j, p) :: r => if j =? k then (j, v) :: r else (j, p) :: conn_set k v r
  end.

Section Lts.
  Variable S : Type.
  Variable ps : plugins_chk S.
  Variable blocked : bytes -> S -> bool.
  Variable env_step : N -> S -> S * bool.
  (** what the [post_send] of a response with [pr_ack] does to the state *)
  Variable ack : S -> S.

  Record lts_state := { l_listener : listener; l_env : S; l_conns : conns }.
  Definition lts_init (s : S) : lts_state := {| l_listener := Listening; l_env := s; l_conns := [] |}.

  Definition with_conn (st : lts_state) (k : N) (v : conn_phase) : lts_state :=
    {| l_listener := l_listener st; l_env := l_env st; l_conns := conn_set k v (l_conns st) |}.
  Definition with_listener (st : lts_state) (l : listener) : lts_state :=
    {| l_listener := l; l_env := l_env st; l_conns := l_conns st |}.

  (** does the response to [req] in state [s] carry an acknowledging [post_send]? *)
  Definition response_ack (req : bytes) (s : S) : bool :=
    match utf8_decode req with
    | None => false
    | Some data =>
        let toks := quoted_str_split data in
        match lookup_chk (request_name toks) ps with
        | Some p => match p (request_args toks) s with Ok rs => pr_ack (fst rs) | _ => false end
        | None => false
        end
    end.

  (** The task of connection [k] whose request is [req]: handler, close message, write, post_send.
      [reads]: is there still a client to write to.  [fixed = false] is the code before the repair
      (the task returned when [write_all] failed, before [post_send]). *)
  Definition run_task (fixed : bool) (st : lts_state) (k : N) (req : bytes) (reads : bool) : lts_state :=
    if blocked req (l_env st) then st
    else
      let done (d : bytes) := if reads then PReplied d else PGone req true in
      match handle_chk ps req (l_env st) with
      | Ok (hr, s') =>
          {| l_listener := if hr_close hr then Closed else l_listener st;
             l_env := if response_ack req (l_env st) && (fixed || reads) then ack s' else s';
             l_conns := conn_set k (done (hr_data hr)) (l_conns st) |}
      | _ => with_conn st k (done [])    (* the task died: dropped without data *)
      end.

  (** [fixed = false]: the code before the two repairs ([EAcceptErr] left the accept loop, after
      which the path could not be bound again; a failed write skipped [post_send]). *)
  Definition lstep_gen (fixed : bool) (st : lts_state) (ev : event) : lts_state :=
    match ev with
    | EConnect k =>
        match conn_get k (l_conns st) with
        | Some _ => st
        | None => with_conn st k (match l_listener st with Listening => POpen [] | _ => PRefused end)
        end
    | ESend k b =>
        match conn_get k (l_conns st) with
        | Some (POpen buf) => with_conn st k (POpen (buf ++ b))
        | _ => st
        end
    | EFin k =>
        match conn_get k (l_conns st) with
        | Some (POpen buf) => with_conn st k (PComplete buf)
        | _ => st
        end
    | EDrop k =>
        match conn_get k (l_conns st) with
        | Some (POpen buf) => with_conn st k (PGone buf false)
        | Some (PComplete req) => with_conn st k (PGone req false)
        | _ => st
        end
    | EHandle k =>
        match conn_get k (l_conns st) with
        | Some (PComplete req) => run_task fixed st k req true
        | Some (PGone req false) => run_task fixed st k req false
        | _ => st
        end
    | EEnv e =>
        let (s', close) := env_step e (l_env st) in
        {| l_listener := if close then Closed else l_listener st; l_env := s'; l_conns := l_conns st |}
    | EUnlink => match l_listener st with Listening => with_listener st Unlinked | _ => st end
    | ERelisten => match l_listener st with Unlinked => with_listener st Listening | _ => st end
    | EAcceptErr =>
        if fixed then st    (* logged; the loop goes on accepting *)
        else match l_listener st with
             | Listening => with_listener st Closed     (* [break], re-bind: "address in use", [return] *)
             | Unlinked => with_listener st Listening   (* [break], re-bind succeeds: the file is gone *)
             | Closed => st
             end
    end.

  Definition lstep := lstep_gen true.
  Definition lstep_v0 := lstep_gen false.
  Definition lrun (st : lts_state) (evs : list event) : lts_state := fold_left lstep evs st.
  Definition lrun_v0 (st : lts_state) (evs : list event) : lts_state := fold_left lstep_v0 evs st.
End Lts.

Arguments l_listener {S}.
Arguments l_env {S}.
Arguments l_conns {S}.
Arguments lts_init {S}.
Arguments with_conn {S}.
Arguments with_listener {S}.
Arguments response_ack {S}.
Arguments run_task {S}.
Arguments lstep_gen {S}.
Arguments lstep {S}.
Arguments lstep_v0 {S}.
Arguments lrun {S}.
Arguments lrun_v0 {S}.

(** ---- the accept loop of [start_at] with its channel (signal/src/lib.rs l.165-243) -----------------------
    What decides whether anybody listens at the path: the loop's position ([LAccept]: in the
    [select!] over [listener.accept()] and [receiver.recv()]; [LPause]: the listener is dropped, the
    loop sleeps its 100 ms; [LStopped]: [break 'outer] / [return]), the messages in the unbounded
    channel in the order in which they were sent ([true] = close: a handler's [sender.send(true)], the
    shutdown watcher's [close_ctl.send(true)]; [false] = the file watcher's [reload_sender.send(false)])
    and whether the socket file exists.

    Events: [FRemove] -- the socket file is removed (a tmp cleaner, [Manager::shutdown]);
    [FWatch] -- the watcher's callback has slept its 100 ms and looks: [if metadata(path).is_err()
    { send(false) }]; [FClose] -- somebody sends [true]; [FLoop] -- the loop takes its next step:
    in [LAccept] it receives one message ([true]: [break 'outer]; [false]: [drop(listener)], pause),
    in [LPause] the sleep is over, the channel is emptied
    ([while let Ok(close) = receiver.try_recv() { if close { break 'outer } }]) and, unless that
    loop broke out, the path is bound again ([continue 'outer]; [Err(_) => return] when the path
    exists).  [brk] is the test of the emptying loop: the code has [if close], i.e. [brk = id]. *)
Inductive loop_pc := LAccept | LPause | LStopped.
Record loop_state := { lp_pc : loop_pc; lp_chan : list bool; lp_file : bool }.
Definition loop_init : loop_state := {| lp_pc := LAccept; lp_chan := []; lp_file := true |}.
Inductive loop_event := FRemove | FWatch | FClose | FLoop.

(** the emptying loop: [Some rest] -- it broke out ([rest] is never looked at again); [None] -- the
    channel is empty *)
Fixpoint drain (brk : bool -> bool) (ch : list bool) : option (list bool) :=
  match ch with
  | [] => None
  | c :: r => if brk c then Some r else drain brk r
  end.

Definition loop_step_gen (brk : bool -> bool) (st : loop_state) (ev : loop_event) : loop_state :=
  match ev with
  | FRemove => {| lp_pc := lp_pc st; lp_chan := lp_chan st; lp_file := false |}
  | FWatch => if lp_file st then st
              else {| lp_pc := lp_pc st; lp_chan := lp_chan st ++ [false]; lp_file := lp_file st |}
  | FClose => {| lp_pc := lp_pc st; lp_chan := lp_chan st ++ [true]; lp_file := lp_file st |}
  | FLoop =>
      match lp_pc st with
      | LStopped => st
      | LAccept =>
          match lp_chan st with
          | [] => st
          | true :: r => {| lp_pc := LStopped; lp_chan := r; lp_file := lp_file st |}
          | false :: r => {| lp_pc := LPause; lp_chan := r; lp_file := lp_file st |}
          end
      | LPause =>
          match drain brk (lp_chan st) with
          | Some r => {| lp_pc := LStopped; lp_chan := r; lp_file := lp_file st |}
          | None =>
              if lp_file st
              then {| lp_pc := LStopped; lp_chan := []; lp_file := true |}   (* bind: address in use; [return] *)
              else {| lp_pc := LAccept; lp_chan := []; lp_file := true |}    (* bound again *)
          end
      end
  end.
Definition loop_step := loop_step_gen (fun c => c).
Definition loop_run (st : loop_state) (evs : list loop_event) : loop_state := fold_left loop_step evs st.
(** NOT the code: the emptying loop with its test negated (a close that arrives during the pause
    is thrown away).  Only used to show that the theorems about [loop_step] depend on that test. *)
Definition loop_step_neg := loop_step_gen negb.

(** a client can connect: the loop is accepting and the file is there *)
Definition connectable (st : loop_state) : bool :=
  match lp_pc st with LAccept => lp_file st | _ => false end.
(** a close has been sent (and not yet received) or the loop has stopped *)
Definition close_pending (st : loop_state) : bool :=
  match lp_pc st with LStopped => true | _ => existsb (fun c => c) (lp_chan st) end.
(** what the coarse model ([listener], below [lstep]) sees of it: [Closed] from the moment the
    close is SENT (the harness waits until the loop has received it before it goes on) *)
Definition loop_listener (st : loop_state) : listener :=
  if close_pending st then Closed
  else match lp_pc st with
       | LAccept => if lp_file st then Listening else Unlinked
       | _ => Unlinked
       end.
(** reachable states satisfy: a [false] in the channel means the file is gone (the watcher looked),
    and during the pause the file is gone (nobody but the loop creates it) *)
Definition loop_inv (st : loop_state) : Prop :=
  (In false (lp_chan st) -> lp_file st = false) /\ (lp_pc st = LPause -> lp_file st = false).

(** the coarse transition system instantiated so that environment event 0 is "somebody closes" *)
Definition coarse_step : lts_state unit -> event -> lts_state unit :=
  lstep [] (fun _ _ => false) (fun _ s => (s, true)) (fun s => s).
Definition coarse_of (st : loop_state) : lts_state unit :=
  {| l_listener := loop_listener st; l_env := tt; l_conns := [] |}.
(** the coarse events that one step of the loop amounts to *)
Definition coarse_events (st : loop_state) (ev : loop_event) : list event :=
  match ev with
  | FRemove => [EUnlink]
  | FWatch => []
  | FClose => [EEnv 0]
  | FLoop => match lp_pc st with
             | LPause => if close_pending st then [] else [ERelisten]
             | _ => []
             end
  end.

(** kvarnctl's reading of a reply ([request] in ctl/src/main.rs): the first token decides between
    success and error, the remaining tokens are printed joined by one space. *)
Definition client_reply_tokens (reply : bytes) : option (list str) :=
  option_map quoted_str_split (utf8_decode reply).

(** [request] + the [match] at the end of [main] in ctl/src/main.rs, without flags: the exit status and
    what is printed on stdout.  [NotFound] (nobody listens) => 3; not UTF-8 => 6; no token => 5; first
    token [ok] => 0 and [println!("{args}")] with [args = join(rest, " ")]; [error] => 1; anything else
    => 4.  ([Response::Error], status 2, is an I/O error: not a reply.) *)
Definition c_newline : N := 10.
Definition client_outcome (r : reply) : N * bytes :=
  match r with
  | NoAnswer => (3, [])
  | Data d =>
      match utf8_decode d with
      | None => (6, [])
      | Some line =>
          match quoted_str_split line with
          | [] => (5, [])
          | w :: rest =>
              if beq w (B "ok") then (0, utf8_encode (join_sp rest) ++ [c_newline])
              else if beq w (B "error") then (1, [])
              else (4, [])
          end
      end
  end.

(** ---- the fixture of the correspondence run ------------------------------------------------------------ *)

(** State of the harness plugins: a counter (for the history-dependent plugin [t-count]) and
    whether [Manager::shutdown] ran. *)
(** [fx_acks]: acknowledgements of the pre-shutdown phase that are still due ([Manager::wait] resolves
    when the shutdown was initiated and none is due: the instances of the run have no ports, so no
    connection delays the shutdown); [fx_reloads]: how often [reload] started the executable again. *)
Record fx_state := { fx_count : N; fx_shutdown : bool; fx_gate : bool; fx_acks : N; fx_reloads : N }.
Definition fx_init : fx_state := {| fx_count := 0; fx_shutdown := false; fx_gate := false; fx_acks := 0; fx_reloads := 0 |}.
Definition fx_set_count (n : N) (s : fx_state) : fx_state :=
  {| fx_count := n; fx_shutdown := fx_shutdown s; fx_gate := fx_gate s; fx_acks := fx_acks s; fx_reloads := fx_reloads s |}.
Definition fx_set_shutdown (s : fx_state) : fx_state :=
  {| fx_count := fx_count s; fx_shutdown := true; fx_gate := fx_gate s; fx_acks := fx_acks s; fx_reloads := fx_reloads s |}.
Definition fx_set_gate (s : fx_state) : fx_state :=
  {| fx_count := fx_count s; fx_shutdown := fx_shutdown s; fx_gate := true; fx_acks := fx_acks s; fx_reloads := fx_reloads s |}.
Definition fx_set_acks (n : N) (s : fx_state) : fx_state :=
  {| fx_count := fx_count s; fx_shutdown := fx_shutdown s; fx_gate := fx_gate s; fx_acks := n; fx_reloads := fx_reloads s |}.
Definition fx_set_reloads (n : N) (s : fx_state) : fx_state :=
  {| fx_count := fx_count s; fx_shutdown := fx_shutdown s; fx_gate := fx_gate s; fx_acks := fx_acks s; fx_reloads := n |}.
(** [Manager::shutdown] through the [shutdown] plugin: the waiting variant registered for the
    pre-shutdown phase first ([wait_for_pre_shutdown]), so one more acknowledgement is due. *)
Definition fx_shutdown_effect (no_wait : bool) (s : fx_state) : fx_state :=
  fx_set_shutdown (if no_wait then s else fx_set_acks (fx_acks s + 1) s).
Definition fx_ack (s : fx_state) : fx_state := fx_set_acks (fx_acks s - 1) s.
Definition fx_finished (s : fx_state) : bool := fx_shutdown s && (fx_acks s =? 0).

Definition unit_sep : N := 31.
(** name and arguments as the plugin received them, each followed by U+001F *)
Definition fx_args_data (name : str) (args : list str) : bytes :=
  utf8_encode (flat_map (fun a => a ++ [unit_sep]) (name :: args)).

(** path-and-query strings that the generator uses for [clear response]: http accepts them all *)
Definition fx_uri_char (c : N) : bool :=
  ((97 <=? c) && (c <=? 122)) || ((48 <=? c) && (c <=? 57)) || (c =? 47) || (c =? 46) || (c =? 45) || (c =? 95).
Definition fx_uri_ok (s : str) : bool :=
  match s with c :: _ => (c =? 47) && forallb fx_uri_char s | [] => false end.

Definition fx_plugins : plugins fx_state :=
  [ (B "t-args", fun args s => (pr_ok (fx_args_data (B "t-args") args), s));
    (B "t-fail", fun args s => (pr_error (fx_args_data (B "t-fail") args), s));
    (B "t-ok-empty", fun _ s => (pr_ok_empty, s));
    (B "t-fail-empty", fun _ s => (pr_error_empty, s));
    (B "t-close", fun _ s => (pr_closing (pr_ok (B "closing")), s));
    (B "t-fail-close", fun _ s => (pr_closing pr_error_empty, s));
    (B "t-bin", fun _ s => (pr_ok [255; 0; 32; 254], s));
    (B "t-count", fun _ s => (pr_ok (dec (fx_count s)), fx_set_count (fx_count s + 1) s));
    ([], fun args s => (pr_ok (fx_args_data [] args), s));
    (* overridden by the harness so that no test can re-execute the binary or block *)
    (B "reload", fun _ s => (pr_ok_empty, s));
    (B "wait", fun _ s => (pr_ok_empty, s));
    (* the defaults of [Plugins::new] *)
    (B "shutdown", shutdown_plugin fx_shutdown_effect);
    (B "ping", ping_plugin);
    (B "clear", clear_plugin fx_uri_ok) ].


(** ---- the fixture of the concurrent sessions (ctl.conc) ---------------------------------------------------
    The harness's second server keeps kvarn's own [wait] (answers [ok] once the instance shuts
    down, [error] when given arguments) and adds [t-slow], which answers only after the harness
    opened its gate. *)
Definition fx_plugins_chk : plugins_chk fx_state :=
  [ (B "t-slow", fun args s => Ok (pr_ok (fx_args_data (B "t-slow") args), s));
    (B "wait", fun args s => Ok (match args with
                                 | [] => pr_ok_empty
                                 | _ :: _ => pr_error (B "no arguments were expected")
                                 end, s));
    (B "ping", ping_plugin_chk) ] ++ lift_plugins fx_plugins.

(** [with_reload] (src/ctl.rs): [wait = (args == ["wait"])]; any other argument is an error
    ([check_no_arguments]); the executable is started again ([fx_reloads]); with [wait] the plugin
    registers for the pre-shutdown phase, answers when the instance shuts down and acknowledges in
    its [post_send].  (The table always has a [shutdown] plugin; [arg0] exists and can be started:
    the harness makes it a shell script.) *)
Definition reload_plugin_chk : plugin_chk fx_state := fun args s =>
  let wait := match args with [a] => beq a (B "wait") | _ => false end in
  if negb wait && negb (match args with [] => true | _ => false end)
  then Ok (pr_error (B "no arguments were expected"), s)
  else
    let s1 := fx_set_reloads (fx_reloads s + 1) s in
    if wait then Ok (pr_acking (pr_ok (B "successfully reloaded Kvarn")), fx_set_acks (fx_acks s1 + 1) s1)
    else Ok (pr_ok (B "successfully reloaded Kvarn"), s1).
(** the table of the third server (ctl.reload): kvarn's own [reload] *)
Definition fx_plugins_reload : plugins_chk fx_state := (B "reload", reload_plugin_chk) :: fx_plugins_chk.

Definition fx_blocked (req : bytes) (s : fx_state) : bool :=
  match utf8_decode req with
  | None => false
  | Some line =>
      let toks := quoted_str_split line in
      if beq (B "wait") (request_name toks) then match request_args toks with [] => negb (fx_shutdown s) | _ :: _ => false end
      else if beq (B "t-slow") (request_name toks) then negb (fx_gate s)
      else false
  end.
(** ... and [reload wait] waits for the shutdown *)
Definition fx_blocked_reload (req : bytes) (s : fx_state) : bool :=
  fx_blocked req s ||
  match utf8_decode req with
  | None => false
  | Some line =>
      let toks := quoted_str_split line in
      beq (B "reload") (request_name toks) &&
      match request_args toks with [a] => beq a (B "wait") && negb (fx_shutdown s) | _ => false end
  end.

(** environment event 0: [Manager::shutdown] called from outside the socket (the ctl socket gets
    [close]); event 1: the harness opens [t-slow]'s gate. *)
Definition fx_env_step (e : N) (s : fx_state) : fx_state * bool :=
  if e =? 0 then (fx_set_shutdown s, true)
  else (fx_set_gate s, false).

(** One step of a session script. *)
Inductive cop :=
| OOpen (k : N)                 (* connect *)
| OWrite (k : N) (b : bytes)    (* write, no shutdown *)
| OFin (k : N)                  (* shut down the write side *)
| OAwait (k : N)                (* read the reply to its end (bounded wait) *)
| OShutdown                     (* Manager::shutdown() *)
| ORelease                      (* open t-slow's gate *)
| ODrop (k : N)                 (* the client closes the connection without reading *)
| OReq (k : N) (b : bytes)      (* connect, write, shut down, read: one whole exchange *)
| OSend (k : N) (b : bytes)     (* connect, write, shut down *)
| OPeek (k : N)                 (* is there a reply yet? *)
| OUnlink (k : N)               (* remove the socket file, wait for the re-listen *)
| OSleep                        (* the client takes its time *)
| OExhaust (k : N)              (* no free file descriptor in the process: accept() fails; connect k *)
| ORestore                      (* descriptors are available again *)
| OFinished (k : N)             (* has Manager::wait resolved? *)
| OUnlinkNow                    (* remove the socket file and go on at once *)
| ORelistened (k : N).          (* wait for the re-listen that follows a removal: is a listener bound again? *)

Definition d_cop (x : xval) : option cop :=
  match x with
  | XL [XN 0; XN k] => Some (OOpen k)
  | XL [XN 1; XN k; XB b] => Some (OWrite k b)
  | XL [XN 2; XN k] => Some (OFin k)
  | XL [XN 3; XN k] => Some (OAwait k)
  | XL [XN 4; XN _] => Some OShutdown
  | XL [XN 5; XN _] => Some ORelease
  | XL [XN 6; XN k] => Some (ODrop k)
  | XL [XN 7; XN k; XB b] => Some (OReq k b)
  | XL [XN 8; XN k; XB b] => Some (OSend k b)
  | XL [XN 9; XN k] => Some (OPeek k)
  | XL [XN 10; XN k] => Some (OUnlink k)
  | XL [XN 11; XN _] => Some OSleep
  | XL [XN 12; XN k] => Some (OExhaust k)
  | XL [XN 13; XN _] => Some ORestore
  | XL [XN 14; XN k] => Some (OFinished k)
  | XL [XN 15; XN _] => Some OUnlinkNow
  | XL [XN 16; XN k] => Some (ORelistened k)
  | _ => None
  end.

Definition cop_events (o : cop) : list event :=
  match o with
  | OOpen k => [EConnect k]
  | OWrite k b => [ESend k b]
  | OFin k => [EFin k]
  | ODrop k => [EDrop k]
  | OShutdown => [EEnv 0]
  | ORelease => [EEnv 1]
  | OReq k b | OSend k b => [EConnect k; ESend k b; EFin k]
  | OUnlink _ => [EUnlink; ERelisten]
  (* the two halves of [OUnlink] as steps of their own: whatever the script does in between (requests
     on connections that are already open, closing commands, a shutdown) happens while nobody is bound
     to the path *)
  | OUnlinkNow => [EUnlink]
  | ORelistened _ => [ERelisten]
  | OExhaust k => [EAcceptErr; EConnect k]
  | OAwait _ | OPeek _ | OSleep | ORestore | OFinished _ => []
  end.

(** [with_wait] before its repair: [sender.send(()).unwrap()] panicked when the shutdown manager had
    already collected the acknowledgements of the pre-shutdown phase (the request was accepted before
    the shutdown and handled after it). *)
Definition wait_plugin_v0 : plugin_chk fx_state := fun args s =>
  match args with
  | [] => if fx_finished s then Panic else Ok (pr_ok_empty, s)
  | _ :: _ => Ok (pr_error (B "no arguments were expected"), s)
  end.
Definition fx_plugins_chk_v0 : plugins_chk fx_state := (B "wait", wait_plugin_v0) :: fx_plugins_chk.

Definition fx_lstep := lstep fx_plugins_chk fx_blocked fx_env_step fx_ack.
Definition fx_lstep_reload := lstep fx_plugins_reload fx_blocked_reload fx_env_step fx_ack.

(** The schedule the model commits to: a handler runs as soon as its request is complete and it
    is not blocked (two passes: a closing [shutdown] later in the list unblocks a [wait] earlier
    in it).  [socket_never_wedged] is about all schedules. *)
Definition is_complete (c : N * conn_phase) : bool :=
  match snd c with PComplete _ | PGone _ false => true | _ => false end.

(** what the client sees: reply [(L (N 0) (B data))]; connect refused [(L (N 1))]; nothing
    within the bounded wait [(L (N 3))]; nothing yet [(L (N 4))]; no such connection (never
    opened, or closed by the client) [(L (N 5))] *)
Definition x_phase (pending : N) (p : option conn_phase) : xval :=
  match p with
  | Some (PReplied d) => XL [XN 0; XB d]
  | Some PRefused => XL [XN 1]
  | Some (POpen _) | Some (PComplete _) => XL [XN pending]
  | Some (PGone _ _) | None => XL [XN 5]
  end.

Definition cop_output (st : lts_state fx_state) (o : cop) : option xval :=
  match o with
  | OAwait k | OReq k _ => Some (XL [XN k; x_phase 3 (conn_get k (l_conns st))])
  | OPeek k => Some (XL [XN k; x_phase 4 (conn_get k (l_conns st))])
  (* 6: a listener is bound to the path again; 7: nobody listens *)
  | OUnlink k | ORelistened k => Some (XL [XN k; XL [XN (match l_listener st with Listening => 6 | _ => 7 end)]])
  (* 8: the shutdown has finished; 9: it has not *)
  | OFinished k => Some (XL [XN k; XL [XN (if fx_finished (l_env st) then 8 else 9)]])
  | _ => None
  end.

Section ConcRun.
  Variable step : lts_state fx_state -> event -> lts_state fx_state.
  Definition handle_ready (st : lts_state fx_state) : lts_state fx_state :=
    fold_left step (map (fun c => EHandle (fst c)) (filter is_complete (l_conns st))) st.
  Fixpoint conc_run (st : lts_state fx_state) (ops : list cop) : list xval * lts_state fx_state :=
    match ops with
    | [] => ([], st)
    | o :: r =>
        let st' := handle_ready (handle_ready (fold_left step (cop_events o) st)) in
        let (out, fin) := conc_run st' r in
        (match cop_output st' o with Some x => x :: out | None => out end, fin)
    end.
End ConcRun.

(** ---- xval interface -------------------------------------------------------------------------------- *)
Definition x_reply (r : reply) : xval :=
  match r with Data b => XL [XN 0; XB b] | NoAnswer => XL [XN 1] end.

(** ctl.session : list of requests (bytes) -> list of replies *)
Definition run_session (x : xval) : xval :=
  match d_list d_B x with
  | Some reqs => x_list x_reply (snd (run fx_plugins (Listening, fx_init) reqs))
  | None => bad_input
  end.

(** ctl.conc : session script (list of steps) -> the outputs of its reading steps *)
Definition run_conc (x : xval) : xval :=
  match d_list d_cop x with
  | Some ops => XL (fst (conc_run fx_lstep (lts_init fx_init) ops))
  | None => bad_input
  end.

(** ctl.reload : the same against the table with kvarn's own [reload]; the last element says how
    often the executable was started again *)
Definition run_reload (x : xval) : xval :=
  match d_list d_cop x with
  | Some ops =>
      let (out, fin) := conc_run fx_lstep_reload (lts_init fx_init) ops in
      XL (out ++ [XL [XN 99; XN (fx_reloads (l_env fin))]])
  | None => bad_input
  end.

(** ctl.binary : invocations [kvarnctl -- command args...] against ONE instance, in order ->
    (exit status, stdout) of each *)
Definition d_call (x : xval) : option (str * list str) :=
  match x with
  | XL [c; a] => match d_str c, d_list d_str a with Some c, Some a => Some (c, a) | _, _ => None end
  | _ => None
  end.
Fixpoint binary_run (ls : listener * fx_state) (calls : list (str * list str)) : list (N * bytes) :=
  match calls with
  | [] => []
  | (c, a) :: r =>
      let (ls', rep) := serve fx_plugins ls (utf8_encode (client_message c a)) in
      client_outcome rep :: binary_run ls' r
  end.
Definition run_binary (x : xval) : xval :=
  match d_list d_call x with
  | Some calls => x_list (fun o => XL [XN (fst o); XB (snd o)]) (binary_run (Listening, fx_init) calls)
  | None => bad_input
  end.
(** spec component: [kvarnctl ping args...] prints the arguments, joined by one space, and exits
    with 0 -- whatever was sent before, as long as nothing closed the socket (stated without the
    handler, the splitter or the encoder) *)
Definition run_binary_ping_spec (x : xval) : xval :=
  match d_list d_call x with
  | Some calls =>
      x_list (fun ca => XL [XN 0; XB (utf8_encode (join_sp (snd ca)) ++ [c_newline])]) calls
  | None => bad_input
  end.

(** ctl.utf8 : bytes -> option (list of code points) *)
Definition run_utf8 (x : xval) : xval :=
  match x with
  | XB b => x_option x_str (utf8_decode b)
  | _ => bad_input
  end.
(** ctl.utf8enc : list of code points -> bytes *)
Definition run_utf8_encode (x : xval) : xval :=
  match d_str x with
  | Some s => XB (utf8_encode s)
  | None => bad_input
  end.

Definition ctl_table : list (bytes * (xval -> xval)) :=
  [ (B "ctl.session", run_session);
    (B "ctl.conc", run_conc);
    (B "ctl.reload", run_reload);
    (B "ctl.binary", run_binary);
    (B "ctl.binary.pingspec", run_binary_ping_spec);
    (B "ctl.utf8", run_utf8);
    (B "ctl.utf8enc", run_utf8_encode) ].
