(** C12 — small-step model of CONCURRENT calls of [LimitManager::register] (src/limiting.rs).

    [Model/Limiter.v] describes a call as one atomic transition; this file splits it into the
    accesses to shared memory the code makes, in the order it makes them, so that calls running
    on several threads can interleave between any two of them:

      register(addr):
        if check_every == usize::MAX { return Passed }          (configuration: immutable, [&self])
   A    old = iteration.fetch_add(1)                            (wraps); [old + 1] (usize arithmetic)
        if old + 1 < check_every { return Passed }
   B    iteration.store(0)
   C    s = time.0.load()                                       [get_time]
   D    n = time.1.load(); now = SystemTime::now()              [elapsed().unwrap_or(ZERO)]
        if now - (s, n) >= reset_seconds {
   E      now' = SystemTime::now(); time.0.store(secs now')     [update_time]
   F      time.1.store(nanos now')
   G_i    connection_map.clear(): DashMap clears shard after shard, each under its own lock
          return Passed }
   H    requests = *connection_map.entry(addr).and_modify(+1).or_insert(1)   (atomic per key:
          the entry holds the write lock of the key's shard)
        ladder on [requests]

    A schedule is a list of (thread index, clock reading): the named thread makes its next
    access; the reading is what [SystemTime::now()] returns if that access reads the clock
    (any value: the clock may step back).  Each thread makes the calls of its program (a list of
    addresses) one after the other.  The log records every return, newest first; the entry of
    a call that reaches H is written by H itself, so for counted calls the order of the log is
    the order of their linearisation points (each inside its call's interval).

    [nsh] and [shard] (number of shards of the DashMap and the shard of a key) are parameters:
    nothing below depends on them.  Definitions only; proofs are in Proofs/LimiterConcProofs.v. *)
From KV Require Export Bytes RustInt Limiter.
Open Scope N_scope.

Definition nanos_per_sec : N := 1000000000.
Definition time_of (s n : N) : N := s * nanos_per_sec + n.

Record cshared : Type := { c_iter : N; c_secs : N; c_nanos : N; c_map : list (N * N) }.
Definition cinit (t0 : N) : cshared :=
  {| c_iter := 0; c_secs := t0 / nanos_per_sec; c_nanos := t0 mod nanos_per_sec; c_map := [] |}.

(** Where a thread is inside its current call. *)
Inductive pc : Type :=
| Idle                 (* before A *)
| Fetched              (* after A, sampled: before B *)
| Stored               (* before C *)
| GotSecs (s : N)      (* before D *)
| Resetting            (* before E *)
| Updating (now : N)   (* before F *)
| Clearing (i : nat)   (* before G_i *)
| Counting.            (* before H *)

(** The ladder of the code on the count returned by the map (with [max_requests * 3] in usize). *)
Definition verdict (checked : bool) (cfg : config) (requests : N) : outcome action :=
  if requests <=? max_requests cfg then Ok Passed
  else
    match mul3_usize checked (max_requests cfg) with
    | Ok lim => Ok (if requests <=? lim then Send else Drop)
    | Err e => Err e
    | Panic => Panic
    end.

Definition clear_shard (shard : N -> nat) (i : nat) (m : list (N * N)) : list (N * N) :=
  filter (fun kv => negb (Nat.eqb (shard (fst kv)) i)) m.

Definition with_iter (v : N) (sh : cshared) : cshared :=
  {| c_iter := v; c_secs := c_secs sh; c_nanos := c_nanos sh; c_map := c_map sh |}.
Definition with_secs (v : N) (sh : cshared) : cshared :=
  {| c_iter := c_iter sh; c_secs := v; c_nanos := c_nanos sh; c_map := c_map sh |}.
Definition with_nanos (v : N) (sh : cshared) : cshared :=
  {| c_iter := c_iter sh; c_secs := c_secs sh; c_nanos := v; c_map := c_map sh |}.
Definition with_map (m : list (N * N)) (sh : cshared) : cshared :=
  {| c_iter := c_iter sh; c_secs := c_secs sh; c_nanos := c_nanos sh; c_map := m |}.

(** One access of a call [register(a)] that is at [p]; [Some d]: the call returns [d]. *)
Definition cstep (checked : bool) (cfg : config) (nsh : nat) (shard : N -> nat)
                 (sh : cshared) (a : N) (p : pc) (now : N) : cshared * pc * option (outcome action) :=
  match p with
  | Idle =>
      if check_every cfg =? usize_max then (sh, Idle, Some (Ok Passed))
      else
        let old := c_iter sh in
        let sh' := with_iter ((old + 1) mod (usize_max + 1)) sh in
        match inc_usize checked old with
        | Ok it => if it <? check_every cfg then (sh', Idle, Some (Ok Passed)) else (sh', Fetched, None)
        | Err e => (sh', Idle, Some (Err e))
        | Panic => (sh', Idle, Some Panic)
        end
  | Fetched => (with_iter 0 sh, Stored, None)
  | Stored => (sh, GotSecs (c_secs sh), None)
  | GotSecs s =>
      if window_over (reset_after cfg) (now - time_of s (c_nanos sh)) then (sh, Resetting, None) else (sh, Counting, None)
  | Resetting => (with_secs (now / nanos_per_sec) sh, Updating now, None)
  | Updating t => (with_nanos (t mod nanos_per_sec) sh, Clearing 0, None)
  | Clearing i =>
      let sh' := with_map (clear_shard shard i (c_map sh)) sh in
      if Nat.ltb (S i) nsh then (sh', Clearing (S i), None) else (sh', Idle, Some (Ok Passed))
  | Counting =>
      match entry_bump checked a (c_map sh) with
      | Ok (requests, m') => (with_map m' sh, Idle, Some (verdict checked cfg requests))
      | Err e => (sh, Idle, Some (Err e))
      | Panic => (sh, Idle, Some Panic)
      end
  end.

(** Threads: the calls still to make (the current one first) and the position inside the current one. *)
Record thread : Type := { t_todo : list N; t_pc : pc }.
Definition ret_entry : Type := (nat * N * outcome action)%type.     (* thread, address, what the call returned *)
Record world : Type := { w_sh : cshared; w_thr : list thread; w_log : list ret_entry }.

Fixpoint upd {A : Type} (i : nat) (x : A) (l : list A) : list A :=
  match l, i with
  | [], _ => []
  | _ :: r, O => x :: r
  | y :: r, S j => y :: upd j x r
  end.

Definition wstep (checked : bool) (cfg : config) (nsh : nat) (shard : N -> nat) (w : world) (e : nat * N) : world :=
  match nth_error (w_thr w) (fst e) with
  | Some th =>
      match t_todo th with
      | [] => w
      | a :: rest =>
          let '(sh', p', r) := cstep checked cfg nsh shard (w_sh w) a (t_pc th) (snd e) in
          match r with
          | None => {| w_sh := sh'; w_thr := upd (fst e) {| t_todo := a :: rest; t_pc := p' |} (w_thr w); w_log := w_log w |}
          | Some d => {| w_sh := sh'; w_thr := upd (fst e) {| t_todo := rest; t_pc := Idle |} (w_thr w);
                         w_log := (fst e, a, d) :: w_log w |}
          end
      end
  | None => w
  end.

Fixpoint wrun (checked : bool) (cfg : config) (nsh : nat) (shard : N -> nat) (w : world) (sch : list (nat * N)) : world :=
  match sch with
  | [] => w
  | e :: r => wrun checked cfg nsh shard (wstep checked cfg nsh shard w e) r
  end.

Definition wstart (t0 : N) (progs : list (list N)) : world :=
  {| w_sh := cinit t0; w_thr := map (fun p => {| t_todo := p; t_pc := Idle |}) progs; w_log := [] |}.

(** The log after schedule [sch] of the threads [progs] on a limiter created at clock [t0]. *)
Definition conc_log (checked : bool) (cfg : config) (nsh : nat) (shard : N -> nat) (t0 : N)
                    (progs : list (list N)) (sch : list (nat * N)) : list ret_entry :=
  w_log (wrun checked cfg nsh shard (wstart t0 progs) sch).
Definition conc_shared (checked : bool) (cfg : config) (nsh : nat) (shard : N -> nat) (t0 : N)
                       (progs : list (list N)) (sch : list (nat * N)) : cshared :=
  w_sh (wrun checked cfg nsh shard (wstart t0 progs) sch).

Definition e_addr (e : ret_entry) : N := snd (fst e).
(** Calls of [b] that have returned. *)
Definition rets (b : N) (log : list ret_entry) : N := count b (map e_addr log).
(** What the calls of [b] returned, newest first. *)
Definition verdicts_of (b : N) (log : list ret_entry) : list (outcome action) :=
  map snd (filter (fun e => e_addr e =? b) log).
(** [ladder max k; ladder max (k-1); ...; ladder max 1] *)
Fixpoint ladder_down (max : N) (k : nat) : list action :=
  match k with
  | O => []
  | S j => ladder max (N.of_nat k) :: ladder_down max j
  end.
(** All calls of all programs. *)
Definition all_calls (progs : list (list N)) : list N := concat progs.
Definition all_done (w : world) : bool := forallb (fun th => match t_todo th with [] => true | _ => false end) (w_thr w).

(** ------------------------------------------------------------------------------------
    xval interface.
    limiter.conc :  (L checked config (L prog ...) (L (N tid) ...)),  prog = (L (L (N addr) (N times)) ...)
      the programs of the threads (run-length encoded) and a schedule prefix; after the prefix the
      threads are run round-robin until every call has returned.  Clock readings 0.  One shard per
      key modulo 4.  Output, per address (in the order of first occurrence in the programs):
        (L (N addr) (N passed) (N send) (N drop) (N other) (N harsher))
      [harsher]: calls answered more harshly than the ladder on the calls of the address begun so
      far — always 0 ([concurrent_others_never_hurt]). *)
Definition d_run (x : xval) : option (list N) :=
  match x with XL [XN a; XN k] => Some (repeat a (N.to_nat k)) | _ => None end.
Definition d_prog (x : xval) : option (list N) :=
  match d_list d_run x with Some l => Some (concat l) | None => None end.
Definition d_tid (x : xval) : option (nat * N) := match x with XN i => Some (N.to_nat i, 0) | _ => None end.

Fixpoint round_robin (n : nat) (k : nat) : list (nat * N) :=
  match k with
  | O => []
  | S j => map (fun i => (i, 0)) (seq 0 n) ++ round_robin n j
  end.

Fixpoint dedup (l : list N) (seen : list N) : list N :=
  match l with
  | [] => []
  | a :: r => if existsb (N.eqb a) seen then dedup r seen else a :: dedup r (a :: seen)
  end.

Definition decision_code (d : outcome action) : N :=
  match d with Ok a => action_code a | Err _ => 8 | Panic => 9 end.
Definition count_code (c : N) (l : list (outcome action)) : N :=
  N.of_nat (length (filter (fun d => decision_code d =? c) l)).

Definition histogram (progs : list (list N)) (log : list ret_entry) : xval :=
  XL (map (fun b => let v := verdicts_of b log in
                    XL [XN b; XN (count_code 0 v); XN (count_code 1 v); XN (count_code 2 v);
                        XN (N.of_nat (length v) - count_code 0 v - count_code 1 v - count_code 2 v); XN 0])
          (dedup (all_calls progs) [])).

Definition conc_shard (a : N) : nat := N.to_nat (a mod 4).
Definition longest (progs : list (list N)) : nat := fold_right (fun p m => Nat.max (length p) m) O progs.

Definition run_conc (x : xval) : xval :=
  match x with
  | XL [c; cf; ps; sch] =>
      match d_bool c, d_config cf, d_list d_prog ps, d_list d_tid sch with
      | Some checked, Some cfg, Some progs, Some pre =>
          (* a call makes at most 10 accesses (4 shards) *)
          let sched := pre ++ round_robin (length progs) (10 * S (longest progs)) in
          let w := wrun checked cfg 4 conc_shard (wstart 0 progs) sched in
          if all_done w then histogram progs (w_log w) else XL [XN 95]
      | _, _, _, _ => bad_input
      end
  | _ => bad_input
  end.

(** The specification of the same: every call counted, no reset, so the i-th returned call of an
    address gets [ladder max i] — the histogram is a function of the number of calls per address
    ([concurrent_exact_ladder]); disabled: everything passes. *)
Definition spec_hist (cfg : config) (progs : list (list N)) : xval :=
  XL (map (fun b => let n := N.to_nat (count b (all_calls progs)) in
                    let v := map (@Ok action) (ladder_down (max_requests cfg) n) in
                    XL [XN b; XN (count_code 0 v); XN (count_code 1 v); XN (count_code 2 v); XN 0; XN 0])
          (dedup (all_calls progs) [])).
Definition run_conc_spec (x : xval) : xval :=
  match x with
  | XL [c; cf; ps; sch] =>
      match d_bool c, d_config cf, d_list d_prog ps, d_list d_tid sch with
      | Some _, Some cfg, Some progs, Some _ =>
          if check_every cfg =? usize_max
          then XL (map (fun b => XL [XN b; XN (count b (all_calls progs)); XN 0; XN 0; XN 0; XN 0]) (dedup (all_calls progs) []))
          else spec_hist cfg progs
      | _, _, _, _ => bad_input
      end
  | _ => bad_input
  end.

(** limiter.concbound: any configuration (calls sampled, windows reset): which calls are counted
    depends on the interleaving; what does not: no call panics and none is answered more harshly
    than the ladder on the calls of its address begun so far.  Output (L (N harsher) (N panics) (N calls)). *)
Definition run_concbound (x : xval) : xval :=
  match x with
  | XL [c; cf; ps; sch] =>
      match d_bool c, d_config cf, d_list d_prog ps, d_list d_tid sch with
      | Some _, Some _, Some progs, Some _ => XL [XN 0; XN 0; XN (N.of_nat (length (all_calls progs)))]
      | _, _, _, _ => bad_input
      end
  | _ => bad_input
  end.

(** limiter.server_par: concurrent clients on a real server.  127.0.0.1 floods over several connections at
    a time; every bystander (own address) makes [nconn] connections of [nreq] requests at the same
    moment, all its calls together (accept + requests) within every configured maximum.  What the
    flooder gets depends on the interleaving; every bystander is served every time
    ([concurrent_own_traffic_never_limited], for each of the two managers).
    input (L checked sconf (L (N conns) (N reqs) (N parallel)) (L (L (N nconn) (N nreq)) ...)) *)
Definition d_bystander (x : xval) : option (nat * nat) :=
  match x with XL [XN c; XN r] => Some (N.to_nat c, N.to_nat r) | _ => None end.
Definition run_server_par (x : xval) : xval :=
  match x with
  | XL [c; cf; XL [XN _; XN _; XN _]; bs] =>
      match d_bool c, d_sconfig cf, d_list d_bystander bs with
      | Some _, Some sc, Some bys =>
          let limit := N.min (max_requests (pre_cfg sc)) (max_requests (host_cfg sc)) in
          if forallb (fun b => N.of_nat (fst b * S (snd b)) <=? limit) bys
          then XL [XL (map (fun b => XL (repeat (XL [XN 0; XL (repeat (XN 200) (snd b)); XN 0]) (fst b))) bys); XN 1]
          else XL [XN 96]
      | _, _, _ => bad_input
      end
  | _ => bad_input
  end.

(** limiter.concseq: one thread, every access of a call at the same clock reading, each call run
    to completion — the concurrent semantics on a sequential history.  Input and output as
    limiter.register. *)
(** thread 0 makes accesses at clock [t] until the log has grown beyond [n] entries (its call has returned) *)
Fixpoint finish_call (checked : bool) (cfg : config) (nsh : nat) (shard : N -> nat) (fuel n : nat) (t : N) (w : world) : world :=
  match fuel with
  | O => w
  | S j => if Nat.eqb (length (w_log w)) n
           then finish_call checked cfg nsh shard j n t (wstep checked cfg nsh shard w (O, t))
           else w
  end.
Fixpoint seq_calls (checked : bool) (cfg : config) (nsh : nat) (shard : N -> nat) (w : world) (ts : list N) : world :=
  match ts with
  | [] => w
  | t :: r => seq_calls checked cfg nsh shard (finish_call checked cfg nsh shard (8 + nsh) (length (w_log w)) t w) r
  end.
Definition concseq_decisions (checked : bool) (cfg : config) (nsh : nat) (shard : N -> nat) (t0 : N) (h : list event)
  : list (outcome action) :=
  rev (map snd (w_log (seq_calls checked cfg nsh shard (wstart t0 [map fst h]) (map snd h)))).

Definition run_concseq (x : xval) : xval :=
  match x with
  | XL [c; cf; h] =>
      match d_bool c, d_config cf, d_list d_event h with
      | Some checked, Some cfg, Some evs => XL (map x_decision (concseq_decisions checked cfg 4 conc_shard 0 (absolute 0 evs)))
      | _, _, _ => bad_input
      end
  | _ => bad_input
  end.

Definition limiterconc_table : list (bytes * (xval -> xval)) :=
  [ (B "limiter.conc", run_conc);
    (B "limiter.conc_spec", run_conc_spec);
    (B "limiter.concbound", run_concbound);
    (B "limiter.server_par", run_server_par);
    (B "limiter.concseq", run_concseq) ].
