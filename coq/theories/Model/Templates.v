(** C02 — the template engine of kvarn-extensions (extensions/src/templates.rs), the Present extension [tmpl]:
    [extract_templates] (the operator's template files: [$[name]] starts a template) and [handle_template] (a served
    page whose first line is [!> tmpl <files>]: [$[name]] is replaced by the template).  File content, not request
    bytes: the property quantifies over the contents of served files that start with an extension line.

    Byte-faithful: [slice_chk] is the indexing form ([file[a..b]], [Bytes::slice]: [Panic] out of range or
    [a > b]), [unwrap] of [None] is [Panic].  [v0 = true] is [extract_templates] as it was (the last
    template is [file.slice(start..len - trim)]); [v0 = false] the repaired code (commit 176c67e).
    Definitions only. *)
From KV Require Import Bytes RustInt.
From KV Require PathSan.
Open Scope N_scope.

Definition c_dollar : N := 36.
Definition c_open : N := 91.
Definition c_close : N := 93.
Definition c_bs : N := 92.
Definition s_open : bytes := [c_dollar; c_open].

Definition tmap := list (bytes * bytes).
(** [HashMap::insert] *)
Fixpoint t_insert (k v : bytes) (m : tmap) : tmap :=
  match m with
  | [] => [(k, v)]
  | (k', v') :: r => if beq k' k then (k, v) :: r else (k', v') :: t_insert k v r
  end.
Fixpoint t_get (k : bytes) (m : tmap) : option bytes :=
  match m with
  | [] => None
  | (k', v) :: r => if beq k' k then Some v else t_get k r
  end.

Definition last_error {A} (l : list A) : option A := match rev l with x :: _ => Some x | [] => None end.
(** [file.get(i) == Some(&c)] *)
Definition byte_at_is (file : bytes) (i : nat) (c : N) : bool :=
  match nth_error file i with Some x => x =? c | None => false end.

(** What precedes a ["$["] at [position]: [&file[position.saturating_sub(2)..position]], its first byte (unless
    it has only one) and its last.  0 = a placeholder starts here, 1 = it is escaped ([\$[]), 2 = the escape is
    escaped ([\\$[]): a placeholder starts, the text before it ends one byte earlier. *)
Definition dollar_kind (file : bytes) (position : nat) : outcome N :=
  obind (slice_chk (position - 2) position file) (fun previous =>
  let a := if (length previous =? 1)%nat then None else hd_error previous in
  let b := last_error previous in
  match a, b with
  | Some x, Some y => if (x =? c_bs) && (y =? c_bs) then Ok 2 else if y =? c_bs then Ok 1 else Ok 0
  | None, Some y => if y =? c_bs then Ok 1 else Ok 0
  | _, None => Ok 0
  end).

(** [escaped += 1; if escaped == 2 {escaped = 0}] / [escaped = 0] *)
Definition esc_next (escaped : N) (byte : N) : N :=
  if byte =? c_bs then (if escaped + 1 =? 2 then 0 else escaped + 1) else 0.

(** The name between [$[] and []]: [position.checked_sub(placeholder_start + 3).is_some()] and valid UTF-8. *)
Definition placeholder_key (file : bytes) (ps position : nat) : outcome (option bytes) :=
  if (ps + 3 <=? position)%nat then
    obind (slice_chk (ps + 2) position file) (fun key =>
    Ok (if PathSan.utf8_valid key then Some key else None))
  else Ok None.

(** ** [extract_templates] *)
Record xstate := mkX { x_placeholder : bool; x_ps : nat; x_esc : N; x_start : option nat; x_name : option bytes;
                       x_nl : nat; x_map : tmap }.

Definition x_step (file : bytes) (position : nat) (byte : N) (st : xstate) : outcome xstate :=
  let nl := if byte =? 13 then 2%nat else x_nl st in
  let esc' := esc_next (x_esc st) byte in
  if x_placeholder st then
    if negb (x_esc st =? 1) && (byte =? c_close) then
      obind (placeholder_key file (x_ps st) position) (fun key =>
      let name := match key with Some k => Some k | None => x_name st end in
      let ignore := if byte_at_is file (position + nl) 10 then nl
                    else if byte_at_is file (position + 1) 32 then 1%nat else 0%nat in
      Ok (mkX false (x_ps st) esc' (Some (position + 1 + ignore)%nat) name nl (x_map st)))
    else Ok (mkX true (x_ps st) esc' (x_start st) (x_name st) nl (x_map st))
  else
    obind (slice_chk position (length file) file) (fun tail =>                        (* file[position..] *)
    if starts_with s_open tail then
      obind (dollar_kind file position) (fun k =>
      if k =? 1 then Ok (mkX false (x_ps st) esc' (x_start st) (x_name st) nl (x_map st)) else
      obind (if k =? 2 then (match position with O => Panic | S p => Ok p end) else Ok position) (fun end0 =>
      let end_ := (end0 - nl)%nat in
      match x_name st with
      | Some name =>
          match x_start st with
          | None => Panic                                                               (* start_byte.take().unwrap() *)
          | Some start =>
              obind (slice_chk start (Nat.max end_ start) file) (fun body =>            (* file.slice(start..end.max(start)) *)
              Ok (mkX true position esc' None None nl (t_insert name body (x_map st))))
          end
      | None => Ok (mkX true position esc' (x_start st) None nl (x_map st))
      end))
    else Ok (mkX false (x_ps st) esc' (x_start st) (x_name st) nl (x_map st))).

Fixpoint x_loop (file rest : bytes) (position : nat) (st : xstate) : outcome xstate :=
  match rest with
  | [] => Ok st
  | byte :: r => obind (x_step file position byte st) (x_loop file r (S position))
  end.

Definition x_init : xstate := mkX false 0 0 (Some O) None 1 [].

Definition extract_templates (v0 : bool) (file : bytes) : outcome tmap :=
  obind (x_loop file file 0 x_init) (fun st =>
  match x_name st with
  | None => Ok (x_map st)
  | Some name =>
      let len := length file in
      let trim := ((if byte_at_is file (len - 2) 13 then 1 else 0) + (if byte_at_is file (len - 1) 10 then 1 else 0))%nat in
      match x_start st with
      | None => Panic                                                                   (* start_byte.take().unwrap() *)
      | Some start =>
          if (len <? trim)%nat then Panic else                                          (* file.len() - trim *)
          obind (slice_chk start (if v0 then len - trim else Nat.max (len - trim) start)%nat file) (fun body =>
          Ok (t_insert name body (x_map st)))
      end
  end).

(** ** [handle_template] *)

Definition s_ignore : bytes := Eval vm_compute in B "tmpl-ignore".
(** [position(|(pos, byte)| pos >= 48 || byte == LF)] *)
Fixpoint first_line_end (rest : bytes) (pos : nat) : option nat :=
  match rest with
  | [] => None
  | byte :: r => if (48 <=? pos)%nat || (byte =? 10) then Some pos else first_line_end r (S pos)
  end.
Definition skip_ignore_line (body : bytes) : outcome bytes :=
  match first_line_end body 0 with
  | None => Ok body
  | Some e =>
      if (e =? 48)%nat then Ok body else
      obind (slice_chk 0 (S e) body) (fun line =>                                       (* &file[..=first_line_end] *)
      if PathSan.utf8_valid line && contains_sub s_ignore line then slice_chk (S e) (length body) body
      else Ok body)
  end.

Record hstate := mkH { h_placeholder : bool; h_ps : nat; h_esc : N; h_start : option nat; h_out : bytes }.

(** [lookup]: [cache.resolve_template(host, key, &files)] — the first of the named files that has the template; the
    files are read and parsed ([extract_templates]) when the first complete placeholder asks for them. *)
Definition h_step (lookup : bytes -> outcome (option bytes)) (file : bytes) (position : nat) (byte : N) (st : hstate)
  : outcome hstate :=
  let esc' := esc_next (h_esc st) byte in
  if h_placeholder st then
    if negb (h_esc st =? 1) && (byte =? c_close) then
      obind (placeholder_key file (h_ps st) position) (fun key =>
      obind (match key with
             | Some k => obind (lookup k) (fun t => Ok (match t with Some t => h_out st ++ t | None => h_out st end))
             | None => Ok (h_out st)
             end) (fun out =>
      Ok (mkH false (h_ps st) esc' (Some (S position)) out)))
    else Ok (mkH true (h_ps st) esc' (h_start st) (h_out st))
  else
    obind (slice_chk position (length file) file) (fun tail =>
    if starts_with s_open tail then
      obind (dollar_kind file position) (fun k =>
      match h_start st with
      | None => Panic                                                                   (* start_byte.take().unwrap() *)
      | Some start =>
          if k =? 0 then
            obind (slice_chk start position file) (fun text =>
            Ok (mkH true position esc' None (h_out st ++ text)))
          else
            match position with
            | O => Panic                                                                (* position - 1 *)
            | S p =>
                obind (slice_chk start p file) (fun text =>
                if k =? 2 then Ok (mkH true position esc' None (h_out st ++ text))
                else Ok (mkH false (h_ps st) esc' (Some position) (h_out st ++ text)))
            end
      end)
    else Ok (mkH false (h_ps st) esc' (h_start st) (h_out st))).

Fixpoint h_loop (lookup : bytes -> outcome (option bytes)) (file rest : bytes) (position : nat) (st : hstate) : outcome hstate :=
  match rest with
  | [] => Ok st
  | byte :: r => obind (h_step lookup file position byte st) (h_loop lookup file r (S position))
  end.

Definition handle_template (lookup : bytes -> outcome (option bytes)) (body : bytes) : outcome bytes :=
  obind (skip_ignore_line body) (fun file =>
  obind (h_loop lookup file file 0 (mkH false 0 0 (Some O) [])) (fun st =>
  match h_start st with
  | Some start => obind (slice_chk start (length file) file) (fun text => Ok (h_out st ++ text))
  | None => Ok (h_out st)
  end)).

(** A page [!> tmpl T] + [body] with ONE template file [tfile] ([None]: the file does not exist): what the client
    receives. *)
Definition render (v0 : bool) (tfile : option bytes) (body : bytes) : outcome bytes :=
  handle_template (fun k => match tfile with
                            | Some f => obind (extract_templates v0 f) (fun m => Ok (t_get k m))
                            | None => Ok None
                            end) body.

(** ** xval interface *)
(** component tmpl.render: (L (B body) (L [template file])) -> outcome of the rendered body *)
Definition run_tmpl_render (x : xval) : xval :=
  match x with
  | XL [XB body; tf] =>
      match d_option d_B tf with
      | Some tfile => x_outcome XB (render false tfile body)
      | None => bad_input
      end
  | _ => bad_input
  end.

Definition templates_table : list (bytes * (xval -> xval)) :=
  [ (B "tmpl.render", run_tmpl_render) ].
