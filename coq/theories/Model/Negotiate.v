(** C06 — model of content-coding negotiation and lazily memoised compression:
    [kvarn_utils::parse::list_header] (utils/src/parse.rs), [comprash::do_compress],
    [CompressedResponse::{new, clone_preferred, clone_identity_set_compression, get_gzip,
    get_br, get_zstd}] (src/comprash.rs) and the 406 mapping in [handle_cache] (src/lib.rs).
    Definitions only; proofs live in Proofs/NegotiateProofs.v.

    External behaviour is a Section variable, never an axiom:
      [parse_q]    = [<f32 as FromStr>::from_str] followed by the three tests the code makes
                     on the result ([== 0.0], [== 1.0], neither),
      [parse_mime] = [<mime::Mime as FromStr>::from_str],
      [enc]        = the three encoders (flate2 GzEncoder, brotli CompressorWriter, zstd Encoder).
    The executable instances used by the correspondence run are at the end of the file. *)
From KV Require Export Bytes RustInt Range.
Open Scope N_scope.

(* ------------------------------------------------------------------------------------ *)
(** * Qualities, codings                                                                  *)

(** What the code asks of a parsed [f32] quality: [q == 0.0], [q == 1.0] (derived
    [PartialEq] of [ValueQualitySet]) or neither (includes NaN and the infinities). *)
Inductive qclass := QZero | QOne | QOther.
Definition q_is_zero (q : qclass) : bool := match q with QZero => true | _ => false end.
Definition q_is_one (q : qclass) : bool := match q with QOne => true | _ => false end.

Inductive alg := Gzip | Br | Zstd.
Inductive coding := Identity | Alg (a : alg).
Definition alg_name (a : alg) : bytes :=
  match a with Gzip => B "gzip" | Br => B "br" | Zstd => B "zstd" end.
Definition s_identity : bytes := B "identity".
Definition coding_name (c : coding) : bytes :=
  match c with Identity => s_identity | Alg a => alg_name a end.
Definition alg_eqb (a c : alg) : bool :=
  match a, c with Gzip, Gzip | Br, Br | Zstd, Zstd => true | _, _ => false end.

(** [PreferredCompression] *)
Inductive pref := PZstd | PBr | PGzip | PNone.

(* ------------------------------------------------------------------------------------ *)
(** * [list_header]                                                                       *)

(** optional white space of RFC 7230: SP / HTAB; [trim_ows] = [str::trim_matches] of those *)
Definition is_ows (c : N) : bool := (c =? 32) || (c =? 9).
Fixpoint trim_start (s : bytes) : bytes :=
  match s with
  | [] => []
  | c :: r => if is_ows c then trim_start r else s
  end.
Definition trim_end (s : bytes) : bytes := rev (trim_start (rev s)).
Definition trim_ows (s : bytes) : bytes := trim_end (trim_start s).

Definition c_semi := 59. Definition c_eq := 61. Definition c_q := 113. Definition c_dot := 46.

(** the loop variables of [list_header], in the order of their declaration *)
Record lh := mkLh {
  lh_start : nat;        (* start_byte *)
  lh_end : nat;          (* end_byte, 0 = not set *)
  lh_inq : bool;         (* in_quality *)
  lh_prevq : bool;       (* previous_was_q *)
  lh_qstart : nat;       (* quality_start_byte, 0 = not set *)
  lh_out : list (bytes * qclass)
}.
Definition lh_init : lh := mkLh 0 0 false false 0 [].

Section ListHeader.
  Variable parse_q : bytes -> option qclass.
  (** [fix_ows = true]: the code as it is now (values and qualities are trimmed of OWS);
      [false]: kvarn 0.6.3 before the repair, kept for the [_refuted] witness only. *)
  Variable fix_ows : bool.

  Definition ows_view (s : bytes) : bytes := if fix_ows then trim_ows s else s.

  (** [header.get(a..b).and_then(|q| q.parse().ok()).unwrap_or(1.0)] *)
  Definition quality_of (o : option bytes) : qclass :=
    match o with
    | Some s => match parse_q (ows_view s) with Some c => c | None => QOne end
    | None => QOne
    end.

  (** the block executed at a ',' and once more at the end of the input ([position] =
      [header.len()] there: [get(a..)] = [get(a..len)]) *)
  Definition lh_emit (header : bytes) (start end_ qstart position : nat) (out : list (bytes * qclass))
    : list (bytes * qclass) :=
    let quality := quality_of (slice_get qstart position header) in
    match slice_get start (if Nat.eqb end_ 0 then position else end_) header with
    | Some accept => out ++ [(ows_view accept, quality)]
    | None => out
    end.

  Definition lh_step (header : bytes) (position : nat) (byte : N) (s : lh) : lh :=
    if byte =? 32 then s else
    let qstart1 :=
      if lh_inq s && Nat.eqb (lh_qstart s) 0 && (is_digit byte || (byte =? c_dot))
      then position else lh_qstart s in
    let semi := (byte =? c_semi) && negb (lh_inq s) in
    let end1 := if semi then position else lh_end s in
    let inq1 := if semi then true else lh_inq s in
    let qstart2 := if inq1 && (byte =? c_eq) && lh_prevq s then S position else qstart1 in
    let prevq1 := if inq1 then byte =? c_q else lh_prevq s in
    if byte =? c_comma then
      mkLh (match nth_error header (S position) with
            | Some c => if c =? 32 then S (S position) else S position
            | None => S position
            end)
           0 false prevq1 0
           (lh_emit header (lh_start s) end1 qstart2 position (lh_out s))
    else mkLh (lh_start s) end1 inq1 prevq1 qstart2 (lh_out s).

  Fixpoint lh_loop (header rest : bytes) (position : nat) (s : lh) : lh :=
    match rest with
    | [] => s
    | byte :: r => lh_loop header r (S position) (lh_step header position byte s)
    end.

  Definition list_header_gen (header : bytes) : list (bytes * qclass) :=
    let s := lh_loop header header 0 lh_init in
    lh_emit header (lh_start s) (lh_end s) (lh_qstart s) (length header) (lh_out s).
End ListHeader.

(** [x] occurs in [h] as a contiguous piece *)
Definition substr (x h : bytes) : Prop := exists p q, h = p ++ x ++ q.

(** ** Reference grammar for [list_header_wf]: RFC 7231 [#( codings [ weight ] )] with OWS.
    A member is OWS name [ OWS ";" OWS "q=" qvalue ] OWS; members are separated by ",". *)
Record member := mkMember {
  mb_pre : bytes;                              (* OWS before the name *)
  mb_name : bytes;
  mb_weight : option (bytes * bytes * bytes);  (* OWS before ';', OWS after ';', text of the qvalue *)
  mb_post : bytes                              (* OWS after the member *)
}.
Definition weight_text (w : option (bytes * bytes * bytes)) : bytes :=
  match w with
  | Some (w1, w2, qv) => w1 ++ [c_semi] ++ w2 ++ [c_q; c_eq] ++ qv
  | None => []
  end.
Definition member_text (m : member) : bytes := mb_pre m ++ mb_name m ++ weight_text (mb_weight m) ++ mb_post m.
Fixpoint members_text (ms : list member) : bytes :=
  match ms with
  | [] => []
  | [m] => member_text m
  | m :: r => member_text m ++ [c_comma] ++ members_text r
  end.
(** the reference parse: the name, and the value of the weight (1 without weight or when it does not parse) *)
Definition member_ref (parse_q : bytes -> option qclass) (m : member) : bytes * qclass :=
  (mb_name m,
   match mb_weight m with
   | Some (_, _, qv) => match parse_q qv with Some c => c | None => QOne end
   | None => QOne
   end).
(** characters a number may consist of: digits . + - e E and the letters of inf / nan / infinity *)
Definition numberish (c : N) : bool :=
  is_digit c || existsb (N.eqb c) [43; 45; 46; 69; 101; 73; 105; 78; 110; 70; 102; 65; 97; 84; 116; 89; 121].
Definition sep_free (c : N) : bool := negb (is_ows c || (c =? c_comma) || (c =? c_semi)).
(** a name: non-empty, no OWS, ',' or ';', and not made of number characters only (a member without
    weight is given the value of the text in front of it when that text parses as a number) *)
Definition name_ok (s : bytes) : bool :=
  negb (beq s []) && forallb sep_free s && existsb (fun c => negb (numberish c)) s.
Definition qv_ok (s : bytes) : bool := forallb (fun c => negb (is_ows c || (c =? c_comma) || (c =? c_eq))) s.
Definition member_ok (m : member) : bool :=
  forallb is_ows (mb_pre m) && name_ok (mb_name m) && forallb is_ows (mb_post m)
  && match mb_weight m with
     | Some (w1, w2, qv) => forallb is_ows w1 && forallb is_ows w2 && qv_ok qv
     | None => true
     end.

(* ------------------------------------------------------------------------------------ *)
(** * Media types and [do_compress]                                                       *)

(** what [do_compress] reads of a parsed [Mime]: [type_()], [subtype()] (the part before a
    '+'), whether there is a suffix, whether there are parameters (for [== APPLICATION_PDF]);
    both names are lower-case after parsing *)
Record mime := mkMime { m_type : bytes; m_subtype : bytes; m_suffix : bool; m_params : bool }.

Definition is_pdf (m : mime) : bool :=
  beq (m_type m) (B "application") && beq (m_subtype m) (B "pdf") && negb (m_suffix m) && negb (m_params m).

Definition do_compress (m : mime) : bool :=
  let ty := m_type m in
  let st := m_subtype m in
  negb (beq ty (B "image") && negb (beq st (B "svg")))
  && negb (beq ty (B "font"))
  && negb (beq ty (B "video"))
  && negb (beq ty (B "audio"))
  && negb (beq ty (B "*"))
  && negb (is_pdf m)
  && negb (beq st (B "zip"))
  && negb (beq st (B "zstd"))
  && negb (beq ty (B "application")
           && negb (beq st (B "javascript") || beq st (B "graphql") || beq st (B "json")
                    || beq st (B "xml") || beq st (B "wasm") || beq st (B "octet-stream"))).

(* ------------------------------------------------------------------------------------ *)
(** * [CompressedResponse]                                                                *)

Record options := mkOptions { o_pref : pref; o_zstd : N; o_br : N; o_gzip : N }.
Definition level_of (o : options) (a : alg) : N :=
  match a with Zstd => o_zstd o | Br => o_br o | Gzip => o_gzip o end.

(** the identity response (body, content-type header after [check_content_type]), the
    compress preference after the floor, the three memo cells *)
Record cresp := mkCresp {
  cr_body : bytes;
  cr_ctype : option bytes;
  cr_compress : bool;
  cr_gzip : option bytes;
  cr_br : option bytes;
  cr_zstd : option bytes
}.
Definition cell_get (a : alg) (c : cresp) : option bytes :=
  match a with Gzip => cr_gzip c | Br => cr_br c | Zstd => cr_zstd c end.
Definition cell_set (a : alg) (v : option bytes) (c : cresp) : cresp :=
  match a with
  | Gzip => mkCresp (cr_body c) (cr_ctype c) (cr_compress c) v (cr_br c) (cr_zstd c)
  | Br => mkCresp (cr_body c) (cr_ctype c) (cr_compress c) (cr_gzip c) v (cr_zstd c)
  | Zstd => mkCresp (cr_body c) (cr_ctype c) (cr_compress c) (cr_gzip c) (cr_br c) v
  end.

Definition floor : nat := 50.
(** [CompressedResponse::new]: "It's not worth it. Also covers special case of body.is_empty." *)
Definition cresp_new (body : bytes) (ctype : option bytes) (compress : bool) : cresp :=
  mkCresp body ctype (if Nat.ltb (length body) floor then false else compress) None None None.

(** what [clone_preferred] hands to its caller *)
Inductive reply :=
| Sent (label : option bytes) (body : bytes) (chosen : coding)   (* Ok(response) *)
| NotAcceptable.                                                 (* Err(message) -> 406 *)

(** [clone_identity_set_compression]: content-encoding is inserted only for a non-empty body *)
Definition set_compression (new_data : bytes) (compression : coding) : reply :=
  Sent (match new_data with [] => None | _ => Some (coding_name compression) end) new_data compression.

Section Negotiate.
  Variable parse_q : bytes -> option qclass.
  Variable parse_mime : bytes -> option mime.
  Variable enc : alg -> N -> bytes -> bytes.        (* algorithm, level, identity body *)

  Definition list_header : bytes -> list (bytes * qclass) := list_header_gen parse_q true.

  (** [request.headers().get("accept-encoding").map(HeaderValue::to_str).and_then(Result::ok)] *)
  Definition header_values (ae : option bytes) : list (bytes * qclass) :=
    match ae with
    | Some h => if to_str_ok h then list_header h else []
    | None => []
    end.

  Definition disable_identity (values : list (bytes * qclass)) : bool :=
    existsb (fun v => beq (fst v) s_identity && q_is_zero (snd v)) values.
  Definition only_identity (values : list (bytes * qclass)) : bool :=
    match values with
    | [v] => beq (fst v) s_identity && q_is_one (snd v)
    | _ => false
    end.
  Definition contains (values : list (bytes * qclass)) (name : bytes) : bool :=
    existsb (fun v => beq (fst v) name && negb (q_is_zero (snd v))) values.

  (** the preferred algorithm if the client lists it, else zstd, br, gzip in this order *)
  Definition pick (p : pref) (cz cb cg : bool) : option alg :=
    let p0 := match p with
              | PZstd => if cz then Some Zstd else None
              | PBr => if cb then Some Br else None
              | PGzip => if cg then Some Gzip else None
              | PNone => None
              end in
    let p1 := match p0 with None => if cz then Some Zstd else None | s => s end in
    let p2 := match p1 with None => if cb then Some Br else None | s => s end in
    match p2 with None => if cg then Some Gzip else None | s => s end.

  (** [headers().get("content-type").and_then(|h| h.to_str().ok()).and_then(|h| h.parse().ok())] *)
  Definition ctype_mime (c : cresp) : option mime :=
    match cr_ctype c with Some h => if to_str_ok h then parse_mime h else None | None => None end.

  (** the coding [clone_preferred] settles on once it is past the two early returns *)
  Definition choose (c : cresp) (values : list (bytes * qclass)) (o : options) : coding :=
    match ctype_mime c with
    | Some m =>
        if do_compress m then
          match pick (o_pref o) (contains values (alg_name Zstd)) (contains values (alg_name Br))
                     (contains values (alg_name Gzip)) with
          | Some a => Alg a
          | None => Identity
          end
        else Identity
    | None => Identity
    end.

  (** [get_gzip] / [get_br] / [get_zstd] run by one task at a time:
      check the cell; compute; check again and write; read the cell *)
  Definition get_alg (a : alg) (level : N) (c : cresp) : bytes * cresp :=
    match cell_get a c with
    | Some b => (b, c)
    | None => let b := enc a level (cr_body c) in (b, cell_set a (Some b) c)
    end.

  Definition clone_preferred (c : cresp) (ae : option bytes) (o : options) : reply * cresp :=
    if negb (cr_compress c) then (set_compression (cr_body c) Identity, c) else
    let values := header_values ae in
    if only_identity values then (set_compression (cr_body c) Identity, c) else
    match choose c values o with
    | Identity =>
        if disable_identity values then (NotAcceptable, c)
        else (set_compression (cr_body c) Identity, c)
    | Alg a =>
        let '(b, c') := get_alg a (level_of o a) c in
        (set_compression b (Alg a), c')
    end.

  (** specification vocabulary *)
  Definition compressible (c : cresp) : bool :=
    match ctype_mime c with Some m => do_compress m | None => false end.
  (** every filled memo cell holds an output of its encoder on the identity body *)
  Definition cells_ok (c : cresp) : Prop :=
    forall a b, cell_get a c = Some b -> exists level, b = enc a level (cr_body c).

  (** ** One cached page inside [handle_cache] (GET, status 200, no vary rules) *)
  Record page := mkPage {
    pg_body : bytes; pg_ctype : option bytes; pg_compress : bool;   (* what the handler returns *)
    pg_cache : bool;                                                (* get_cache(..).is_some() *)
    pg_oneshot : options; pg_cached : options
  }.
  (** server state = the cached entry of the page, if any *)
  Definition handle (pg : page) (entry : option cresp) (ae : option bytes) : reply * option cresp :=
    match entry with
    | Some c =>
        let '(r, c') := clone_preferred c ae (pg_cached pg) in (r, Some c')
    | None =>
        let c := cresp_new (pg_body pg) (pg_ctype pg) (pg_compress pg) in
        let '(r, c') := clone_preferred c ae (if pg_cache pg then pg_cached pg else pg_oneshot pg) in
        (r, if pg_cache pg then Some c' else None)
    end.
  Fixpoint handle_all (pg : page) (entry : option cresp) (reqs : list (option bytes))
    : list reply * option cresp :=
    match reqs with
    | [] => ([], entry)
    | ae :: rest =>
        let '(r, e) := handle pg entry ae in
        let '(rs, e') := handle_all pg e rest in
        (r :: rs, e')
    end.
  Definition serve (pg : page) (entry : option cresp) (reqs : list (option bytes)) : list reply :=
    fst (handle_all pg entry reqs).
  (** groups of requests (a group = requests that arrive together) *)
  Fixpoint serve_groups (pg : page) (entry : option cresp) (groups : list (list (option bytes)))
    : list (list reply) :=
    match groups with
    | [] => []
    | g :: rest => let '(rs, e) := handle_all pg entry g in rs :: serve_groups pg e rest
    end.
End Negotiate.

(** status seen by the client: the handler's 200 or the 406 of [handle_cache] *)
Definition reply_status (r : reply) : N := match r with Sent _ _ _ => 200 | NotAcceptable => 406 end.

(** decoding by label, with decoders [dec]; [None] = a label no decoder exists for *)
Definition decode_label (dec : alg -> bytes -> bytes) (label : option bytes) (b : bytes) : option bytes :=
  match label with
  | None => Some b
  | Some l =>
      if beq l s_identity then Some b
      else if beq l (alg_name Gzip) then Some (dec Gzip b)
      else if beq l (alg_name Br) then Some (dec Br b)
      else if beq l (alg_name Zstd) then Some (dec Zstd b)
      else None
  end.

(* ------------------------------------------------------------------------------------ *)
(** * The memo cell under concurrency: n tasks inside the same [get_x]                    *)

(** program counter of one task; one transition per access of the cell / per await *)
Inductive pc :=
| PStart                      (* before [if self.x().is_none()] *)
| PComputing                  (* inside spawn_blocking(..).await *)
| PComputed (buf : bytes)     (* before the second [is_none()] + [replace(buffer)] *)
| PRet                        (* before [self.x().as_ref().unwrap()] *)
| PDone (r : outcome bytes).  (* returned ([Panic] = unwrap on None) *)

Record mstate := mkM { m_cell : option bytes; m_pcs : list pc }.

Fixpoint set_nth {A} (i : nat) (v : A) (l : list A) : list A :=
  match l, i with
  | [], _ => []
  | _ :: r, O => v :: r
  | x :: r, S j => x :: set_nth j v r
  end.

(** [vals]: what the encoder run of task i produces *)
Definition mstep (vals : list bytes) (st : mstate) (i : nat) : option mstate :=
  match nth_error (m_pcs st) i with
  | Some PStart =>
      Some (mkM (m_cell st) (set_nth i (match m_cell st with None => PComputing | Some _ => PRet end) (m_pcs st)))
  | Some PComputing =>
      Some (mkM (m_cell st) (set_nth i (PComputed (nth i vals [])) (m_pcs st)))
  | Some (PComputed buf) =>
      Some (mkM (match m_cell st with None => Some buf | Some b => Some b end) (set_nth i PRet (m_pcs st)))
  | Some PRet =>
      Some (mkM (m_cell st)
                (set_nth i (PDone (match m_cell st with Some b => Ok b | None => Panic end)) (m_pcs st)))
  | Some (PDone _) => None
  | None => None
  end.

(** a schedule is a list of task indices; a disabled step is skipped *)
Fixpoint mrun (vals : list bytes) (st : mstate) (sched : list nat) : mstate :=
  match sched with
  | [] => st
  | i :: r => mrun vals (match mstep vals st i with Some st' => st' | None => st end) r
  end.
Definition minit (cell : option bytes) (n : nat) : mstate := mkM cell (repeat PStart n).
Definition pc_done (p : pc) : bool := match p with PDone _ => true | _ => false end.

(* ------------------------------------------------------------------------------------ *)
(** * Executable instances for the correspondence run                                     *)

(** Stand-in for [f32::from_str] on plain decimals: digits with at most one '.', at least
    one digit ([5], [5.], [.5], [0.000]).  The value m / 10^k is compared exactly with the
    binary32 rounding thresholds: it parses to 0.0 iff m/10^k <= 2^-150 (half the smallest
    subnormal, tie to even) and to 1.0 iff 1 - 2^-25 <= m/10^k <= 1 + 2^-24 (ties to even).
    Everything else is "does not parse" here; signs, exponents, inf and nan are outside the
    domain of the stand-in and are not generated as in-domain cases. *)
Fixpoint dec_scan (s : bytes) (seen_dot : bool) (m : N) (k : N) (digits : bool) : option (N * N) :=
  match s with
  | [] => if digits then Some (m, k) else None
  | c :: r =>
      if is_digit c then dec_scan r seen_dot (m * 10 + (c - 48)) (if seen_dot then k + 1 else k) true
      else if (c =? c_dot) && negb seen_dot then dec_scan r true m k digits
      else None
  end.
Definition parse_q_dec (s : bytes) : option qclass :=
  match dec_scan s false 0 0 false with
  | None => None
  | Some (m, k) =>
      let p := 10 ^ k in
      if m * 2 ^ 150 <=? p then Some QZero
      else if ((2 ^ 25 - 1) * p <=? m * 2 ^ 25) && (m * 2 ^ 24 <=? (2 ^ 24 + 1) * p) then Some QOne
      else Some QOther
  end.

(** Stand-in for [Mime::from_str] (mime 0.3.17 parse.rs) on
    [type "/" subtype] optionally followed by [; charset=utf-8] / [;charset=utf-8]:
    token characters, non-empty type, the last '+' that is not the first byte of the subtype
    starts the suffix, names are lower-cased.  Other parameter lists are outside the domain. *)
Definition is_mime_token (c : N) : bool :=
  ((48 <=? c) && (c <=? 57)) || ((65 <=? c) && (c <=? 90)) || ((97 <=? c) && (c <=? 122))
  || existsb (N.eqb c) [33; 35; 36; 37; 38; 39; 42; 43; 45; 46; 94; 95; 96; 124; 126].
Fixpoint split_at_byte (d : N) (s : bytes) : bytes * option bytes :=
  match s with
  | [] => ([], None)
  | c :: r => if c =? d then ([], Some r) else let '(a, z) := split_at_byte d r in (c :: a, z)
  end.
(** index of the last '+' at an index > 0 *)
Fixpoint last_plus (s : bytes) (i : nat) (acc : option nat) : option nat :=
  match s with
  | [] => acc
  | c :: r => last_plus r (S i) (if (c =? 43) && negb (Nat.eqb i 0) then Some i else acc)
  end.
Definition parse_mime_std (s : bytes) : option mime :=
  if beq s (B "*/*") then Some (mkMime (B "*") (B "*") false false) else
  match split_at_byte 47 s with
  | (_, None) => None
  | (ty, Some rest) =>
      if negb (forallb is_mime_token ty) || beq ty [] then None else
      let '(sub, params) := split_at_byte c_semi rest in
      if negb (forallb is_mime_token sub) then None else
      let params_ok :=
        match params with
        | None => Some false
        | Some p => if beq sub [] then None
                    else if beq (lower p) (B " charset=utf-8") || beq (lower p) (B "charset=utf-8") then Some true
                    else None
        end in
      match params_ok with
      | None => None
      | Some has_params =>
          match last_plus sub 0 None with
          | Some i => Some (mkMime (lower ty) (lower (firstn i sub)) true has_params)
          | None => Some (mkMime (lower ty) (lower sub) false has_params)
          end
      end
  end.

(** Stand-in encoders: a one-byte tag in front of the body.  Only used to make the model
    executable; every theorem is about arbitrary [enc]. *)
Definition alg_tag (a : alg) : N := match a with Gzip => 31 | Br => 206 | Zstd => 40 end.
Definition enc_tag (a : alg) (level : N) (b : bytes) : bytes := alg_tag a :: b.
Definition dec_tag (a : alg) (b : bytes) : bytes := tl b.

(** ** xval wrappers *)
Definition x_qclass (q : qclass) : xval := XN (match q with QZero => 0 | QOne => 1 | QOther => 2 end).

(** "neg.list_header": (B header) -> Ok (L (L value qclass) ...) *)
Definition run_list_header (x : xval) : xval :=
  match x with
  | XB h => x_outcome (x_list (x_pair XB x_qclass)) (Ok (list_header_gen parse_q_dec true h))
  | _ => bad_input
  end.

(** "neg.mime": (B content-type) -> (L) | (L (L type subtype suffix? params? do_compress)) *)
Definition run_mime (x : xval) : xval :=
  match x with
  | XB h =>
      x_option (fun m => XL [XB (m_type m); XB (m_subtype m); x_bool (m_suffix m); x_bool (m_params m);
                             x_bool (do_compress m)])
               (if to_str_ok h then parse_mime_std h else None)
  | _ => bad_input
  end.

(** body descriptions: (L (N 0) (B bytes)) literal | (L (N 1) (N byte) (N len)) repeated byte
    | (L (N 2) (N seed) (N len)) bytes of the LCG x' = (1103515245 x + 12345) mod 2^31, byte = x' / 2^16 mod 256 *)
Definition lcg_next (x : N) : N := (1103515245 * x + 12345) mod 2147483648.
Definition lcg_bytes (seed len : N) : bytes :=
  rev_append (snd (N.iter len (fun st => let x := lcg_next (fst st) in (x, ((x / 65536) mod 256) :: snd st)) (seed, []))) [].
Definition d_body (x : xval) : option bytes :=
  match x with
  | XL [XN 0; XB b] => Some b
  | XL [XN 1; XN c; XN len] => Some (N.iter len (cons c) [])
  | XL [XN 2; XN seed; XN len] => Some (lcg_bytes seed len)
  | _ => None
  end.
Definition d_pref (x : xval) : option pref :=
  match x with
  | XN 0 => Some PNone | XN 1 => Some PGzip | XN 2 => Some PBr | XN 3 => Some PZstd | _ => None
  end.

(** request: (L (N 0) (L [accept-encoding])) one request | (L (N 1) (L [accept-encoding]) (N n)) n concurrent
    requests with the same header (by [memo_invariant] every interleaving gives what n sequential ones give) *)
Definition d_req (x : xval) : option (list (option bytes)) :=
  match x with
  | XL [XN 0; ae] => option_map (fun a => [a]) (d_option d_B ae)
  | XL [XN 1; ae; XN n] => option_map (fun a => repeat a (N.to_nat n)) (d_option d_B ae)
  | _ => None
  end.

(** observation of one reply: status, content-encoding, the body decodes with the decoder of the
    label, the decoded body is the identity body, its length, the bytes sent are the identity bytes,
    the bytes sent are those of the first reply that carried this label *)
Fixpoint assoc_b (k : bytes) (l : list (bytes * bytes)) : option bytes :=
  match l with
  | [] => None
  | (k', v) :: r => if beq k k' then Some v else assoc_b k r
  end.
Definition x_reply (identity : bytes) (seen : list (bytes * bytes)) (r : reply) : xval * list (bytes * bytes) :=
  match r with
  | NotAcceptable => (XL [XN 406], seen)
  | Sent label b _ =>
      let d := decode_label dec_tag label b in
      let key := match label with Some l => l | None => [] end in
      let '(same, seen') := match assoc_b key seen with
                            | Some b0 => (beq b b0, seen)
                            | None => (true, seen ++ [(key, b)])
                            end in
      (XL [XN 200; x_option XB label;
           x_bool (match d with Some _ => true | None => false end);
           x_bool (match d with Some v => beq v identity | None => false end);
           x_nat (match d with Some v => length v | None => O end);
           x_bool (beq b identity);
           x_bool same], seen')
  end.
Fixpoint x_replies (identity : bytes) (seen : list (bytes * bytes)) (rs : list reply) : list xval * list (bytes * bytes) :=
  match rs with
  | [] => ([], seen)
  | r :: rest =>
      let '(x, seen1) := x_reply identity seen r in
      let '(xs, seen2) := x_replies identity seen1 rest in
      (x :: xs, seen2)
  end.
Fixpoint x_groups (identity : bytes) (seen : list (bytes * bytes)) (gs : list (list reply)) : list xval :=
  match gs with
  | [] => []
  | g :: rest => let '(xs, seen1) := x_replies identity seen g in XL xs :: x_groups identity seen1 rest
  end.

(** "neg.pipe": (L (L body (L [content-type]) compress cache pref_oneshot pref_cached) (L req ...)) *)
Definition run_pipe_neg (x : xval) : xval :=
  match x with
  | XL [XL [xbody; xct; xcompress; xcache; xp1; xp2]; XL xreqs] =>
      match d_body xbody, d_option d_B xct, d_bool xcompress, d_bool xcache, d_pref xp1, d_pref xp2,
            d_all d_req xreqs with
      | Some body, Some ct, Some compress, Some cache, Some p1, Some p2, Some reqs =>
          let pg := mkPage body ct compress cache (mkOptions p1 1 3 1) (mkOptions p2 4 4 2) in
          XL (x_groups body [] (serve_groups parse_q_dec parse_mime_std enc_tag pg None reqs))
      | _, _, _, _, _, _, _ => bad_input
      end
  | _ => bad_input
  end.

Definition negotiate_table : list (bytes * (xval -> xval)) :=
  [ (B "neg.list_header", run_list_header);
    (B "neg.mime", run_mime);
    (B "neg.pipe", run_pipe_neg) ].
