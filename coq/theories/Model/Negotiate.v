(** C06 — model of content-coding negotiation and lazily memoised compression:
    [kvarn_utils::parse::list_header] (utils/src/parse.rs), [comprash::do_compress],
    [CompressedResponse::{new, clone_preferred, clone_identity_set_compression, get_gzip,
    get_br, get_zstd}] (src/comprash.rs) and the 406 mapping in [handle_cache] (src/lib.rs).
    Definitions only; proofs live in Proofs/NegotiateProofs.v.

    External behaviour is a Section variable, never an axiom:
      [parse_q]    = [<f32 as FromStr>::from_str] followed by the three tests the code makes
                     on the result ([== 0.0], [== 1.0], neither),
      [parse_mime] = [<mime::Mime as FromStr>::from_str],
      [enc]        = the three encoders (flate2 GzEncoder, brotli CompressorWriter, zstd Encoder).
    The executable instances used by the correspondence run are at the end of the file. *)
From KV Require Export Bytes RustInt Range.
Open Scope N_scope.

(* ------------------------------------------------------------------------------------ *)
(** * Qualities, codings                                                                  *)

(** What the code asks of a parsed [f32] quality: [q == 0.0], [q == 1.0] (derived
    [PartialEq] of [ValueQualitySet]) or neither (includes NaN and the infinities). *)
Inductive qclass := QZero | QOne | QOther.
Definition q_is_zero (q : qclass) : bool := match q with QZero => true | _ => false end.
Definition q_is_one (q : qclass) : bool := match q with QOne => true | _ => false end.

Inductive alg := Gzip | Br | Zstd.
Inductive coding := Identity | Alg (a : alg).
Definition alg_name (a : alg) : bytes :=
  match a with Gzip => B "gzip" | Br => B "br" | Zstd => B "zstd" end.
Definition s_identity : bytes := B "identity".
Definition coding_name (c : coding) : bytes :=
  match c with Identity => s_identity | Alg a => alg_name a end.
Definition alg_eqb (a c : alg) : bool :=
  match a, c with Gzip, Gzip | Br, Br | Zstd, Zstd => true | _, _ => false end.

(** [PreferredCompression] *)
Inductive pref := PZstd | PBr | PGzip | PNone.

(* ------------------------------------------------------------------------------------ *)
(** * [list_header]                                                                       *)

(** optional white space of RFC 7230: SP / HTAB; [trim_ows] = [str::trim_matches] of those *)
Definition is_ows (c : N) : bool := (c =? 32) || (c =? 9).
Fixpoint trim_start (s : bytes) : bytes :=
  match s with
  | [] => []
  | c :: r => if is_ows c then trim_start r else s
  end.
Definition trim_end (s : bytes) : bytes := rev (trim_start (rev s)).
Definition trim_ows (s : bytes) : bytes := trim_end (trim_start s).

Definition c_semi := 59. Definition c_eq := 61. Definition c_q := 113. Definition c_dot := 46.

(** the loop variables of [list_header], in the order of their declaration *)
Record lh := mkLh {
  lh_start : nat;        (* start_byte *)
  lh_end : nat;          (* end_byte, 0 = not set *)
  lh_inq : bool;         (* in_quality *)
  lh_prevq : bool;       (* previous_was_q *)
  lh_qstart : nat;       (* quality_start_byte, 0 = not set *)
  lh_out : list (bytes * qclass)
}.
Definition lh_init : lh := mkLh 0 0 false false 0 [].

Section ListHeader.
  Variable parse_q : bytes -> option qclass.
  (** [fix_ows = true]: the code as it is now (values and qualities are trimmed of OWS);
      [false]: kvarn 0.6.3 before the repair, kept for the [_refuted] witness only. *)
  Variable fix_ows : bool.

  Definition ows_view (s : bytes) : bytes := if fix_ows then trim_ows s else s.

  (** [header.get(a..b).and_then(|q| q.parse().ok()).unwrap_or(1.0)] *)
  Definition quality_of (o : option bytes) : qclass :=
    match o with
    | Some s => match parse_q (ows_view s) with Some c => c | None => QOne end
    | None => QOne
    end.

  (** the block executed at a ',' and once more at the end of the input ([position] =
      [header.len()] there: [get(a..)] = [get(a..len)]) *)
  Definition lh_emit (header : bytes) (start end_ qstart position : nat) (out : list (bytes * qclass))
    : list (bytes * qclass) :=
    let quality := quality_of (slice_get qstart position header) in
    match slice_get start (if Nat.eqb end_ 0 then position else end_) header with
    | Some accept => out ++ [(ows_view accept, quality)]
    | None => out
    end.

  Definition lh_step (header : bytes) (position : nat) (byte : N) (s : lh) : lh :=
    if byte =? 32 then s else
    let qstart1 :=
      if lh_inq s && Nat.eqb (lh_qstart s) 0 && (is_digit byte || (byte =? c_dot))
      then position else lh_qstart s in
    let semi := (byte =? c_semi) && negb (lh_inq s) in
    let end1 := if semi then position else lh_end s in
    let inq1 := if semi then true else lh_inq s in
    let qstart2 := if inq1 && (byte =? c_eq) && lh_prevq s then S position else qstart1 in
    let prevq1 := if inq1 then byte =? c_q else lh_prevq s in
    if byte =? c_comma then
      mkLh (match nth_error header (S position) with
            | Some c => if c =? 32 then S (S position) else S position
            | None => S position
            end)
           0 false prevq1 0
           (lh_emit header (lh_start s) end1 qstart2 position (lh_out s))
    else mkLh (lh_start s) end1 inq1 prevq1 qstart2 (lh_out s).

  Fixpoint lh_loop (header rest : bytes) (position : nat) (s : lh) : lh :=
    match rest with
    | [] => s
    | byte :: r => lh_loop header r (S position) (lh_step header position byte s)
    end.

  Definition list_header_gen (header : bytes) : list (bytes * qclass) :=
    let s := lh_loop header header 0 lh_init in
    lh_emit header (lh_start s) (lh_end s) (lh_qstart s) (length header) (lh_out s).
End ListHeader.

(** [x] occurs in [h] as a contiguous piece *)
Definition substr (x h : bytes) : Prop := exists p q, h = p ++ x ++ q.

(** ** Reference grammar for [list_header_wf]: RFC 7231 [#( codings [ weight ] )] with OWS.
    A member is OWS name [ OWS ";" OWS "q=" qvalue ] OWS; members are separated by ",". *)
Record member := mkMember {
  mb_pre : bytes;                              (* OWS before the name *)
  mb_name : bytes;
  mb_weight : option (bytes * bytes * bytes);  (* OWS before ';', OWS after ';', text of the qvalue *)
  mb_post : bytes                              (* OWS after the member *)
}.
Definition weight_text (w : option (bytes * bytes * bytes)) : bytes :=
  match w with
  | Some (w1, w2, qv) => w1 ++ [c_semi] ++ w2 ++ [c_q; c_eq] ++ qv
  | None => []
  end.
Definition member_text (m : member) : bytes := mb_pre m ++ mb_name m ++ weight_text (mb_weight m) ++ mb_post m.
Fixpoint members_text (ms : list member) : bytes :=
  match ms with
  | [] => []
  | [m] => member_text m
  | m :: r => member_text m ++ [c_comma] ++ members_text r
  end.
(** the reference parse: the name, and the value of the weight (1 without weight or when it does not parse) *)
Definition member_ref (parse_q : bytes -> option qclass) (m : member) : bytes * qclass :=
  (mb_name m,
   match mb_weight m with
   | Some (_, _, qv) => match parse_q qv with Some c => c | None => QOne end
   | None => QOne
   end).
(** characters a number may consist of: digits . + - e E and the letters of inf / nan / infinity *)
Definition numberish (c : N) : bool :=
  is_digit c || existsb (N.eqb c) [43; 45; 46; 69; 101; 73; 105; 78; 110; 70; 102; 65; 97; 84; 116; 89; 121].
Definition sep_free (c : N) : bool := negb (is_ows c || (c =? c_comma) || (c =? c_semi)).
(** a name: non-empty, no OWS, ',' or ';', and not made of number characters only (a member without
    weight is given the value of the text in front of it when that text parses as a number) *)
Definition name_ok (s : bytes) : bool :=
  negb (beq s []) && forallb sep_free s && existsb (fun c => negb (numberish c)) s.
Definition qv_ok (s : bytes) : bool := forallb (fun c => negb (is_ows c || (c =? c_comma) || (c =? c_eq))) s.
Definition member_ok (m : member) : bool :=
  forallb is_ows (mb_pre m) && name_ok (mb_name m) && forallb is_ows (mb_post m)
  && match mb_weight m with
     | Some (w1, w2, qv) => forallb is_ows w1 && forallb is_ows w2 && qv_ok qv
     | None => true
     end.

(* ------------------------------------------------------------------------------------ *)
(** * Media types and [do_compress]                                                       *)

(** what [do_compress] reads of a parsed [Mime]: [type_()], [subtype()] (the part before a
    '+'), whether there is a suffix, whether there are parameters (for [== APPLICATION_PDF]);
    both names are lower-case after parsing *)
Record mime := mkMime { m_type : bytes; m_subtype : bytes; m_suffix : bool; m_params : bool }.

Definition is_pdf (m : mime) : bool :=
  beq (m_type m) (B "application") && beq (m_subtype m) (B "pdf") && negb (m_suffix m) && negb (m_params m).

Definition do_compress (m : mime) : bool :=
  let ty := m_type m in
  let st := m_subtype m in
  negb (beq ty (B "image") && negb (beq st (B "svg")))
  && negb (beq ty (B "font"))
  && negb (beq ty (B "video"))
  && negb (beq ty (B "audio"))
  && negb (beq ty (B "*"))
  && negb (is_pdf m)
  && negb (beq st (B "zip"))
  && negb (beq st (B "zstd"))
  && negb (beq ty (B "application")
           && negb (beq st (B "javascript") || beq st (B "graphql") || beq st (B "json")
                    || beq st (B "xml") || beq st (B "wasm") || beq st (B "octet-stream"))).

(* ------------------------------------------------------------------------------------ *)
(** * [CompressedResponse]                                                                *)

Record options := mkOptions { o_pref : pref; o_zstd : N; o_br : N; o_gzip : N }.
Definition level_of (o : options) (a : alg) : N :=
  match a with Zstd => o_zstd o | Br => o_br o | Gzip => o_gzip o end.

(** the identity response (body, content-type header after [check_content_type], the
    content-encoding header the handler set itself, if any), the compress preference after
    the floor, the three memo cells *)
Record cresp := mkCresp {
  cr_body : bytes;
  cr_ctype : option bytes;
  cr_hce : option bytes;
  cr_compress : bool;
  cr_gzip : option bytes;
  cr_br : option bytes;
  cr_zstd : option bytes
}.
Definition cell_get (a : alg) (c : cresp) : option bytes :=
  match a with Gzip => cr_gzip c | Br => cr_br c | Zstd => cr_zstd c end.
Definition cell_set (a : alg) (v : option bytes) (c : cresp) : cresp :=
  match a with
  | Gzip => mkCresp (cr_body c) (cr_ctype c) (cr_hce c) (cr_compress c) v (cr_br c) (cr_zstd c)
  | Br => mkCresp (cr_body c) (cr_ctype c) (cr_hce c) (cr_compress c) (cr_gzip c) v (cr_zstd c)
  | Zstd => mkCresp (cr_body c) (cr_ctype c) (cr_hce c) (cr_compress c) (cr_gzip c) (cr_br c) v
  end.

Definition floor : nat := 50.
(** [CompressedResponse::new]: "It's not worth it. Also covers special case of body.is_empty." *)
Definition cresp_new (body : bytes) (ctype hce : option bytes) (compress : bool) : cresp :=
  mkCresp body ctype hce (if Nat.ltb (length body) floor then false else compress) None None None.

(** what [clone_preferred] hands to its caller *)
Inductive reply :=
| Sent (label : option bytes) (body : bytes) (chosen : coding)   (* Ok(response) *)
| NotAcceptable.                                                 (* Err(message) -> 406 *)

(** [clone_identity_set_compression]: the headers of the identity response are cloned; content-encoding
    is inserted (replacing the handler's own, if any) only for a non-empty body *)
Definition set_compression (hce : option bytes) (new_data : bytes) (compression : coding) : reply :=
  Sent (match new_data with [] => hce | _ => Some (coding_name compression) end) new_data compression.

(** The repairs made to [clone_preferred] (each [false] = kvarn 0.6.3 before that repair, kept for the
    [_refuted] witnesses only):
    [fx_floor]: identity;q=0 is honoured also below the 50-byte floor / for opted-out handlers,
    [fx_star] : "*;q=0" without an identity member refuses identity (RFC 7231 5.3.4),
    [fx_case] : the name "identity" is compared case-insensitively. *)
Record fixes := mkFixes { fx_floor : bool; fx_star : bool; fx_case : bool }.
Definition all_fixed : fixes := mkFixes true true true.
Definition s_star : bytes := B "*".

(** request methods as far as [handle_cache] distinguishes them here *)
Inductive meth := MGet | MHead | MOther.

Section Negotiate.
  Variable parse_q : bytes -> option qclass.
  Variable parse_mime : bytes -> option mime.
  Variable enc : alg -> N -> bytes -> bytes.        (* algorithm, level, identity body *)

  Definition list_header : bytes -> list (bytes * qclass) := list_header_gen parse_q true.

  (** [request.headers().get("accept-encoding").map(HeaderValue::to_str).and_then(Result::ok)] *)
  Definition header_values (ae : option bytes) : list (bytes * qclass) :=
    match ae with
    | Some h => if to_str_ok h then list_header h else []
    | None => []
    end.

  Definition names_identity (fx : fixes) (v : bytes) : bool :=
    beq (if fx_case fx then lower v else v) s_identity.
  Definition disable_identity_gen (fx : fixes) (values : list (bytes * qclass)) : bool :=
    existsb (fun v => names_identity fx (fst v) && q_is_zero (snd v)) values
    || (fx_star fx
        && existsb (fun v => beq (fst v) s_star && q_is_zero (snd v)) values
        && negb (existsb (fun v => names_identity fx (fst v)) values)).
  Definition disable_identity : list (bytes * qclass) -> bool := disable_identity_gen all_fixed.
  Definition only_identity (values : list (bytes * qclass)) : bool :=
    match values with
    | [v] => beq (fst v) s_identity && q_is_one (snd v)
    | _ => false
    end.
  Definition contains (values : list (bytes * qclass)) (name : bytes) : bool :=
    existsb (fun v => beq (fst v) name && negb (q_is_zero (snd v))) values.

  (** the preferred algorithm if the client lists it, else zstd, br, gzip in this order *)
  Definition pick (p : pref) (cz cb cg : bool) : option alg :=
    let p0 := match p with
              | PZstd => if cz then Some Zstd else None
              | PBr => if cb then Some Br else None
              | PGzip => if cg then Some Gzip else None
              | PNone => None
              end in
    let p1 := match p0 with None => if cz then Some Zstd else None | s => s end in
    let p2 := match p1 with None => if cb then Some Br else None | s => s end in
    match p2 with None => if cg then Some Gzip else None | s => s end.

  (** [headers().get("content-type").and_then(|h| h.to_str().ok()).and_then(|h| h.parse().ok())] *)
  Definition ctype_mime (c : cresp) : option mime :=
    match cr_ctype c with Some h => if to_str_ok h then parse_mime h else None | None => None end.

  (** the coding [clone_preferred] settles on once it is past the two early returns *)
  Definition choose (c : cresp) (values : list (bytes * qclass)) (o : options) : coding :=
    match ctype_mime c with
    | Some m =>
        if do_compress m then
          match pick (o_pref o) (contains values (alg_name Zstd)) (contains values (alg_name Br))
                     (contains values (alg_name Gzip)) with
          | Some a => Alg a
          | None => Identity
          end
        else Identity
    | None => Identity
    end.

  (** [get_gzip] / [get_br] / [get_zstd] ([OnceCell::get_or_init]) run by one task at a time:
      the cell's value if it has one; else compute, store, read the cell *)
  Definition get_alg (a : alg) (level : N) (c : cresp) : bytes * cresp :=
    match cell_get a c with
    | Some b => (b, c)
    | None => let b := enc a level (cr_body c) in (b, cell_set a (Some b) c)
    end.

  Definition clone_preferred_gen (fx : fixes) (c : cresp) (ae : option bytes) (o : options) : reply * cresp :=
    let values := header_values ae in
    if negb (cr_compress c) then
      (if fx_floor fx && disable_identity_gen fx values then NotAcceptable
       else set_compression (cr_hce c) (cr_body c) Identity, c)
    else
    if only_identity values then (set_compression (cr_hce c) (cr_body c) Identity, c) else
    match choose c values o with
    | Identity =>
        if disable_identity_gen fx values then (NotAcceptable, c)
        else (set_compression (cr_hce c) (cr_body c) Identity, c)
    | Alg a =>
        let '(b, c') := get_alg a (level_of o a) c in
        (set_compression (cr_hce c) b (Alg a), c')
    end.
  Definition clone_preferred : cresp -> option bytes -> options -> reply * cresp := clone_preferred_gen all_fixed.

  (** specification vocabulary *)
  Definition compressible (c : cresp) : bool :=
    match ctype_mime c with Some m => do_compress m | None => false end.
  (** every filled memo cell holds an output of its encoder on the identity body *)
  Definition cells_ok (c : cresp) : Prop :=
    forall a b, cell_get a c = Some b -> exists level, b = enc a level (cr_body c).

  (** ** One page inside [handle_cache] (no vary rules): what its handler returns, and the requests *)
  Record page := mkPage {
    pg_body : bytes; pg_ctype : option bytes;
    pg_hce : option bytes;                        (* a content-encoding header set by the handler itself *)
    pg_status : N;
    pg_compress : bool;                           (* CompressPreference::Full *)
    pg_cache : bool;                              (* ServerCachePreference::Full (else None) *)
    pg_oneshot : options; pg_cached : options
  }.
  (** [host::default_status_code_cache_filter] *)
  Definition cacheable_status (s : N) : bool :=
    negb (((400 <=? s) && (s <=? 403)) || ((405 <=? s) && (s <=? 409)) || ((411 <=? s) && (s <=? 499))
          || ((100 <=? s) && (s <=? 199)) || (s =? 304)).
  (** the cache is consulted and filled for GET and HEAD only *)
  Definition cache_method (m : meth) : bool := match m with MGet | MHead => true | MOther => false end.
  (** [get_cache(..).is_some()] *)
  Definition admitted (pg : page) (m : meth) : bool := pg_cache pg && cacheable_status (pg_status pg) && cache_method m.

  (** server state = the cached entry of the page, if any *)
  Definition visible (entry : option cresp) (m : meth) : option cresp := if cache_method m then entry else None.
  Definition handle (pg : page) (entry : option cresp) (rq : meth * option bytes) : reply * option cresp :=
    let '(m, ae) := rq in
    match visible entry m with
    | Some c =>
        let '(r, c') := clone_preferred c ae (pg_cached pg) in (r, Some c')
    | None =>
        let c := cresp_new (pg_body pg) (pg_ctype pg) (pg_hce pg) (pg_compress pg) in
        let '(r, c') := clone_preferred c ae (if admitted pg m then pg_cached pg else pg_oneshot pg) in
        (r, if admitted pg m then Some c' else entry)
    end.
  (** the reply was taken from a memo cell that an earlier request had filled *)
  Definition was_memoised (entry : option cresp) (rq : meth * option bytes) (r : reply) : bool :=
    match r, visible entry (fst rq) with
    | Sent _ _ (Alg a), Some c => match cell_get a c with Some _ => true | None => false end
    | _, _ => false
    end.
  Fixpoint handle_all (pg : page) (entry : option cresp) (reqs : list (meth * option bytes))
    : list (reply * bool) * option cresp :=
    match reqs with
    | [] => ([], entry)
    | rq :: rest =>
        let '(r, e) := handle pg entry rq in
        let '(rs, e') := handle_all pg e rest in
        ((r, was_memoised entry rq r) :: rs, e')
    end.
  Definition serve (pg : page) (entry : option cresp) (reqs : list (meth * option bytes)) : list reply :=
    map fst (fst (handle_all pg entry reqs)).
  (** n requests with the same method and header arriving together.  When the page has an entry they all
      work on that entry's memo cells ([memo_invariant]: every interleaving gives what n sequential requests
      give).  When it has none, every one of them misses the cache before any of them has inserted (the
      compressing ones all wait for their encoder first): each is computed afresh, and the entries they
      insert are interchangeable. *)
  Definition handle_group (pg : page) (entry : option cresp) (rq : meth * option bytes) (n : nat)
    : list (reply * bool) * option cresp :=
    match entry, n with
    | None, S (S _) => (repeat (fst (handle pg None rq), false) n, snd (handle pg None rq))
    | _, _ => handle_all pg entry (repeat rq n)
    end.
  Fixpoint serve_groups (pg : page) (entry : option cresp) (groups : list (meth * option bytes * nat))
    : list (list (reply * bool)) :=
    match groups with
    | [] => []
    | (rq, n) :: rest => let '(rs, e) := handle_group pg entry rq n in rs :: serve_groups pg e rest
    end.

  (** ** The property as an executable specification: what one request may be answered with.
      It is stated on the page and the list of (coding, quality) pairs, not on [clone_preferred]. *)
  Record verdict := mkVerdict {
    v_406 : bool;            (* the answer has to be 406 *)
    v_identity : bool;       (* the identity body may be sent *)
    v_algs : list alg        (* codings whose encoding of the identity body may be sent *)
  }.
  Definition all_algs : list alg := [Zstd; Br; Gzip].
  Definition page_ctype_ok (pg : page) : bool :=
    match pg_ctype pg with
    | Some h => if to_str_ok h then match parse_mime h with Some m => do_compress m | None => false end else false
    | None => false
    end.
  (** the server may compress at all: past the floor, handler did not opt out, not an already-compressed media type *)
  Definition may_compress (pg : page) : bool :=
    negb (Nat.ltb (length (pg_body pg)) floor) && pg_compress pg && page_ctype_ok pg.
  Definition spec_verdict (pg : page) (ae : option bytes) : verdict :=
    let values := header_values ae in
    let refused := disable_identity values in
    let algs := if may_compress pg then filter (fun a => contains values (alg_name a)) all_algs else [] in
    mkVerdict (refused && match algs with [] => true | _ => false end) (negb refused) algs.
  Definition alg_in (a : alg) (l : list alg) : bool := existsb (alg_eqb a) l.
  Definition reply_allowed (v : verdict) (r : reply) : bool :=
    match r with
    | NotAcceptable => v_406 v
    | Sent _ _ Identity => negb (v_406 v) && v_identity v
    | Sent _ _ (Alg a) => negb (v_406 v) && alg_in a (v_algs v)
    end.
End Negotiate.

(** status seen by the client: the handler's own or the 406 of [handle_cache] *)
Definition reply_status (status : N) (r : reply) : N := match r with Sent _ _ _ => status | NotAcceptable => 406 end.

(** decoding by label, with decoders [dec]; [None] = a label no decoder exists for *)
Definition decode_label (dec : alg -> bytes -> bytes) (label : option bytes) (b : bytes) : option bytes :=
  match label with
  | None => Some b
  | Some l =>
      if beq l s_identity then Some b
      else if beq l (alg_name Gzip) then Some (dec Gzip b)
      else if beq l (alg_name Br) then Some (dec Br b)
      else if beq l (alg_name Zstd) then Some (dec Zstd b)
      else None
  end.

(* ------------------------------------------------------------------------------------ *)
(** * The memo cell under concurrency: n tasks inside the same [get_x]                    *)

(** [tokio::sync::OnceCell::get_or_init]: a task that finds the cell empty takes the cell's only permit,
    compresses, stores its bytes and gives the permit up for good; a task that finds the permit taken waits
    until the cell is filled.  Program counter of one task; one transition per access of the cell / per await *)
Inductive pc :=
| PStart                      (* before the fast-path check / waiting for the permit *)
| PComputing                  (* holds the permit, inside spawn_blocking(..).await *)
| PComputed (buf : bytes)     (* holds the permit, before the value is stored *)
| PRet                        (* before the reference into the cell is returned *)
| PDone (r : outcome bytes).  (* returned ([Panic] = the cell was empty after all) *)

Record mstate := mkM { m_cell : option bytes; m_lock : bool; m_pcs : list pc }.

Fixpoint set_nth {A} (i : nat) (v : A) (l : list A) : list A :=
  match l, i with
  | [], _ => []
  | _ :: r, O => v :: r
  | x :: r, S j => x :: set_nth j v r
  end.

(** [vals]: what the encoder run of task i produces.  [None]: task i cannot move (it has returned, or it waits
    for the permit) *)
Definition mstep (vals : list bytes) (st : mstate) (i : nat) : option mstate :=
  match nth_error (m_pcs st) i with
  | Some PStart =>
      match m_cell st with
      | Some _ => Some (mkM (m_cell st) (m_lock st) (set_nth i PRet (m_pcs st)))
      | None => if m_lock st then None
                else Some (mkM (m_cell st) true (set_nth i PComputing (m_pcs st)))
      end
  | Some PComputing =>
      Some (mkM (m_cell st) (m_lock st) (set_nth i (PComputed (nth i vals [])) (m_pcs st)))
  | Some (PComputed buf) =>
      Some (mkM (Some buf) false (set_nth i PRet (m_pcs st)))
  | Some PRet =>
      Some (mkM (m_cell st) (m_lock st)
                (set_nth i (PDone (match m_cell st with Some b => Ok b | None => Panic end)) (m_pcs st)))
  | Some (PDone _) => None
  | None => None
  end.

(** a schedule is a list of task indices; a step that cannot be taken is skipped *)
Fixpoint mrun (vals : list bytes) (st : mstate) (sched : list nat) : mstate :=
  match sched with
  | [] => st
  | i :: r => mrun vals (match mstep vals st i with Some st' => st' | None => st end) r
  end.
Definition minit (cell : option bytes) (n : nat) : mstate := mkM cell false (repeat PStart n).
Definition pc_done (p : pc) : bool := match p with PDone _ => true | _ => false end.
(** steps a task still has to take *)
Definition steps_left (p : pc) : nat :=
  match p with PStart => 4 | PComputing => 3 | PComputed _ => 2 | PRet => 1 | PDone _ => 0 end.
Definition total_left (st : mstate) : nat := fold_right (fun p acc => (steps_left p + acc)%nat) O (m_pcs st).

(** ** kvarn 0.6.3: [UnsafeCell<Option<Bytes>>], "check; compress; check; write; read" with nothing that makes
    the second check and the write one step.  On one thread no other task runs between them; on the worker
    threads of a multi-thread runtime another task does.  Kept for [memo_double_write_v0_refuted] only. *)
Inductive pc0 :=
| P0Start | P0Computing | P0Computed (buf : bytes)
| P0Writing (buf : bytes)     (* the second check saw an empty cell *)
| P0Ret | P0Done (r : outcome bytes).
Record mstate0 := mkM0 { m0_cell : option bytes; m0_pcs : list pc0 }.
Definition mstep0 (vals : list bytes) (st : mstate0) (i : nat) : option mstate0 :=
  match nth_error (m0_pcs st) i with
  | Some P0Start =>
      Some (mkM0 (m0_cell st) (set_nth i (match m0_cell st with None => P0Computing | Some _ => P0Ret end) (m0_pcs st)))
  | Some P0Computing => Some (mkM0 (m0_cell st) (set_nth i (P0Computed (nth i vals [])) (m0_pcs st)))
  | Some (P0Computed buf) =>
      Some (mkM0 (m0_cell st) (set_nth i (match m0_cell st with None => P0Writing buf | Some _ => P0Ret end) (m0_pcs st)))
  | Some (P0Writing buf) => Some (mkM0 (Some buf) (set_nth i P0Ret (m0_pcs st)))       (* Option::replace *)
  | Some P0Ret =>
      Some (mkM0 (m0_cell st) (set_nth i (P0Done (match m0_cell st with Some b => Ok b | None => Panic end)) (m0_pcs st)))
  | Some (P0Done _) => None
  | None => None
  end.
Fixpoint mrun0 (vals : list bytes) (st : mstate0) (sched : list nat) : mstate0 :=
  match sched with
  | [] => st
  | i :: r => mrun0 vals (match mstep0 vals st i with Some st' => st' | None => st end) r
  end.
Definition minit0 (n : nat) : mstate0 := mkM0 None (repeat P0Start n).

(* ------------------------------------------------------------------------------------ *)
(** * Executable instances for the correspondence run                                     *)

(** Stand-in for [f32::from_str] (core::num::dec2flt) followed by the tests [== 0.0] / [== 1.0]:
      [+-]? ( "inf" | "infinity" | "nan"            (any case)
            | (digits [ "." digits* ] | "." digits) [ (e|E) [+-]? digits ] )
    with at least one digit in the mantissa and in an exponent.  The decimal value m * 10^(e-k) is
    compared exactly with the binary32 rounding thresholds (the parse is correctly rounded): it is
    0.0 iff |v| <= 2^-150 (half the smallest subnormal; the tie goes to even), 1.0 iff
    1 - 2^-25 <= v <= 1 + 2^-24 (ties to even).  -0.0 == 0.0; inf, nan and negative values are
    neither.  Exponents are compared before anything is raised to them (huge exponents cost nothing). *)
Fixpoint dec_scan (s : bytes) (seen_dot : bool) (m : N) (k : N) (nd : N) (digits : bool)
  : option (N * N * N * bytes) :=                      (* mantissa, digits after '.', significant digits, rest *)
  match s with
  | [] => if digits then Some (m, k, nd, []) else None
  | c :: r =>
      if is_digit c then
        dec_scan r seen_dot (m * 10 + (c - 48)) (if seen_dot then k + 1 else k)
                 (if (nd =? 0) && (c =? 48) then 0 else nd + 1) true
      else if (c =? c_dot) && negb seen_dot then dec_scan r true m k nd digits
      else if digits then Some (m, k, nd, s) else None
  end.
Fixpoint all_digits (s : bytes) (acc : N) : option N :=
  match s with
  | [] => Some acc
  | c :: r => if is_digit c then all_digits r (acc * 10 + (c - 48)) else None
  end.
Definition strip_sign (s : bytes) : bool * bytes :=
  match s with
  | 43 :: r => (false, r)
  | 45 :: r => (true, r)
  | _ => (false, s)
  end.
(** the exponent part: [None] = malformed, [Some (negative, value)] *)
Definition exp_scan (s : bytes) : option (bool * N) :=
  match s with
  | [] => Some (false, 0)
  | c :: r =>
      if (c =? 101) || (c =? 69) then
        let '(neg, d) := strip_sign r in
        match d with
        | [] => None
        | _ => match all_digits d 0 with Some e => Some (neg, e) | None => None end
        end
      else None
  end.
(** class of the non-negative decimal m * 10^e / 10^k, m with nd significant digits *)
Definition classify_dec (m k nd : N) (eneg : bool) (e : N) : qclass :=
  if m =? 0 then QZero else
  let up := (if eneg then 0 else e) in                  (* value = m * 10^up / 10^down *)
  let down := k + (if eneg then e else 0) in
  (* 10^(nd-1+up-down) <= value < 10^(nd+up-down) *)
  if down + 2 <? nd + up then QOther                    (* >= 100 (or overflows to inf) *)
  else if nd + up + 50 <? down then QZero               (* < 10^-50 < 2^-150 *)
  else
    let num := if down <=? up then m * 10 ^ (up - down) else m in
    let den := if down <=? up then 1 else 10 ^ (down - up) in
    if num * 2 ^ 150 <=? den then QZero
    else if ((2 ^ 25 - 1) * den <=? num * 2 ^ 25) && (num * 2 ^ 24 <=? (2 ^ 24 + 1) * den) then QOne
    else QOther.
Definition parse_q_full (s : bytes) : option qclass :=
  let '(neg, t) := strip_sign s in
  let lt := lower t in
  if beq lt (B "inf") || beq lt (B "infinity") || beq lt (B "nan") then Some QOther else
  match dec_scan t false 0 0 0 false with
  | None => None
  | Some (m, k, nd, rest) =>
      match exp_scan rest with
      | None => None
      | Some (eneg, e) =>
          let c := classify_dec m k nd eneg e in
          Some (if neg then match c with QZero => QZero | _ => QOther end else c)
      end
  end.
(** the guard is redundant (every accepted text consists of number characters); it makes the
    side condition of [list_header_wf] evident *)
Definition parse_q_dec (s : bytes) : option qclass :=
  if forallb numberish s then parse_q_full s else None.

(** Stand-in for [Mime::from_str] (mime 0.3.17 parse.rs) on
    [type "/" subtype] optionally followed by [; charset=utf-8] / [;charset=utf-8]:
    token characters, non-empty type, the last '+' that is not the first byte of the subtype
    starts the suffix, names are lower-cased.  Other parameter lists are outside the domain. *)
Definition is_mime_token (c : N) : bool :=
  ((48 <=? c) && (c <=? 57)) || ((65 <=? c) && (c <=? 90)) || ((97 <=? c) && (c <=? 122))
  || existsb (N.eqb c) [33; 35; 36; 37; 38; 39; 42; 43; 45; 46; 94; 95; 96; 124; 126].
Fixpoint split_at_byte (d : N) (s : bytes) : bytes * option bytes :=
  match s with
  | [] => ([], None)
  | c :: r => if c =? d then ([], Some r) else let '(a, z) := split_at_byte d r in (c :: a, z)
  end.
(** index of the last '+' at an index > 0 *)
Fixpoint last_plus (s : bytes) (i : nat) (acc : option nat) : option nat :=
  match s with
  | [] => acc
  | c :: r => last_plus r (S i) (if (c =? 43) && negb (Nat.eqb i 0) then Some i else acc)
  end.
Definition parse_mime_std (s : bytes) : option mime :=
  if beq s (B "*/*") then Some (mkMime (B "*") (B "*") false false) else
  match split_at_byte 47 s with
  | (_, None) => None
  | (ty, Some rest) =>
      if negb (forallb is_mime_token ty) || beq ty [] then None else
      let '(sub, params) := split_at_byte c_semi rest in
      if negb (forallb is_mime_token sub) then None else
      let params_ok :=
        match params with
        | None => Some false
        | Some p => if beq sub [] then None
                    else if beq (lower p) (B " charset=utf-8") || beq (lower p) (B "charset=utf-8") then Some true
                    else None
        end in
      match params_ok with
      | None => None
      | Some has_params =>
          match last_plus sub 0 None with
          | Some i => Some (mkMime (lower ty) (lower (firstn i sub)) true has_params)
          | None => Some (mkMime (lower ty) (lower sub) false has_params)
          end
      end
  end.

(** Stand-in encoders: a one-byte tag in front of the body.  Only used to make the model
    executable; every theorem is about arbitrary [enc]. *)
Definition alg_tag (a : alg) : N := match a with Gzip => 31 | Br => 206 | Zstd => 40 end.
Definition enc_tag (a : alg) (level : N) (b : bytes) : bytes := alg_tag a :: b.
Definition dec_tag (a : alg) (b : bytes) : bytes := tl b.

(** ** xval wrappers *)
Definition x_qclass (q : qclass) : xval := XN (match q with QZero => 0 | QOne => 1 | QOther => 2 end).

(** "neg.list_header": (B header) -> Ok (L (L value qclass) ...) *)
Definition run_list_header (x : xval) : xval :=
  match x with
  | XB h => x_outcome (x_list (x_pair XB x_qclass)) (Ok (list_header_gen parse_q_dec true h))
  | _ => bad_input
  end.

(** "neg.mime": (B content-type) -> (L) | (L (L type subtype suffix? params? do_compress)) *)
Definition run_mime (x : xval) : xval :=
  match x with
  | XB h =>
      x_option (fun m => XL [XB (m_type m); XB (m_subtype m); x_bool (m_suffix m); x_bool (m_params m);
                             x_bool (do_compress m)])
               (if to_str_ok h then parse_mime_std h else None)
  | _ => bad_input
  end.

(** body descriptions: (L (N 0) (B bytes)) literal | (L (N 1) (N byte) (N len)) repeated byte
    | (L (N 2) (N seed) (N len)) bytes of the LCG x' = (1103515245 x + 12345) mod 2^31, byte = x' / 2^16 mod 256
    | (L (N 3) (N seed) (N len) (N d)) that block doubled d <= 8 times, see [xor_double] *)
Definition lcg_next (x : N) : N := (1103515245 * x + 12345) mod 2147483648.
Definition lcg_bytes (seed len : N) : bytes :=
  rev_append (snd (N.iter len (fun st => let x := lcg_next (fst st) in (x, ((x / 65536) mod 256) :: snd st)) (seed, []))) [].
(** big incompressible bodies without per-byte arithmetic: a pseudo-random block, doubled d times, the copy
    xor-ed with 2^i in round i (the 2^d segments are the block under 2^d different masks: no repeated text
    for an LZ matcher, a flat histogram for an entropy coder) *)
Fixpoint xor_double (i : nat) (d : nat) (b : bytes) : bytes :=
  match d with
  | O => b
  | S d' => xor_double (S i) d' (b ++ map (N.lxor (2 ^ N.of_nat i)) b)
  end.
Definition d_body (x : xval) : option bytes :=
  match x with
  | XL [XN 0; XB b] => Some b
  | XL [XN 1; XN c; XN len] => Some (N.iter len (cons c) [])
  | XL [XN 2; XN seed; XN len] => Some (lcg_bytes seed len)
  | XL [XN 3; XN seed; XN len; XN d] => if d <=? 8 then Some (xor_double 0 (N.to_nat d) (lcg_bytes seed len)) else None
  | _ => None
  end.
Definition d_pref (x : xval) : option pref :=
  match x with
  | XN 0 => Some PNone | XN 1 => Some PGzip | XN 2 => Some PBr | XN 3 => Some PZstd | _ => None
  end.

Definition d_meth (x : xval) : option meth :=
  match x with XN 0 => Some MGet | XN 1 => Some MHead | XN 2 => Some MOther | _ => None end.
(** request group: (L (N kind) (L [accept-encoding]) (N method) (N n) (L more ...)): n requests with this method and header
    ("more": further Accept-Encoding field lines after the first; [headers().get] reads the first one only);
    kind 0: one after the other, 1: concurrently, futures joined on one thread, 2: concurrently, tasks spawned
    on a multi-thread runtime (the model does not distinguish 1 and 2) *)
Definition d_req (x : xval) : option (list (meth * option bytes * nat)) :=
  match x with
  | XL [XN k; ae; xm; XN n; XL _] =>
      match d_option d_B ae, d_meth xm with
      | Some a, Some m =>
          if k =? 0 then Some (repeat (m, a, 1%nat) (N.to_nat n))
          else if (k =? 1) || (k =? 2) then Some [(m, a, N.to_nat n)]
          else None
      | _, _ => None
      end
  | _ => None
  end.

(** observation of one reply: status, content-encoding, the body decodes with the decoder of the
    label (an empty body: nothing to decode), the decoded body is the identity body, its length, the
    bytes sent are the identity bytes, the buffer sent is one an earlier reply already carried (the
    memoised one) *)
Definition x_reply (status : N) (identity : bytes) (rm : reply * bool) : xval :=
  match fst rm with
  | NotAcceptable => XL [XN 406]
  | Sent label b _ =>
      let d := match b with [] => Some [] | _ => decode_label dec_tag label b end in
      XL [XN status; x_option XB label;
          x_bool (match d with Some _ => true | None => false end);
          x_bool (match d with Some v => beq v identity | None => false end);
          x_nat (match d with Some v => length v | None => O end);
          x_bool (beq b identity);
          x_bool (snd rm)]
  end.
Definition x_groups (status : N) (identity : bytes) (gs : list (list (reply * bool))) : list xval :=
  map (fun g => XL (map (x_reply status identity) g)) gs.

(** page: (L body (L [content-type]) compress cache pref_oneshot pref_cached (L [content-encoding of the handler])
    (N status) levels); levels = the six compression levels, which only the real encoders look at *)
Definition d_page (x : xval) : option (page * list xval) :=
  match x with
  | XL [xbody; xct; xcompress; xcache; xp1; xp2; xhce; XN status; XL levels] =>
      match d_body xbody, d_option d_B xct, d_bool xcompress, d_bool xcache, d_pref xp1, d_pref xp2, d_option d_B xhce with
      | Some body, Some ct, Some compress, Some cache, Some p1, Some p2, Some hce =>
          Some (mkPage body ct hce status compress cache (mkOptions p1 1 3 1) (mkOptions p2 4 4 2), levels)
      | _, _, _, _, _, _, _ => None
      end
  | _ => None
  end.

(** "neg.pipe": (L page (L req ...)) -> (L (L reply ...) ...) one list per request group *)
Definition run_pipe_neg (x : xval) : xval :=
  match x with
  | XL [xpage; XL xreqs] =>
      match d_page xpage, d_all d_req xreqs with
      | Some (pg, _), Some reqs =>
          XL (x_groups (pg_status pg) (pg_body pg)
                (serve_groups parse_q_dec parse_mime_std enc_tag pg None (concat reqs)))
      | _, _ => bad_input
      end
  | _ => bad_input
  end.

(** "neg.spec": same input -> per request group the verdict of the specification:
    (L (N must-be-406) (N identity-allowed) (L allowed coding names)) *)
Definition x_verdict (v : verdict) : xval :=
  XL [x_bool (v_406 v); x_bool (v_identity v); x_list (fun a => XB (alg_name a)) (v_algs v)].
Definition run_spec_neg (x : xval) : xval :=
  match x with
  | XL [xpage; XL xreqs] =>
      match d_page xpage, d_all d_req xreqs with
      | Some (pg, _), Some reqs =>
          XL (map (fun g => x_verdict (spec_verdict parse_q_dec parse_mime_std pg (snd (fst g)))) (concat reqs))
      | _, _ => bad_input
      end
  | _ => bad_input
  end.

(** "neg.stress": (L (N rounds) (N n) (N body length) (N coding)): rounds times, n tasks on the worker threads of a
    multi-thread runtime ask a cached page with cold memo cells for the same coding -> (L (N anomalies) (N replies)
    (N wrong replies)).  By [memo_invariant] and [memo_write_once] every reply carries the one buffer the cell
    holds: no anomaly, whatever the interleaving. *)
Definition run_stress (x : xval) : xval :=
  match x with
  | XL [XN rounds; XN n; XN _; XN c] => if c <? 3 then XL [XN 0; XN (rounds * n); XN 0] else bad_input
  | _ => bad_input
  end.

(** "neg.stream": (L (L [accept-encoding]) (N announced-length?)) -> (L (N status) (N future kept) (L [content-encoding]) (N body length))
    a response that carries a future (a streaming response: compression is forced off for it) with 18 bytes of body:
    [handle_cache] never exchanges it for a 406 — its future writes the rest of the body.  With an announced length
    [clone_preferred] is not consulted at all; without, a forbidden identity falls back to the identity response as
    the handler made it. *)
Definition run_stream (x : xval) : xval :=
  match x with
  | XL [xae; xw] =>
      match d_option d_B xae, d_bool xw with
      | Some ae, Some w =>
          let refused := disable_identity (header_values parse_q_dec ae) in
          XL [XN 200; XN 1; x_option XB (if w || refused then None else Some s_identity); XN 18]
      | _, _ => bad_input
      end
  | _ => bad_input
  end.

Definition negotiate_table : list (bytes * (xval -> xval)) :=
  [ (B "neg.list_header", run_list_header);
    (B "neg.mime", run_mime);
    (B "neg.pipe", run_pipe_neg);
    (B "neg.spec", run_spec_neg);
    (B "neg.stress", run_stress);
    (B "neg.stream", run_stream) ].
