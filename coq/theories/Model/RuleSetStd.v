(** Rust std algorithms used by [RuleSet::add_mut] (src/extensions.rs), transcribed from the
    library source of the installed toolchain (rustc 1.95; core/src/slice/mod.rs and
    core/src/slice/sort/unstable/mod.rs).  Definitions only. *)
From KV Require Export Bytes.
Open Scope N_scope.

Section Std.
  Context {A : Type}.

  (** [slice::binary_search_by] — the branch-free loop:
      {[ let mut size = self.len(); if size == 0 { return Err(0) } let mut base = 0;
         while size > 1 { let half = size / 2; let mid = base + half;
                          let cmp = f(self[mid]); base = if cmp == Greater { base } else { mid };
                          size -= half; }
         let cmp = f(self[base]);
         if cmp == Equal { Ok(base) } else { Err(base + (cmp == Less) as usize) } ]}
      [inl i] = [Ok(i)], [inr i] = [Err(i)].  [dflt] is never read (indices are in range). *)
  Fixpoint bs_loop (fuel : nat) (f : A -> comparison) (l : list A) (dflt : A) (base size : nat) : nat :=
    match fuel with
    | O => base
    | S fu =>
        if Nat.leb size 1 then base else
        let half := Nat.div2 size in
        let mid := (base + half)%nat in
        let cmp := f (nth mid l dflt) in
        let base' := match cmp with Gt => base | _ => mid end in
        bs_loop fu f l dflt base' (size - half)
    end.

  Definition binary_search_by (f : A -> comparison) (l : list A) : nat + nat :=
    match l with
    | [] => inr O
    | d :: _ =>
        let base := bs_loop (length l) f l d O (length l) in
        match f (nth base l d) with
        | Eq => inl base
        | Lt => inr (S base)
        | Gt => inr base
        end
    end.

  (** [Vec::remove(idx)] for an index in range. *)
  Fixpoint remove_nth (i : nat) (l : list A) : list A :=
    match l, i with
    | [], _ => []
    | _ :: r, O => r
    | x :: r, S j => x :: remove_nth j r
    end.

  (** [sort_unstable_by] for at most 20 elements is [insertion_sort_shift_left(v, 1, is_less)]
      with [is_less a b = (compare a b == Less)]: each element in turn is moved left past every
      element it is strictly less than ([insert_tail]).  The sorted prefix is kept reversed. *)
  Fixpoint insert_tail (cmp : A -> A -> comparison) (rev_prefix : list A) (x : A) : list A :=
    match rev_prefix with
    | [] => [x]
    | y :: r =>
        match cmp x y with
        | Lt => y :: insert_tail cmp r x
        | _ => x :: y :: r
        end
    end.
  Definition insertion_sort_by (cmp : A -> A -> comparison) (l : list A) : list A :=
    rev (fold_left (insert_tail cmp) l []).

  (** [Iterator::position]. *)
  Fixpoint position (p : A -> bool) (l : list A) : option nat :=
    match l with
    | [] => None
    | x :: r => if p x then Some O else option_map S (position p r)
    end.
End Std.
