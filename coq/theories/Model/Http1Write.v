(** C08 — HTTP/1 response framing on persistent connections.

    Transcribes, at statement granularity,
    - [kvarn_async::write::response] (async/src/lib.rs): the head printer;
    - [SendKind::send] (src/lib.rs): no body for 1xx/204/304 -> range application (not for a streamed
      reply) -> [ensure_length] (not for a stream of unknown length; removes [transfer-encoding]) ->
      [ensure_version] -> [resolve_package] -> [ResponsePipe::send_response] (the [connection] header rule,
      head written) -> body written unless the body is empty or the method is HEAD -> the reply's future
      ([stream_body], [with_future]) writes its chunks, unless the method is HEAD;
    - the request loop of [handle_connection] (src/lib.rs) for HTTP/1: host choice (409 + close),
      limiter ([Passed] / [Send] = 429 / [Drop] = close), one response per request, and what happens to
      a request body the handler did not read ([Http1Body::drain], added by the C08 repair; the code
      before the repair is [drain = false]), and the close after a streamed reply of unknown length;
    and defines the specification side: a strict response-stream parser [parse_responses] that consumes a
    concatenation of responses exactly, reading bodies by [content-length].
    Definitions only; proofs are in Proofs/Http1WriteProofs.v. *)
From KV Require Export Bytes RustInt Range CacheControl Cache Fixture.
Open Scope N_scope.

(** ------------------------------------------------------------------------------------------
    A. the wire format
    ------------------------------------------------------------------------------------------ *)
Definition crlf : bytes := [13; 10].
Definition is_nl (c : N) : bool := (c =? 13) || (c =? 10).
Definition no_nl (s : bytes) : bool := forallb (fun c => negb (is_nl c)) s.

(** [http::StatusCode::canonical_reason] (http 1.5.0, src/status.rs) *)
Definition reason_table : list (N * bytes) :=
  [ (100, B "Continue"); (101, B "Switching Protocols"); (102, B "Processing"); (103, B "Early Hints");
    (200, B "OK"); (201, B "Created"); (202, B "Accepted"); (203, B "Non Authoritative Information");
    (204, B "No Content"); (205, B "Reset Content"); (206, B "Partial Content"); (207, B "Multi-Status");
    (208, B "Already Reported"); (226, B "IM Used");
    (300, B "Multiple Choices"); (301, B "Moved Permanently"); (302, B "Found"); (303, B "See Other");
    (304, B "Not Modified"); (305, B "Use Proxy"); (307, B "Temporary Redirect"); (308, B "Permanent Redirect");
    (400, B "Bad Request"); (401, B "Unauthorized"); (402, B "Payment Required"); (403, B "Forbidden");
    (404, B "Not Found"); (405, B "Method Not Allowed"); (406, B "Not Acceptable");
    (407, B "Proxy Authentication Required"); (408, B "Request Timeout"); (409, B "Conflict"); (410, B "Gone");
    (411, B "Length Required"); (412, B "Precondition Failed"); (413, B "Payload Too Large");
    (414, B "URI Too Long"); (415, B "Unsupported Media Type"); (416, B "Range Not Satisfiable");
    (417, B "Expectation Failed"); (418, B "I'm a teapot"); (421, B "Misdirected Request");
    (422, B "Unprocessable Entity"); (423, B "Locked"); (424, B "Failed Dependency"); (425, B "Too Early");
    (426, B "Upgrade Required"); (428, B "Precondition Required"); (429, B "Too Many Requests");
    (431, B "Request Header Fields Too Large"); (451, B "Unavailable For Legal Reasons");
    (500, B "Internal Server Error"); (501, B "Not Implemented"); (502, B "Bad Gateway");
    (503, B "Service Unavailable"); (504, B "Gateway Timeout"); (505, B "HTTP Version Not Supported");
    (506, B "Variant Also Negotiates"); (507, B "Insufficient Storage"); (508, B "Loop Detected");
    (510, B "Not Extended"); (511, B "Network Authentication Required") ].
Fixpoint lookup_reason (st : N) (t : list (N * bytes)) : bytes :=
  match t with
  | [] => []                                   (* [.unwrap_or("")] *)
  | (k, v) :: r => if k =? st then v else lookup_reason st r
  end.
Definition reason (st : N) : bytes := lookup_reason st reason_table.

(** [write::version]; versions are coded 9 / 10 / 11 / 20 / 30 *)
Definition version_text (v : N) : bytes :=
  if v =? 9 then B "HTTP/0.9" else if v =? 10 then B "HTTP/1.0"
  else if v =? 20 then B "HTTP/2" else if v =? 30 then B "HTTP/3" else B "HTTP/1.1".

(** [StatusCode::as_str]: the three digits of a code in 100..=999 *)
Definition status_text (st : N) : bytes := [48 + st / 100; 48 + (st / 10) mod 10; 48 + st mod 10].

Record head := mkHead { hd_version : N; hd_status : N; hd_headers : list (bytes * bytes) }.

Definition print_header (h : bytes * bytes) : bytes := fst h ++ [58; 32] ++ snd h ++ crlf.
Definition print_headers (hs : list (bytes * bytes)) : bytes := concat (map print_header hs).
(** [write::response(&response, b"", writer)] *)
Definition print_head (h : head) : bytes :=
  version_text (hd_version h) ++ [32] ++ status_text (hd_status h) ++ [32] ++ reason (hd_status h) ++ crlf
  ++ print_headers (hd_headers h) ++ crlf.
Definition print_response (h : head) (body : bytes) : bytes := print_head h ++ body.

(** ------------------------------------------------------------------------------------------
    B. the strict client: a response-stream parser
    ------------------------------------------------------------------------------------------ *)
Record presp := mkP { p_version : N; p_status : N; p_reason : bytes; p_headers : list (bytes * bytes); p_body : bytes }.

(** the text before the first CRLF, and what follows it *)
Fixpoint split_crlf (s : bytes) : option (bytes * bytes) :=
  match s with
  | [] => None
  | c :: r =>
      if (c =? 13) && (match r with d :: _ => d =? 10 | [] => false end) then Some ([], tl r)
      else match split_crlf r with Some (l, rest) => Some (c :: l, rest) | None => None end
  end.

Definition take_prefix (p s : bytes) : option bytes :=
  if starts_with p s then Some (skipn (length p) s) else None.

(** [HTTP/1.1 ] or [HTTP/1.0 ], three digits making a code >= 100, SP, reason (no CR/LF) *)
Definition parse_status_line (l : bytes) : option (N * N * bytes) :=
  if negb (no_nl l) then None else
  let vr := match take_prefix (B "HTTP/1.1 ") l with
            | Some r => Some (11, r)
            | None => match take_prefix (B "HTTP/1.0 ") l with Some r => Some (10, r) | None => None end
            end in
  match vr with
  | Some (v, d1 :: d2 :: d3 :: sp :: rs) =>
      if is_digit d1 && is_digit d2 && is_digit d3 && (sp =? 32) then
        let st := (d1 - 48) * 100 + (d2 - 48) * 10 + (d3 - 48) in
        if 100 <=? st then Some (v, st, rs) else None
      else None
  | _ => None
  end.

(** RFC 9110 [tchar] *)
Definition is_alpha (c : N) : bool := ((65 <=? c) && (c <=? 90)) || ((97 <=? c) && (c <=? 122)).
Definition is_tchar (c : N) : bool :=
  is_alpha c || is_digit c || mem_byte c (B "!#$%&'*+-.^_`|~").
Definition name_ok (n : bytes) : bool := negb (match n with [] => true | _ => false end) && forallb is_tchar n.
(** [http::HeaderValue]: bytes >= 32 except DEL, or TAB *)
Definition value_byte (c : N) : bool := (c =? 9) || ((32 <=? c) && negb (c =? 127)).
Definition value_ok (v : bytes) : bool := forallb value_byte v.
Definition hdr_ok (h : bytes * bytes) : bool := name_ok (fst h) && value_ok (snd h).

Fixpoint split_colon (s : bytes) : option (bytes * bytes) :=
  match s with
  | [] => None
  | c :: r => if c =? 58 then Some ([], r)
              else match split_colon r with Some (n, v) => Some (c :: n, v) | None => None end
  end.

(** [name ":" SP value] *)
Definition parse_header_line (l : bytes) : option (bytes * bytes) :=
  match split_colon l with
  | Some (n, sp :: v) => if (sp =? 32) && name_ok n && value_ok v then Some (n, v) else None
  | _ => None
  end.

(** header lines up to the empty line; [fuel] bounds the number of lines *)
Fixpoint parse_header_block (fuel : nat) (s : bytes) : option (list (bytes * bytes) * bytes) :=
  match fuel with
  | O => None
  | S f =>
      match split_crlf s with
      | None => None
      | Some ([], rest) => Some ([], rest)
      | Some (l, rest) =>
          match parse_header_line l with
          | None => None
          | Some h => match parse_header_block f rest with
                      | Some (hs, rest') => Some (h :: hs, rest')
                      | None => None
                      end
          end
      end
  end.

Definition is_name (n : bytes) (h : bytes * bytes) : bool := beq (lower (fst h)) n.
Definition s_content_length := B "content-length".
Definition s_transfer_encoding := B "transfer-encoding".
Definition s_connection := B "connection".

(** a decimal number and nothing else (no sign, no spaces) *)
Definition parse_length (v : bytes) : option N :=
  match v with [] => None | _ => if all_digits v then Some (digits_value 0 v) else None end.

(** the announced length: exactly one [content-length] header, a strict number *)
Definition announced (hs : list (bytes * bytes)) : option N :=
  match filter (is_name s_content_length) hs with
  | [h] => parse_length (snd h)
  | _ => None
  end.
(** responses without a body whatever they announce: 1xx, 204, 304 (and every answer to HEAD) *)
Definition bodyless_status (st : N) : bool := ((100 <=? st) && (st <? 200)) || (st =? 204) || (st =? 304).
(** what [content-length] may look like on a bodyless response: absent, or one strict number *)
Definition announced_ok_bodyless (hs : list (bytes * bytes)) : bool :=
  match filter (is_name s_content_length) hs with
  | [] => true
  | [h] => match parse_length (snd h) with Some _ => true | None => false end
  | _ => false
  end.

Definition is_head_method (m : N) : bool := m =? M_HEAD.

(** one response to a request of method [m] from the front of [s] *)
Definition parse_one (m : N) (s : bytes) : option (presp * bytes) :=
  match split_crlf s with
  | None => None
  | Some (line, r1) =>
      match parse_status_line line with
      | None => None
      | Some (v, st, rs) =>
          match parse_header_block (S (length r1)) r1 with
          | None => None
          | Some (hs, r2) =>
              if existsb (is_name s_transfer_encoding) hs then None else
              if is_head_method m || bodyless_status st then
                if announced_ok_bodyless hs then Some (mkP v st rs hs [], r2) else None
              else
                match announced hs with
                | None => None
                | Some n =>
                    if N.of_nat (length r2) <? n then None
                    else Some (mkP v st rs hs (firstn (N.to_nat n) r2), skipn (N.to_nat n) r2)
                end
          end
      end
  end.

(** the whole stream: exactly one response per request method, nothing left over *)
Fixpoint parse_responses (ms : list N) (s : bytes) : option (list presp) :=
  match ms with
  | [] => match s with [] => Some [] | _ => None end
  | m :: ms' =>
      match parse_one m s with
      | None => None
      | Some (r, rest) => match parse_responses ms' rest with Some rs => Some (r :: rs) | None => None end
      end
  end.

(** the last response of a connection the server closes (RFC 9112 6.3): it may announce no length, its
    body then is everything up to the end of the stream *)
Definition parse_last (m : N) (s : bytes) : option presp :=
  match split_crlf s with
  | None => None
  | Some (line, r1) =>
      match parse_status_line line with
      | None => None
      | Some (v, st, rs) =>
          match parse_header_block (S (length r1)) r1 with
          | None => None
          | Some (hs, r2) =>
              if existsb (is_name s_transfer_encoding) hs then None else
              if is_head_method m || bodyless_status st then
                if announced_ok_bodyless hs then match r2 with [] => Some (mkP v st rs hs []) | _ => None end
                else None
              else
                match filter (is_name s_content_length) hs with
                | [] => Some (mkP v st rs hs r2)
                | _ => match announced hs with
                       | Some n => if N.of_nat (length r2) =? n then Some (mkP v st rs hs r2) else None
                       | None => None
                       end
                end
          end
      end
  end.
(** responses framed by their lengths, then the last one, after which the stream ends *)
Fixpoint parse_closing (ms : list N) (s : bytes) : option (list presp) :=
  match ms with
  | [] => None
  | [m] => match parse_last m s with Some r => Some [r] | None => None end
  | m :: ms' =>
      match parse_one m s with
      | None => None
      | Some (r, rest) => match parse_closing ms' rest with Some rs => Some (r :: rs) | None => None end
      end
  end.

(** ------------------------------------------------------------------------------------------
    C. the send path
    ------------------------------------------------------------------------------------------ *)
(** [HeaderMap::insert]: replaces every value of the name (keeping the place of the first), or appends *)
Fixpoint hm_remove (n : bytes) (hs : list (bytes * bytes)) : list (bytes * bytes) :=
  match hs with
  | [] => []
  | h :: r => if beq (fst h) n then hm_remove n r else h :: hm_remove n r
  end.
Fixpoint hm_insert (n v : bytes) (hs : list (bytes * bytes)) : list (bytes * bytes) :=
  match hs with
  | [] => [(n, v)]
  | h :: r => if beq (fst h) n then (n, v) :: hm_remove n r else h :: hm_insert n v r
  end.

(** what [handle_cache] returns ([CacheReply]).  [r0_future]: the reply streams (part of) its body
    ([FatResponse::with_future] / [with_future_and_len], e.g. [extensions::stream_body]): the length it
    announces, if any, and the chunks its future hands to [ResponseBodyPipe::send] *)
Record reply0 := mkR0 {
  r0_version : N; r0_status : N; r0_headers : list (bytes * bytes); r0_body : bytes;
  r0_sanitize : option (option (N * N));       (* [sanitize_data]: None = Err, Some range = Ok *)
  r0_future : option (option N * list bytes) }.

Record sent := mkSent { st_head : head; st_body : bytes }.    (* head written, body bytes written after it *)
Definition wire (s : sent) : bytes := print_response (st_head s) (st_body s).
Definition observable (s : sent) : presp :=
  mkP (hd_version (st_head s)) (hd_status (st_head s)) (reason (hd_status (st_head s)))
      (hd_headers (st_head s)) (st_body s).

(** [utils::method_has_response_body] on the method codes of Model/Cache.v ([M_OTHER] stands for PUT) *)
Definition method_has_response_body (m : N) : bool := (m =? M_GET) || (m =? M_POST) || (m =? M_OPTIONS).

Definition s_keep_alive := B "keep-alive".
(** [HeaderMap::contains_key]; the names of a [HeaderMap] are lower-case, the comparison here ignores case *)
Definition has_header (n : bytes) (hs : list (bytes * bytes)) : bool := existsb (is_name n) hs.
(** nothing in the head tells where the body ends: the end of the connection has to *)
Definition close_delimited_head (st : N) (hs : list (bytes * bytes)) : bool :=
  negb (has_header s_content_length hs || has_header s_transfer_encoding hs || bodyless_status st).
(** [ResponsePipe::send_response], HTTP/1 arm: a head without a length -> [close]; else
    [connection] absent, unreadable or [close] -> [keep-alive] *)
Definition connection_rule (st : N) (hs : list (bytes * bytes)) : list (bytes * bytes) :=
  if close_delimited_head st hs then hm_insert s_connection (B "close") hs else
  match assoc s_connection hs with
  | Some v => if to_str_ok v && negb (beq v (B "close")) then hs else hm_insert s_connection s_keep_alive hs
  | None => hm_insert s_connection s_keep_alive hs
  end.
(** [ResponsePipe::ensure_length], HTTP/1 arm: [set_content_length], and no [transfer-encoding] beside it
    ([HeaderMap::remove] moves the last entry into the freed place; here the order is kept: no theorem and
    no comparison depends on the order of headers of different names) *)
Definition ensure_length (len : N) (hs : list (bytes * bytes)) : list (bytes * bytes) :=
  hm_remove s_transfer_encoding (hm_insert s_content_length (dec len) hs).
(** [ResponsePipe::ensure_version], HTTP/1 arm *)
Definition ensure_version (v : N) : N := if (v =? 9) || (v =? 10) || (v =? 11) then v else 11.
(** the condition under which [SendKind::send] writes the body *)
Definition body_written (m : N) (body : bytes) : bytes :=
  let nonempty := negb (match body with [] => true | _ => false end) in
  if nonempty && (method_has_response_body m || (nonempty && negb (m =? M_HEAD))) then body else [].

Section Send.
  (** [utils::hardcoded_error_body code message] / [<host>/errors/<code>.html] *)
  Variable error_body : N -> option bytes -> bytes.
  (** [Extensions::resolve_package] for this request: the operator's Package extensions *)
  Variable package : head -> head.

  (** [error::default(code, host, message)] *)
  Definition default_error (code : N) (msg : option bytes) : reply0 :=
    mkR0 11 code
         ([(B "content-type", B "text/html; charset=utf-8"); (B "content-encoding", B "identity")]
          ++ match msg with Some m => if value_ok m then [(B "reason", m)] else [] | None => [] end)
         (error_body code msg) None None.

  (** [CriticalRequestComponents::apply_to_response] (not a stream; not for a 304, which is sent as it is —
      C09's repair 9ae9b1a) and the 416 replacement.  Since 21f0154 the replacing page also gets the [vary]
      header of the host's rules for the request ([vary::apply_header_from_settings]); like [cache-control],
      [content-type] and the [vary] of the other answers it is not among the headers this model carries (it has
      no part in the framing and is not compared) *)
  Definition apply_sanitize (r : reply0) : outcome reply0 :=
    match r0_sanitize r with
    | None => Ok r
    | Some rg =>
        if r0_status r =? 304 then Ok r else
        match apply_range true rg (r0_status r) (r0_body r) with
        | Ok x =>
            let hs1 := match r_content_range x with
                       | Some cr => hm_insert (B "content-range") cr (r0_headers r)
                       | None => r0_headers r
                       end in
            let hs2 := if r_accept_ranges x then hm_insert (B "accept-ranges") (B "bytes") hs1 else hs1 in
            Ok (mkR0 (r0_version r) (r_status x) hs2 (r_body x) (r0_sanitize r) (r0_future r))
        | Err _ => Ok (default_error 416 (Some (B "Range start after end of body")))
        | Panic => Panic
        end
    end.

  (** a 1xx / 204 / 304 reply ends with its head: a body set by an extension is dropped *)
  Definition clear_bodyless (r : reply0) : reply0 :=
    if bodyless_status (r0_status r)
    then mkR0 (r0_version r) (r0_status r) (r0_headers r) [] (r0_sanitize r) (r0_future r) else r.
  (** what the reply's future writes ([ResponseBodyPipe::send] skips an empty chunk) *)
  Definition stream_bytes (r : reply0) : bytes :=
    match r0_future r with Some (_, chunks) => concat chunks | None => [] end.

  (** [SendKind::Send(pipe).send(response, request, host, address)] for a request of method [m] *)
  Definition send (m : N) (r : reply0) : outcome sent :=
    let r0 := clear_bodyless r in
    (* [apply_to_response(.., is_stream)] does nothing for a streamed reply *)
    obind (match r0_future r0 with Some _ => Ok r0 | None => apply_sanitize r0 end) (fun r1 =>
      let body := r0_body r1 in
      let hs2 := match r0_future r1 with                                                         (* ensure_length *)
                 | Some (None, _) => r0_headers r1
                 | Some (Some len, _) => ensure_length len (r0_headers r1)
                 | None => ensure_length (N.of_nat (length body)) (r0_headers r1)
                 end in
      let v3 := ensure_version (r0_version r1) in                                                (* ensure_version *)
      let h4 := package (mkHead v3 (r0_status r1) hs2) in                                        (* resolve_package *)
      let h5 := mkHead (hd_version h4) (hd_status h4)
                       (connection_rule (hd_status h4) (hd_headers h4)) in                       (* send_response *)
      (* the future is not run for HEAD (unless the head switches protocols) *)
      let streamed := if (m =? M_HEAD) && negb (hd_status h4 =? 101) then [] else stream_bytes r1 in
      Ok (mkSent h5 (body_written m body ++ streamed))).

  (** the same before the repairs d63bba7 (the future ran for HEAD too), 7334433 (a stream of unknown
      length went out as keep-alive), 89e2956 (a body after 1xx/204/304) and 3c296af (transfer-encoding
      beside content-length): only the refutation witnesses use it *)
  Definition send_v0 (m : N) (r : reply0) : outcome sent :=
    obind (match r0_future r with Some _ => Ok r | None => apply_sanitize r end) (fun r1 =>
      let body := r0_body r1 in
      let hs2 := match r0_future r1 with
                 | Some (None, _) => r0_headers r1
                 | Some (Some len, _) => hm_insert s_content_length (dec len) (r0_headers r1)
                 | None => hm_insert s_content_length (dec (N.of_nat (length body))) (r0_headers r1)
                 end in
      let v3 := ensure_version (r0_version r1) in
      let h4 := package (mkHead v3 (r0_status r1) hs2) in
      let hs5 := match assoc s_connection (hd_headers h4) with
                 | Some v => if to_str_ok v && negb (beq v (B "close")) then hd_headers h4
                             else hm_insert s_connection s_keep_alive (hd_headers h4)
                 | None => hm_insert s_connection s_keep_alive (hd_headers h4)
                 end in
      Ok (mkSent (mkHead (hd_version h4) (hd_status h4) hs5) (body_written m body ++ stream_bytes r1))).

  (** the rate-limit answer of [handle_connection] ([LimitAction::Send]): [get_too_many_requests],
      ensure_length, ensure_version, send_response, body.  [head_rule = false] is the code before the C08
      repair, which wrote the body also for HEAD. *)
  Variable too_many_body : bytes.
  Definition limited (head_rule : bool) (m : N) : sent :=
    let hs := [(B "content-type", B "text/html; charset=utf-8");
               (s_content_length, dec (N.of_nat (length too_many_body)));
               (B "content-encoding", B "identity")] in
    let hs1 := ensure_length (N.of_nat (length too_many_body)) hs in
    mkSent (mkHead 11 429 (connection_rule 429 hs1))
           (if head_rule && (m =? M_HEAD) then [] else too_many_body).

  (** the answer to a request for a host that does not exist: 409, then the connection is closed *)
  Definition no_host (head_rule : bool) (m : N) : sent :=
    let r := default_error 409 (Some (B "The host you're looking for wasn't found.")) in
    let hs1 := ensure_length (N.of_nat (length (r0_body r))) (r0_headers r) in
    mkSent (mkHead 11 409 (connection_rule 409 hs1))
           (if head_rule && (m =? M_HEAD) then [] else r0_body r).
End Send.

(** ------------------------------------------------------------------------------------------
    D. the connection: [handle_connection]'s request loop for HTTP/1
    ------------------------------------------------------------------------------------------ *)
Inductive action := APassed | ASend | ADrop.           (* [LimitAction] *)
Inductive cstate :=
| Open (leftover : bytes)      (* usable; [leftover] = bytes of an earlier body still unread on the connection *)
| Closed                       (* the server closed the connection *)
| Unmodelled.                  (* the client did something this model does not describe (see [conn_step]) *)

(** [utils::get_body_length_request] *)
Definition no_request_body (m : N) : bool := (m =? M_GET) || (m =? M_HEAD) || (m =? M_OPTIONS).
Definition body_length (m : N) (cl : option bytes) : N :=
  if no_request_body m then 0 else
  match cl with
  | Some v => if to_str_ok v then match parse_u64 v with Some n => n | None => 0 end else 0
  | None => 0
  end.

(** [handle_connection]'s [close_delimited]: the reply streams a body of unknown length and does not frame it
    itself with a [transfer-encoding] or a [content-length] of its own; the connection is closed after it *)
Definition unframed (r : reply0) : bool :=
  match r0_future r with
  | Some (None, _) => negb (has_header s_transfer_encoding (r0_headers r))
                      && negb (has_header s_content_length (r0_headers r))
  | _ => false
  end.

(** the last clause of [utils::valid_method] (2dbf4ed): the first space is among the first eight bytes and what
    precedes it is a method token ([Method::from_bytes(..).is_ok()]: not empty, token bytes) *)
Fixpoint ext_method (fuel : nat) (seen : bool) (b : bytes) {struct b} : bool :=
  match b with
  | [] => false
  | c :: r =>
      if c =? 32 then seen
      else match fuel with O => false | S f => is_tchar c && ext_method f true r end
  end.
(** [utils::valid_method] || [utils::valid_version] on the first bytes of a head *)
Definition valid_start (s : bytes) : bool :=
  existsb (fun p => starts_with p s)
    [B "GET"; B "HEAD"; B "POST"; B "PUT"; B "DELETE"; B "TRACE"; B "OPTIONS"; B "CONNECT"; B "PATCH";
     B "COPY"; B "LOCK"; B "MKCOL"; B "MOVE"; B "PROPFIND"; B "PROPPATCH"; B "UNLOCK";
     B "HTTP/0.9"; B "HTTP/1.0"; B "HTTP/1.1"; B "HTTP/2"; B "HTTP/3"]
  || ext_method 7 false s.

Section Conn.
  Variable Q : Type.                                   (* a parsed request head *)
  Variable A : Type.                                   (* application state: caches, handler state *)
  Variable q_method : Q -> N.
  Variable q_content_length : Q -> option bytes.       (* value of the request's content-length header *)
  Variable q_known_host : Q -> bool.                   (* [get_from_request] finds a host *)
  Variable q_head : Q -> bytes.                        (* the head as the client wrote it (only [drain = false] looks at it) *)
  (** [handle_cache] + the handler's use of the request body: [Some l] = it calls [read_to_bytes(l)] *)
  Variable app : A -> Q -> A * reply0 * option N.
  Variable error_body : N -> option bytes -> bytes.
  Variable package : Q -> head -> head.
  Variable too_many_body : bytes.
  (** [drain]: the repaired code discards the unread rest of the declared body after the response;
      [head_rule]: the repaired code writes no body for HEAD on the 429 / 409 paths *)
  Variable drain : bool.
  Variable head_rule : bool.

  Record hreq := mkHreq {
    h_q : Q;
    h_body : bytes;            (* the bytes the client sends after the head, before it waits for the response *)
    h_early : nat;             (* how many of them arrive in the same read as the head *)
    h_action : action }.       (* the limiter's verdict for this request *)

  (** what is left for the connection after the response to [h] was written; [consumed] = body bytes the
      handler took ([read_to_bytes(l)] takes [min cl l]: first the early bytes, then the connection) *)
  Definition after_body (h : hreq) (lim : option N) : cstate :=
    let cl := body_length (q_method (h_q h)) (q_content_length (h_q h)) in
    let total := N.of_nat (length (h_body h)) in
    let early := N.min (N.of_nat (h_early h)) total in
    if cl <? early then Unmodelled else                   (* bytes beyond the declared body came with the head *)
    let want := match lim with Some l => N.min cl l | None => 0 end in
    let from_wire := want - N.min want early in
    let late := total - early in
    if late <? from_wire then Unmodelled else             (* the handler waits for bytes that never come *)
    let rest := late - from_wire in                       (* sent, and not taken by the handler *)
    let wire_left := (cl - early) - from_wire in          (* declared, and not taken by anybody *)
    if drain then
      if rest =? wire_left then Open []
      else if rest <? wire_left then Closed               (* end of stream / timeout while draining *)
      else Unmodelled                                     (* more than declared was sent *)
    else
      Open (skipn (N.to_nat (early + from_wire)) (h_body h)).

  (** one iteration of [while let Ok(..) = http.accept(..)]: the bytes written and the next state *)
  Definition conn_step (a : A) (lo : bytes) (h : hreq) : A * option sent * cstate :=
    let q := h_q h in
    let m := q_method q in
    match lo with
    | _ :: _ =>
        (* the unread body bytes are the start of what [read::request] sees *)
        if valid_start (lo ++ q_head q) then (a, None, Unmodelled) else (a, None, Closed)
    | [] =>
        if negb (q_known_host q) then (a, Some (no_host error_body head_rule m), Closed) else
        match h_action h with
        | ADrop => (a, None, Closed)
        | ASend => (a, Some (limited too_many_body head_rule m), after_body h None)
        | APassed =>
            let '(a', r, lim) := app a q in
            match send error_body (package q) m r with
            | Ok s => (a', Some s,
                       match after_body h lim with
                       | Unmodelled => Unmodelled
                       | st => if unframed r then Closed else st    (* [reusable = drain ok && !close_delimited] *)
                       end)
            | _ => (a', None, Closed)                      (* the connection task panicked *)
            end
        end
    end.

  Fixpoint conn_run (a : A) (st : cstate) (hs : list hreq) : list (option sent) * cstate :=
    match hs with
    | [] => ([], st)
    | h :: rest =>
        match st with
        | Open lo =>
            let '(a', o, st') := conn_step a lo h in
            let '(os, fin) := conn_run a' st' rest in (o :: os, fin)
        | _ => let '(os, fin) := conn_run a st rest in (None :: os, fin)    (* nothing is read any more *)
        end
    end.

  (** everything the server wrote, in order *)
  Definition written (os : list (option sent)) : bytes :=
    concat (map (fun o => match o with Some s => wire s | None => [] end) os).

  (** the specification's view: the answers in request order, threading only the application state *)
  Fixpoint serve_seq (a : A) (hs : list hreq) : list (outcome sent) :=
    match hs with
    | [] => []
    | h :: rest =>
        match h_action h with
        | ASend => Ok (limited too_many_body head_rule (q_method (h_q h))) :: serve_seq a rest
        | _ => let '(a', r, _) := app a (h_q h) in
               send error_body (package (h_q h)) (q_method (h_q h)) r :: serve_seq a' rest
        end
    end.
End Conn.

(** ------------------------------------------------------------------------------------------
    E. the executable instance: the fixture host of harness/src/c08.rs
    ------------------------------------------------------------------------------------------ *)
(** [utils::hardcoded_error_body] *)
Definition hardcoded_error_body (code : N) (msg : option bytes) : bytes :=
  let print_home := negb ((code =? 409) || (code =? 405) || (code =? 429)) in
  let title := status_text code ++ [32] ++ reason code in
  B "<!DOCTYPE html><html><head><meta name='color-scheme' content='dark light'><title>" ++ title
  ++ B "</title></head><body><center><h1>" ++ title ++ B "</h1><hr>"
  ++ (if print_home then B "An unexpected error occurred. <a href='/'>Return home</a>?" else [])
  ++ match msg with Some m => B "<p>" ++ m ++ B "</p>" | None => [] end
  ++ B "</center></body></html>".
(** [limiting::get_too_many_requests] *)
Definition TOO_MANY : bytes :=
  B "<html><head><title>429 Too Many Requests</title></head><body><center><h1>429 Too Many Requests</h1><hr><p>You have requested resources from this server too many times. <i>Please Enhance Your Calm.</i></p><p>Try to access this page again in a minute. If this error persists, please contact the website administrator.</p></center></body></html>".

(** [error::default_response] below the cache, with the real body *)
Definition err_fat (code : N) (msg : option bytes) (spref : N) : fat :=
  {| f_status := code;
     f_headers := with_client_cache 3
       ([(B "content-type", B "text/html; charset=utf-8"); (B "content-encoding", B "identity")]
        ++ match msg with Some m => [(B "reason", m)] | None => [] end);
     f_body := hardcoded_error_body code msg; f_spref := spref; f_compress := true |}.

Record c8cfg := mkC8 {
  c8_base : config;                          (* Model/Fixture.v: cache, default_ext, ims, handlers, ... *)
  c8_files : list (bytes * bytes);           (* path under public/ (with the leading '/'), content *)
  c8_readers : list (bytes * N);             (* handler paths that call read_to_bytes(limit) *)
  c8_limit : N;                              (* limiter max_requests; 0 = disabled *)
  (* handler paths whose reply carries a future: kind 0 = [extensions::stream_body] (the file of that path),
     1 = [with_future] (no length), 2 = [with_future_and_len announced], 3 = [with_future] and a
     [content-length: announced] header of the handler's own; the chunks the future writes *)
  c8_streams : list (bytes * (N * N * list bytes)) }.

(** [handle_request] below the handlers: GET/HEAD read the file (404 if there is none), every other method gets 405 *)
Definition file_fat (content : bytes) : fat :=
  {| f_status := 200; f_headers := with_client_cache 3 []; f_body := content; f_spref := SP_FULL; f_compress := true |}.
Fixpoint assocS (k : bytes) (l : list (bytes * (N * N * list bytes))) : option (N * N * list bytes) :=
  match l with
  | [] => None
  | (k', v) :: r => if beq k k' then Some v else assocS k r
  end.
(** the head a streaming handler returns (its body is empty; nothing of it is stored in the response cache) *)
Definition stream_fat (st : N) (hs : list (bytes * bytes)) : fat :=
  {| f_status := st; f_headers := hs; f_body := []; f_spref := SP_NONE; f_compress := false |}.
(** the range [extensions::stream_body] looks at: [sanitize_request(req).ok().and_then(get_range)] *)
Definition stream_body_range (r : request) : option (N * N) :=
  match sanitize_range (header (B "range") r) with Ok (Some x) => Some x | _ => None end.
(** [extensions::stream_body] answers 416 ([default_error_response], no future): a range whose start is not
    inside the file (d675f8a) *)
Definition stream_body_416 (content : bytes) (r : request) : bool :=
  match stream_body_range r with Some (s, _) => N.of_nat (length content) <=? s | None => false end.
(** [extensions::stream_body], the head of its streamed answer (d675f8a): a request with a range gets 206 and
    [content-range: bytes start-(end-1)/file_len], [end] (exclusive) cut at the end of the file - the rules of
    [apply_to_response], which [SendKind::send] skips for a stream; without a range 200 and no [content-range] *)
Definition stream_body_head (content : bytes) (r : request) : N * list (bytes * bytes) :=
  let flen := N.of_nat (length content) in
  match stream_body_range r with
  | Some (s, e0) =>
      let e := N.min e0 flen in
      (206, [(B "content-range", B "bytes " ++ dec s ++ B "-" ++ dec (e - 1) ++ B "/" ++ dec flen)])
  | None => (200, [])
  end.
(** [extensions::stream_body]: announced length and bytes of its future; [None] = the 416 above.
    [clamp = true] is the code as it is: since 4cb2e2f the range is cut at the end of the file (before, it
    announced [end - start] of the request's range whatever the file holds), since d675f8a a start outside the
    file is refused before ([clamp = false]: the code before both, kept for the refutation witness) *)
Definition stream_body_future (clamp : bool) (content : bytes) (r : request) : option (option N * list bytes) :=
  let flen := N.of_nat (length content) in
  let rg := stream_body_range r in
  if clamp && stream_body_416 content r then None else
  let s := match rg with Some (s, _) => s | None => 0 end in
  let end0 := match rg with Some (_, e) => e | None => flen end in
  let e := if clamp then N.min end0 flen else end0 in
  Some (Some (e - s), [firstn (N.to_nat (N.min e flen - N.min s (N.min e flen))) (skipn (N.to_nat s) content)]).
(** the future of the reply to [r], if its path is a streaming handler's *)
Definition stream_future (clamp : bool) (streams : list (bytes * (N * N * list bytes))) (files : list (bytes * bytes))
    (r : request) : option (option N * list bytes) :=
  match assocS (rq_path r) streams with
  | None => None
  | Some (kind, announced, chunks) =>
      if kind =? 0 then
        match assoc (rq_path r) files with
        | Some content => stream_body_future clamp content r
        | None => None
        end
      else if (kind =? 1) || (kind =? 3) then Some (None, chunks)
      else Some (Some announced, chunks)
  end.

Definition compute_c08 (cfg : c8cfg) (hs : list N) (r : request) (ok : bool) : fat * list N * list bytes :=
  if negb ok then
    (* [sanitize_request] tests the path first *)
    ((if negb (path_part_ok (rq_path r)) then err_fat 400 (Some (B "path contains illegal segments (e.g. `./`)")) SP_NONE
      else err_fat 416 None SP_NONE), hs, [])
  else
  match assocS (rq_path r) (c8_streams cfg) with
  | Some (kind, announced, _) =>
      (* a Prepare extension: it is run for every method *)
      if kind =? 0 then
        match assoc (rq_path r) (c8_files cfg) with
        | Some content =>
            if stream_body_416 content r
            then (err_fat 416 (Some (B "Range start after end of body")) SP_NONE, hs, [])
            else let '(st, cr) := stream_body_head content r in
                 (stream_fat st (with_client_cache 3 ((B "vary", B "range") :: cr)), hs, [])
        | None => (err_fat 404 None SP_NONE, hs, [])     (* [default_error_response]: not stored *)
        end
      else (stream_fat 200 (with_client_cache 3 ([(B "content-type", B "text/plain"); (B "x-tag", B "S")]
                                             ++ (if kind =? 3 then [(s_content_length, dec announced)] else []))), hs, [])
  | None =>
  match find_handler_last (rq_path r) (cf_handlers (c8_base cfg)) O None with
  | Some _ => compute_fix (cf_handlers (c8_base cfg)) hs r ok
  | None =>
      if get_or_head (rq_method r) then
        match assoc (rq_path r) (c8_files cfg) with
        | Some content => (file_fat content, hs, [])
        | None => (err_fat 404 None SP_FULL, hs, [])
        end
      else (err_fat 405 None SP_FULL, hs, [])          (* whether or not the file exists *)
  end
  end.

Definition c8_now : N := 500.
Definition c8_state := (cache * list N)%type.
Definition c8_serve (cfg : c8cfg) (st : c8_state) (r : request) : c8_state * reply * list bytes :=
  let b := c8_base cfg in
  serve (list N) (compute_c08 cfg) (cf_cache b) (cf_ims b) parse_ims_fix sanitize_ok_fix
        (if cf_default_ext b then uri_redirect else (fun r => r)) (fun _ _ => None)
        (vary_tuple_fix (cf_vary b)) (vary_header_fix (cf_vary b)) st c8_now r.

Fixpoint assocN (k : bytes) (l : list (bytes * N)) : option N :=
  match l with
  | [] => None
  | (k', v) :: r => if beq k k' then Some v else assocN k r
  end.

Definition c8_app (cfg : c8cfg) (st : c8_state) (r : request) : c8_state * reply0 * option N :=
  let '(st', rp, _) := c8_serve cfg st r in
  let san := if sanitize_ok_fix r
             then match sanitize_range (header (B "range") r) with Ok rg => Some rg | _ => None end
             else None in
  (* a streaming handler is run - and its reply never comes from the cache - iff the request passes sanitize *)
  let fut := if sanitize_ok_fix r then stream_future true (c8_streams cfg) (c8_files cfg) r else None in
  (st', mkR0 11 (rp_status rp) (rp_headers rp) (rp_body rp) san fut, assocN (rq_path r) (c8_readers cfg)).

(** the limiter of the fixture host: [check_every = 1], a reset interval longer than any run:
    the k-th request of the one client is [Passed] up to [max], answered 429 up to [3 max], then dropped *)
Definition limit_action (max k : N) : action :=
  if max =? 0 then APassed else if k <=? max then APassed else if k <=? 3 * max then ASend else ADrop.

(** a request of a case: (L method target headers body early flags); flag bit 0 = unknown Host *)
Record c8req := mkC8req { q_req : request; q_nohost : bool; q_raw_head : bytes }.

Definition d_c8req (x : xval) : option (c8req * bytes * nat) :=
  match x with
  | XL [XB m; XB t; hs; XB body; XN early; XN flags] =>
      match d_list d_pair_bb hs with
      | Some h =>
          Some (mkC8req (d_request 0 m t h) (N.odd flags)
                        (m ++ [32] ++ t ++ B " HTTP/1.1" ++ crlf), body, N.to_nat early)
      | None => None
      end
  | _ => None
  end.

Fixpoint with_actions (max : N) (k : N) (l : list (c8req * bytes * nat)) : list (hreq c8req) :=
  match l with
  | [] => []
  | (q, body, early) :: r =>
      if q_nohost q then mkHreq c8req q body early APassed :: with_actions max k r
      else mkHreq c8req q body early (limit_action max k) :: with_actions max (k + 1) r
  end.

Definition d_file (x : xval) : option (bytes * bytes) :=
  match x with
  | XL [XB p; XB c] => Some (skipn 6 p, c)          (* "public/f.txt" -> "/f.txt" *)
  | _ => None
  end.
Definition d_reader (x : xval) : option (bytes * N) :=
  match x with XL [XB p; XN l] => Some (p, l) | _ => None end.

Definition d_stream (x : xval) : option (bytes * (N * N * list bytes)) :=
  match x with
  | XL [XB p; XN kind; XN announced; cs] =>
      match d_list d_B cs with Some chunks => Some (p, (kind, announced, chunks)) | None => None end
  | _ => None
  end.

Definition d_c8cfg (x : xval) : option c8cfg :=
  match d_config x, x with
  | Some b, XL l =>
      let fs := match kv_get (B "files") l with Some v => d_list d_file v | None => Some [] end in
      let rs := match kv_get (B "readers") l with Some v => d_list d_reader v | None => Some [] end in
      let ss := match kv_get (B "streams") l with Some v => d_list d_stream v | None => Some [] end in
      let lim := match kv_get (B "limit") l with Some (XN n) => n | _ => 0 end in
      match fs, rs, ss with
      | Some fs', Some rs', Some ss' => Some (mkC8 b fs' rs' lim ss')
      | _, _, _ => None
      end
  | _, _ => None
  end.

Definition c8_state0 (cfg : c8cfg) : c8_state := ([], repeat 0 (length (cf_handlers (c8_base cfg)) + 8)).

(** the request's content-length as [get_body_length_request] sees it: CONNECT and TRACE carry no body whatever
    they declare (as GET / HEAD / OPTIONS, which [body_length] knows by their method codes) *)
Definition c8_content_length (q : c8req) : option bytes :=
  if starts_with (B "TRACE ") (q_raw_head q) || starts_with (B "CONNECT ") (q_raw_head q) then None
  else header s_content_length (q_req q).

Definition c8_run_hs (drain head_rule : bool) (cfg : c8cfg) (hs : list (hreq c8req))
  : list (option sent) * cstate :=
  conn_run c8req c8_state (fun q => rq_method (q_req q)) c8_content_length
           (fun q => negb (q_nohost q)) q_raw_head
           (fun st q => c8_app cfg st (q_req q)) hardcoded_error_body (fun _ h => h) TOO_MANY drain head_rule
           (c8_state0 cfg) (Open []) hs.
Definition c8_run (drain head_rule : bool) (cfg : c8cfg) (reqs : list (c8req * bytes * nat))
  : list (option sent) * cstate :=
  c8_run_hs drain head_rule cfg (with_actions (c8_limit cfg) 1 reqs).

(** ---- xval interface ---- *)
Definition x_headers (hs : list (bytes * bytes)) : xval := XL (map (fun h => XL [XB (fst h); XB (snd h)]) hs).
Definition x_presp (p : presp) : xval :=
  XL [XN (p_version p); XN (p_status p); XB (p_reason p); x_headers (p_headers p); XB (p_body p)].

(** the reported headers, in the order of the report list, all values of each name *)
Definition select_headers (report : list bytes) (hs : list (bytes * bytes)) : list (bytes * bytes) :=
  concat (map (fun n => filter (fun h => beq (fst h) n) hs) report).

Definition x_predicted (report : list bytes) (unpredicted : bool) (o : option sent) : xval :=
  match o with
  | None => XL []
  | Some s =>
      if unpredicted then XL [XN 7] else
      let p := observable s in
      XL [XN (p_version p); XN (p_status p); XB (p_reason p);
          x_headers (select_headers report (p_headers p)); XB (p_body p)]
  end.
Definition x_cstate (s : cstate) : xval :=
  match s with Open [] => XN 0 | Open _ => XN 3 | Closed => XN 1 | Unmodelled => XN 2 end.

(** with the default extensions a request that carries [Origin] is handled by the CORS machinery (C13), which
    this model does not describe: its answer is framed (oracle) but not predicted, and neither are the later
    answers of that history (the caches of model and server may differ from then on).  A request that refuses
    codings may be answered 406 (C06): that answer alone is not predicted. *)
Definition poisons (cfg : c8cfg) (q : c8req) : bool :=
  cf_default_ext (c8_base cfg) && match header (B "origin") (q_req q) with Some _ => true | None => false end.
Definition negotiates (q : c8req) : bool :=
  match header (B "accept-encoding") (q_req q) with
  | Some v => contains_sub (B "q=0") v
  | None => false
  end.
Fixpoint unpredicted_flags (cfg : c8cfg) (sticky : bool) (reqs : list (c8req * bytes * nat)) : list bool :=
  match reqs with
  | [] => []
  | (q, _, _) :: r => let p := sticky || poisons cfg q in (p || negotiates q) :: unpredicted_flags cfg p r
  end.

Definition run_conn_gen (drain head_rule : bool) (x : xval) : xval :=
  match x with
  | XL [c; XL rs] =>
      match d_c8cfg c, d_all d_c8req rs with
      | Some cfg, Some reqs =>
          let '(os, fin) := c8_run drain head_rule cfg reqs in
          XL [XL (map (fun '(o, u) => x_predicted (cf_report (c8_base cfg)) u o)
                      (combine os (unpredicted_flags cfg false reqs)));
              x_cstate fin]
      | _, _ => bad_input
      end
  | _ => bad_input
  end.
Definition run_conn := run_conn_gen true true.
Definition run_conn_v0 := run_conn_gen false false.

(** the strict client on a byte stream: (L (L method...) bytes) -> (L) | (L (L response...)) *)
Definition run_parse (x : xval) : xval :=
  match x with
  | XL [ms; XB s] =>
      match d_list d_N ms with
      | Some ms' => x_option (x_list x_presp) (parse_responses ms' s)
      | None => bad_input
      end
  | _ => bad_input
  end.

(** ---- the hypotheses of the theorems, as executable checks on a history of the fixture host ---- *)
Definition is_nil {X} (l : list X) : bool := match l with [] => true | _ => false end.
(** [reply_ok] of Proofs/Http1WriteProofs.v as a boolean *)
(** a streamed reply: not a 1xx/204/304; an announced length is the length of what body and future
    write; a stream of unknown length is not framed by the handler itself (no [transfer-encoding], no
    [content-length] of its own) *)
Definition stream_okb (r : reply0) : bool :=
  match r0_future r with
  | None => true
  | Some (Some l, chunks) =>
      negb (bodyless_status (r0_status r)) && (l =? N.of_nat (length (r0_body r) + length (concat chunks)))
  | Some (None, _) =>
      negb (bodyless_status (r0_status r)) && negb (has_header s_transfer_encoding (r0_headers r))
      && negb (has_header s_content_length (r0_headers r))
  end.
Definition reply_okb (r : reply0) : bool :=
  (100 <=? r0_status r) && (r0_status r <=? 999) && negb (r0_version r =? 9)
  && forallb hdr_ok (r0_headers r) && forallb (fun h => beq (lower (fst h)) (fst h)) (r0_headers r)
  && match r0_sanitize r with
     | Some (Some (s, e)) => s <? e
     | _ => true
     end
  && stream_okb r.
Definition c8_politeb (h : hreq c8req) : bool :=
  negb (q_nohost (h_q c8req h))
  && match h_action c8req h with ADrop => false | _ => true end
  && (N.of_nat (length (h_body c8req h))
      =? body_length (rq_method (q_req (h_q c8req h))) (c8_content_length (h_q c8req h))).
(** every request of the history is polite and every reply of the application along it is [reply_ok] *)
Fixpoint c8_hyps (cfg : c8cfg) (st : c8_state) (hs : list (hreq c8req)) : bool :=
  match hs with
  | [] => true
  | h :: rest =>
      c8_politeb h &&
      match h_action c8req h with
      | ASend => c8_hyps cfg st rest
      | _ => let '(st', r, _) := c8_app cfg st (q_req (h_q c8req h)) in
             reply_okb r && negb (unframed r) && c8_hyps cfg st' rest
      end
  end.
(** the same for a history whose last request is answered by a stream of unknown length (after which the
    server closes): [Some n] = the first such answer is the [n]-th of the history, everything before is as
    [c8_hyps] demands, and that request was let through by the limiter *)
Fixpoint c8_hyps_closing (cfg : c8cfg) (st : c8_state) (hs : list (hreq c8req)) (n : nat) : option nat :=
  match hs with
  | [] => None
  | h :: rest =>
      if negb (c8_politeb h) then None else
      match h_action c8req h with
      | ASend => c8_hyps_closing cfg st rest (S n)
      | ADrop => None
      | APassed =>
          let '(st', r, _) := c8_app cfg st (q_req (h_q c8req h)) in
          if negb (reply_okb r) then None
          else if unframed r then Some (S n) else c8_hyps_closing cfg st' rest (S n)
      end
  end.

(** the position of the first answer that is a stream of unknown length (whatever else the history contains) *)
Fixpoint c8_first_unframed (cfg : c8cfg) (st : c8_state) (hs : list (hreq c8req)) (n : nat) : option nat :=
  match hs with
  | [] => None
  | h :: rest =>
      if q_nohost (h_q c8req h) then None else
      match h_action c8req h with
      | ASend => c8_first_unframed cfg st rest (S n)
      | ADrop => None
      | APassed =>
          let '(st', r, _) := c8_app cfg st (q_req (h_q c8req h)) in
          if unframed r then Some (S n) else c8_first_unframed cfg st' rest (S n)
      end
  end.

(** what the property demands of a case: (n answers, the connection stays usable), whether the history
    is an instance of the theorems' hypotheses ([checked_history_is_instance]), and whether it is one of
    [checked_closing_history_is_instance]; fourth field: its n-th answer is a stream of unknown length, which the
    server ends by closing the connection (what is sent after it is not answered) *)
Definition run_expect (x : xval) : xval :=
  match x with
  | XL [c; XL rs] =>
      match d_c8cfg c, d_all d_c8req rs with
      | Some cfg, Some reqs =>
          let hs := with_actions (c8_limit cfg) 1 reqs in
          match c8_first_unframed cfg (c8_state0 cfg) hs O with
          | Some n =>
              (* n answers, the last one ended by the close; the requests after it are not answered *)
              XL [x_nat n; x_bool false; x_bool false; x_bool true;
                  x_bool (match c8_hyps_closing cfg (c8_state0 cfg) hs O with Some _ => true | None => false end)]
          | None =>
              XL [x_nat (length reqs);
                  x_bool (negb (existsb (fun '(q, _, _) => q_nohost q) reqs));
                  x_bool (c8_hyps cfg (c8_state0 cfg) hs); x_bool false; x_bool false]
          end
      | _, _ => bad_input
      end
  | _ => bad_input
  end.

(** the printer alone: (L version status (L (L name value)...) body) -> bytes *)
Definition run_print (x : xval) : xval :=
  match x with
  | XL [XN v; XN st; hs; XB body] =>
      match d_list d_pair_bb hs with
      | Some h => XB (print_response (mkHead v st h) body)
      | None => bad_input
      end
  | _ => bad_input
  end.

(** the same for a stream the server ends after the last response *)
Definition run_parse_closing (x : xval) : xval :=
  match x with
  | XL [ms; XB s] =>
      match d_list d_N ms with
      | Some ms' => x_option (x_list x_presp) (parse_closing ms' s)
      | None => bad_input
      end
  | _ => bad_input
  end.

Definition http1write_table : list (bytes * (xval -> xval)) :=
  [ (B "h1w.conn", run_conn); (B "h1w.conn_v0", run_conn_v0); (B "h1w.parse", run_parse);
    (B "h1w.parse_closing", run_parse_closing);
    (B "h1w.expect", run_expect); (B "h1w.print", run_print) ].
