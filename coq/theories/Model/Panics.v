(** C02 — byte-faithful models (explicit [Panic]) of the client-reachable helpers that no other
    property models, and the composition of all parser / decision models along the request path.

    * [kvarn_utils::parse::query] + [Query::insert] / [index_of] / [iterate_to_first] /
      [iterate_to_last] / [QueryPairIter] (utils/src/parse.rs) — the repaired iterator; the
      code as it was ([next_back] = [Query::get_last] always panicked) is kept as [qi_next_back_v0].
    * [comprash::PathQuery] ([From<&Uri>], [path], [query]) (src/comprash.rs).
    * the window arithmetic of [extensions::stream_body] ([end - start], [read - (pos - end)]).
    * [request_path]: [HttpConnection::accept] -> [read::request] -> [Collection::get_from_request]
      -> [handle_cache] ([sanitize_request], CORS origin test, [get_response]'s file path,
      [clone_preferred]'s [list_header], the cache, a handler that parses the query string)
      -> [SendKind::send] ([apply_to_response]).  Every stage is the model another property
      already ties to the code; the composition only threads their outcomes.
    Definitions only; proofs live in Proofs/PanicsProofs.v. *)
From Coq Require Import ZArith.
From KV Require Import Bytes RustInt RustStd.
From KV Require PathSan Range RangeConn Http1Read Hosts Negotiate Cors CacheControl Limiter.
Open Scope N_scope.

(** ** [parse::query] *)

Definition c_amp : N := 38.   (* & *)
Definition c_eq : N := 61.    (* = *)

Definition qpair := (bytes * bytes)%type.
(** [|probe| probe.name().cmp(name)]: [str]'s [Ord] is the byte-wise lexicographic order. *)
Definition q_cmp (name : bytes) (probe : qpair) : comparison := bcmp (fst probe) name.

(** [Query::index_of]: [None] = an index outside the slice inside [binary_search_by]
    (undefined behaviour of [get_unchecked]); impossible, see RustStd.binary_search_by_total. *)
Definition index_of (pairs : list qpair) (name : bytes) : option bsres :=
  binary_search_by (q_cmp name) pairs.

(** [iterate_to_last]: [for pair in &self.pairs[index..] { if name == .. {index += 1} else {break} }] *)
Fixpoint iter_to_last (name : bytes) (rest : list qpair) (index : nat) : nat :=
  match rest with
  | p :: r => if beq (fst p) name then iter_to_last name r (S index) else index
  | [] => index
  end.
Definition iterate_to_last (pairs : list qpair) (name : bytes) (index : nat) : outcome nat :=
  if (length pairs <? index)%nat then Panic                       (* &self.pairs[index..] *)
  else Ok (iter_to_last name (skipn index pairs) index).

(** [iterate_to_first]: [for pair in self.pairs[..index].iter().rev() { .. index -= 1 .. }] *)
Fixpoint iter_to_first (name : bytes) (rev_prefix : list qpair) (index : nat) : outcome nat :=
  match rev_prefix with
  | p :: r =>
      if beq (fst p) name then
        match index with
        | O => Panic                                              (* index -= 1 *)
        | S i => iter_to_first name r i
        end
      else Ok index
  | [] => Ok index
  end.
Definition iterate_to_first (pairs : list qpair) (name : bytes) (index : nat) : outcome nat :=
  if (length pairs <? index)%nat then Panic                       (* self.pairs[..index] *)
  else iter_to_first name (rev (firstn index pairs)) index.

Definition bs_pos (r : bsres) : nat := match r with BOk i => i | BErr i => i end.

(** [Query::insert]: [Ok(pos) | Err(pos) => { pos = iterate_to_last(name, pos); pairs.insert(pos, ..) }] *)
Definition q_insert (pairs : list qpair) (name value : bytes) : outcome (list qpair) :=
  match index_of pairs name with
  | None => Panic
  | Some r =>
      obind (iterate_to_last pairs name (bs_pos r)) (fun pos =>
      if (length pairs <? pos)%nat then Panic                     (* Vec::insert *)
      else Ok (firstn pos pairs ++ (name, value) :: skipn pos pairs))
  end.

(** The body shared by the ['&'] arm and the block after the loop; [value_end] is the end of
    the value slice ([position] resp. the end of the string).
    [str::get(a..b)] is [slice_get]: every index the function computes is next to an ASCII
    delimiter or 0 or the length, hence a character boundary of the (UTF-8) input. *)
Definition q_take (all : bytes) (ps vs value_end : nat) (m : list qpair) : outcome (list qpair) :=
  match slice_get ps (vs - 1) all, slice_get vs value_end all with     (* value_start.saturating_sub(1) *)
  | Some key, Some value =>
      match key with
      | [] => Ok m
      | _ => q_insert m (PathSan.util_percent_decode key) (PathSan.util_percent_decode value)
      end
  | _, _ => Ok m
  end.

(** [for (position, byte) in query.char_indices()]: bytes of multi-byte characters are never
    ['='] or ['&'], so walking bytes visits the same delimiters at the same offsets. *)
Fixpoint query_loop (all rest : bytes) (pos ps vs : nat) (m : list qpair) {struct rest}
  : outcome (list qpair) :=
  match rest with
  | [] => q_take all ps vs (length all) m
  | c :: r =>
      if c =? c_eq then query_loop all r (S pos) ps (S pos) m
      else if c =? c_amp then
        obind (q_take all ps vs pos m) (fun m' => query_loop all r (S pos) (S pos) vs m')
      else query_loop all r (S pos) ps vs m
  end.
Definition query (q : bytes) : outcome (list qpair) := query_loop q q 0 0 0 [].

(** [impl Display for Query]; [self.pairs.len() - 1] is only evaluated inside the loop. *)
Fixpoint q_display (pairs : list qpair) : bytes :=
  match pairs with
  | [] => []
  | [p] => fst p ++ [c_eq] ++ snd p
  | p :: r => fst p ++ [c_eq] ++ snd p ++ [c_amp] ++ q_display r
  end.

(** ** [QueryPairIter] (after the repair: [back_pos] is the exclusive end, "not found" is an
    empty window inside the vector) *)

Record qiter := mkQI { qi_pos : option nat; qi_back : option nat }.
Definition qi_new : qiter := mkQI None None.

(** [find_first]: [let index = self.index_of(name)?; Ok(self.iterate_to_first(name, index))] *)
Definition find_first (pairs : list qpair) (name : bytes) : outcome (option nat) :=
  match index_of pairs name with
  | None => Panic
  | Some (BErr _) => Ok None
  | Some (BOk i) => obind (iterate_to_first pairs name i) (fun f => Ok (Some f))
  end.

Definition ensure_pos (pairs : list qpair) (name : bytes) (it : qiter) : outcome qiter :=
  match qi_pos it with
  | Some _ => Ok it
  | None =>
      obind (match qi_back it with
             | None => obind (find_first pairs name)
                         (fun f => Ok (match f with Some i => i | None => length pairs end))
             | Some last => iterate_to_first pairs name last
             end) (fun p => Ok (mkQI (Some p) (qi_back it)))
  end.
Definition ensure_back_pos (pairs : list qpair) (name : bytes) (it : qiter) : outcome qiter :=
  match qi_back it with
  | Some _ => Ok it
  | None =>
      obind (match qi_pos it with
             | None => match index_of pairs name with
                       | None => Panic
                       | Some (BOk i) => iterate_to_last pairs name i
                       | Some (BErr _) => Ok O
                       end
             | Some first => iterate_to_last pairs name first
             end) (fun b => Ok (mkQI (qi_pos it) (Some b)))
  end.

(** [Iterator::next]: the value yielded (if any) and the iterator afterwards. *)
Definition qi_next (pairs : list qpair) (name : bytes) (it0 : qiter) : outcome (option bytes * qiter) :=
  obind (ensure_pos pairs name it0) (fun it =>
  match qi_pos it with
  | None => Panic                                                   (* self.pos.unwrap() *)
  | Some p =>
      if match qi_back it with Some b => (p =? b)%nat | None => false end then Ok (None, it)
      else match nth_error pairs p with
           | Some cur => if beq (fst cur) name then Ok (Some (snd cur), mkQI (Some (S p)) (qi_back it))
                         else Ok (None, it)
           | None => Ok (None, it)
           end
  end).
(** [DoubleEndedIterator::next_back] *)
Definition qi_next_back (pairs : list qpair) (name : bytes) (it0 : qiter) : outcome (option bytes * qiter) :=
  obind (ensure_back_pos pairs name it0) (fun it =>
  match qi_back it with
  | None => Panic                                                   (* self.back_pos.unwrap() *)
  | Some b =>
      if match qi_pos it with Some p => (p =? b)%nat | None => false end then Ok (None, it)
      else match b with
           | O => Ok (None, it)
           | S b' =>
               match nth_error pairs b' with
               | Some cur => if beq (fst cur) name then Ok (Some (snd cur), mkQI (qi_pos it) (Some b'))
                             else Ok (None, it)
               | None => Ok (None, it)
               end
           end
  end).

(** The code as it was: [ensure_pos] answered [usize::MAX] for "not found" ([get(MAX)] is [None]);
    [ensure_back_pos] assigned [self.pos] instead of [self.back_pos], so the
    [self.back_pos.unwrap()] that follows it panicked on every first call. *)
Definition qi_next_v0 (pairs : list qpair) (name : bytes) (it : qiter) : outcome (option bytes * qiter) :=
  match qi_pos it with
  | Some _ => qi_next pairs name it
  | None =>
      obind (find_first pairs name) (fun f =>
      match f with
      | Some i => qi_next pairs name (mkQI (Some i) (qi_back it))
      | None => Ok (None, it)       (* pos = usize::MAX, kept as "unset": the next call finds the same *)
      end)
  end.
Definition qi_next_back_v0 (pairs : list qpair) (name : bytes) (it : qiter) : outcome (option bytes * qiter) :=
  match qi_back it with
  | None => Panic
  | Some _ => qi_next_back pairs name it
  end.

(** A script of calls on one iterator ([false] = [next], [true] = [next_back]). *)
Fixpoint qi_run (nx nb : list qpair -> bytes -> qiter -> outcome (option bytes * qiter))
    (pairs : list qpair) (name : bytes) (it : qiter) (script : list bool) : outcome (list (option bytes)) :=
  match script with
  | [] => Ok []
  | s :: rest =>
      obind ((if s then nb else nx) pairs name it) (fun r =>
      obind (qi_run nx nb pairs name (snd r) rest) (fun l => Ok (fst r :: l)))
  end.
Definition query_script (v0 : bool) (q name : bytes) (script : list bool) : outcome (list (option bytes)) :=
  obind (query q) (fun pairs =>
  qi_run (if v0 then qi_next_v0 else qi_next) (if v0 then qi_next_back_v0 else qi_next_back)
         pairs name qi_new script).

(** [Query::get_all(name).collect()], [get] (exactly one value), [get_first], [get_last]. *)
Definition q_values (pairs : list qpair) (name : bytes) : list bytes :=
  map snd (filter (fun p => beq (fst p) name) pairs).

(** ** [comprash::PathQuery] *)
Record path_query := mkPQ { pq_string : bytes; pq_query_start : nat }.
Definition pq_from (path : bytes) (query : option bytes) : path_query :=
  mkPQ (path ++ match query with Some q => q | None => [] end) (length path).
Definition pq_path (p : path_query) : outcome bytes := slice_chk 0 (pq_query_start p) (pq_string p).
Definition pq_query (p : path_query) : outcome (option bytes) :=
  if (pq_query_start p =? length (pq_string p))%nat then Ok None
  else obind (slice_chk (pq_query_start p) (length (pq_string p)) (pq_string p)) (fun q => Ok (Some q)).

(** ** [extensions::stream_body]: the window of a (ranged) streamed file
    (since C09's repair d675f8a: a start that is not inside the file is answered 416 before anything else,
    the end is clamped to the file) *)
Definition stream_window (checked : bool) (range : option (N * N)) (file_len : N) : outcome (N * N * N) :=
  let start := match range with Some (s, _) => s | None => 0 end in
  if match range with Some _ => file_len <=? start | None => false end then Err 416 else
  let end_ := match range with Some (_, e) => N.min e file_len | None => file_len end in
  obind (sub_u64 checked end_ start) (fun len =>                              (* let len = end - start *)
  (* file.seek(SeekFrom::Start(start)) fails beyond i64::MAX (lseek: EINVAL): the 404 page is returned
     without a stream, and SendKind::send applies the range to that page: its start is past the end, 416
     (not reachable for a real file any more: its length is below 2^63, so such a start is refused above) *)
  if 9223372036854775807 <? start then Err 416 else Ok (start, end_, len)).
(** One turn of the streaming loop: [pos += read; buf_end = if pos > end { read - (pos - end) } else { read }] *)
Definition stream_chunk (checked : bool) (pos read end_ : N) : outcome (N * N) :=
  obind (add_u64 checked pos read) (fun pos' =>
  if end_ <? pos' then
    obind (sub_u64 checked pos' end_) (fun over =>
    obind (sub_u64 checked read over) (fun buf_end => Ok (pos', buf_end)))
  else Ok (pos', read)).

(** The whole streaming loop.  [reads]: what the successive [file.read(&mut buf)] calls return ([buf] is
    64 KiB; [0] or the end of the list = end of file).  The result is the list of the [buf_end]s, the sizes
    of the chunks handed to [response.send]:
    [loop { read; if read == 0 {break}; pos += read; buf_end = ..; send(&buf[..buf_end]); if pos >= end {break} }] *)
Definition stream_buf : N := 65536.
Fixpoint stream_loop (checked : bool) (pos end_ : N) (reads : list N) : outcome (list N) :=
  match reads with
  | [] => Ok []
  | r :: rest =>
      if r =? 0 then Ok [] else
      obind (stream_chunk checked pos r end_) (fun pc =>
      if stream_buf <? snd pc then Panic                                   (* &buf[..buf_end] *)
      else if end_ <=? fst pc then Ok [snd pc]
      else obind (stream_loop checked (fst pc) end_ rest) (fun l => Ok (snd pc :: l)))
  end.
Fixpoint nsum (l : list N) : N := match l with [] => 0 | x :: r => x + nsum r end.
(** The reads before the first empty one. *)
Fixpoint live_reads (reads : list N) : list N :=
  match reads with
  | [] => []
  | r :: rest => if r =? 0 then [] else r :: live_reads rest
  end.
(** What a regular file of [file_len] bytes yields from offset [pos] on: full buffers, then the rest, then 0. *)
Fixpoint file_reads (fuel : nat) (pos file_len : N) : list N :=
  match fuel with
  | O => []
  | S f => if file_len <=? pos then [0]
           else let r := N.min stream_buf (file_len - pos) in r :: file_reads f (pos + r) file_len
  end.
(** The streamed reply: the announced [content-length] and the number of body bytes that follow. *)
Definition stream_reply (checked : bool) (range : option (N * N)) (file_len : N) : outcome (N * N) :=
  obind (stream_window checked range file_len) (fun w =>
  let '(start, end_, len) := w in
  obind (stream_loop checked start end_ (file_reads (S (N.to_nat (file_len / stream_buf + 2))) start file_len))
        (fun sent => Ok (len, nsum sent))).

(** ** The request path *)

Definition h_range : bytes := Eval vm_compute in B "range".
Definition h_accept_encoding : bytes := Eval vm_compute in B "accept-encoding".
Definition h_origin : bytes := Eval vm_compute in B "origin".
Definition s_http : bytes := Eval vm_compute in B "http".
Definition s_https : bytes := Eval vm_compute in B "https".
Definition s_gzip : bytes := Eval vm_compute in B "gzip".

Inductive path_result :=
| PClosed (e : N)                (** [accept] failed: the loop of [handle_connection] ends, the stream is shut down *)
| P409                           (** no host: "The host you're looking for wasn't found." *)
| PDropped                       (** [LimitAction::Drop]: the connection is closed without an answer *)
| P429                           (** [LimitAction::Send]: [limiting::get_too_many_requests()] *)
| P400                           (** [SanitizeError::UnsafePath] *)
| PGate (r : Range.range_reply)  (** an internal page of the default CORS gate — 403 "CORS request denied" for a foreign Origin,
                                     204 (empty) for a same-origin preflight — after the range stage of [SendKind::send],
                                     which is applied to every answer whose sanitize data is [Ok] *)
| PReply (w : RangeConn.wreply) (cache : option RangeConn.page) (query : list qpair) (fs_path : option bytes).

(** The Accept-Encoding class of [RangeConn.choose]: 0 = no (usable) header, 1 = gzip accepted, 2 = other. *)
Definition ae_class (parse_q : bytes -> option Negotiate.qclass) (h : option bytes) : N :=
  match h with
  | None => 0
  | Some v =>
      if Http1Read.hv_to_str_ok v then
        if existsb (fun m => beq (fst m) s_gzip && negb (Negotiate.q_is_zero (snd m)))
                   (Negotiate.list_header parse_q v) then 1 else 2
      else 0
  end.

Definition meth_of (m : bytes) : RangeConn.meth :=
  if beq m Http1Read.m_head then RangeConn.HEAD else RangeConn.GET.

(** [host.limiter.register(address.ip())] after every earlier registration [lh] on that limiter (made at [t0]). *)
Definition limiter_decision (checked : bool) (lcfg : Limiter.config) (t0 : N) (lh : list Limiter.event) (addr now : N)
  : outcome Limiter.action :=
  nth (length lh) (Limiter.decisions checked lcfg t0 (lh ++ [(addr, now)])) Panic.

Definition h_acrm : bytes := Eval vm_compute in B "access-control-request-method".
Definition cors_denied : bytes := Eval vm_compute in B "CORS request denied".

Section RequestPath.
  Variable grow : nat -> nat -> nat -> nat.
  Variable parse_q : bytes -> option Negotiate.qclass.

  (** [c]: the host collection; [lcfg]/[t0]/[lh]/[addr]/[now]: the chosen host's request limiter, when it was made,
      every earlier registration on it, the client's address and the clock; [public]:
      [host.options.public_data_dir]; [pg]/[cache]/[caching]: the page a handler or the file system yields for
      this URI, given as its representations per Accept-Encoding class (as in Model/RangeConn.v), the state of
      the response cache, and whether the answer is stored; [cors_default_deny]: [Extensions::new()]'s gate.
      The order is the code's: [accept] (head, then what a handler reads of the body) -> [get_from_request] (409)
      -> [limiter.register] (drop / 429) -> [handle_cache]: [sanitize_request] (path: 400; range with
      start > end: 416, both BEFORE any Prime result is looked at) -> the Primes of the CORS gate (403; 204 for a
      same-origin preflight; the range stage of [send] still applies to these pages) -> cache key -> file path -> handler -> negotiation, cache, range, send. *)
  Definition request_path (checked : bool) (mode : N) (https : bool) (c : Hosts.collection)
      (dh : option bytes) (max_len : nat) (limit : N)
      (lcfg : Limiter.config) (t0 : N) (lh : list Limiter.event) (addr now : N)
      (public : bytes) (cors_default_deny caching : bool)
      (pg : RangeConn.page) (cache : option RangeConn.page) (stream : bytes) (sched : list nat)
    : outcome path_result :=
    (* HttpConnection::accept: read::request, Http1Body; a handler reading the body *)
    match Http1Read.serve grow mode https dh max_len limit stream sched with
    | Panic => Panic
    | Err e => Ok (PClosed e)
    | Ok sv =>
        let q := Http1Read.sv_request sv in
        let hs := Http1Read.q_headers q in
        let host_headers := match Http1Read.hm_get Http1Read.host_name hs with Some h => [h] | None => [] end in
        (* descriptor.data.get_from_request(..); moved_host_collection.get_host(&hostname).unwrap() *)
        match Hosts.choose_host_uri true Hosts.V1 c None host_headers (Http1Read.q_authority q) with
        | Panic => Panic
        | Err e => Err e
        | Ok Hosts.Refuse409 => Ok P409
        | Ok (Hosts.ServeWith h) =>
            (* host.limiter.register(address.ip()) *)
            match limiter_decision checked lcfg t0 lh addr now with
            | Panic => Panic
            | Err e => Err e
            | Ok Limiter.Drop => Ok PDropped
            | Ok Limiter.Send => Ok P429
            | Ok Limiter.Passed =>
            (* handle_cache: utils::sanitize_request — the path part *)
            match PathSan.sanitize_path (Http1Read.q_path q) with
            | Panic => Panic
            | Err _ => Ok P400
            | Ok _ =>
                (* ... and the range part: an error (start > end) is answered by get_response whatever the Primes say *)
                let range_refused :=
                  match Range.sanitize_range (Http1Read.hm_get h_range hs) with Err _ => true | _ => false end in
                (* resolve_prime: the CORS gate of Extensions::new() *)
                let origin := Http1Read.hm_get h_origin hs in
                let origin_ok :=
                  match origin with
                  | None => true
                  | Some o =>
                      negb cors_default_deny ||
                      (Http1Read.hv_to_str_ok o &&
                       (* a URI without authority (no usable Host value) has no scheme either *)
                       Cors.is_part_of_origin o (match Http1Read.q_authority q with
                                                 | Some _ => Some (if https then s_https else s_http)
                                                 | None => None
                                                 end)
                                              (Http1Read.q_authority q))
                  end in
                let preflight :=
                  cors_default_deny && beq (Http1Read.q_method q) Http1Read.m_options &&
                  match origin, Http1Read.hm_get h_acrm hs with Some _, Some _ => true | _, _ => false end in
                if negb range_refused && negb origin_ok then
                  obind (Range.serve_range checked (Http1Read.hm_get h_range hs) 403 cors_denied) (fun r => Ok (PGate r)) else
                if negb range_refused && preflight then
                  obind (Range.serve_range checked (Http1Read.hm_get h_range hs) 204 []) (fun r => Ok (PGate r)) else
                (* UriKey::path_and_query: PathQuery::from(uri), .path(), .query() *)
                let pq := pq_from (Http1Read.q_path q) (Http1Read.q_query q) in
                obind (pq_path pq) (fun _ =>
                obind (pq_query pq) (fun _ =>
                (* get_response: make_path(.., parse::uri(&decoded).unwrap(), ..) *)
                obind (PathSan.request_fs_path (Hosts.hname h) public (Http1Read.q_path q)) (fun fs_path =>
                (* a handler that looks at the query string: parse::query *)
                obind (match Http1Read.q_query q with Some s => query s | None => Ok [] end) (fun qs =>
                (* clone_preferred: list_header(accept-encoding); sanitize_request's range part,
                   the cache, SendKind::send -> apply_to_response *)
                let cq := {| RangeConn.q_method := meth_of (Http1Read.q_method q);
                             RangeConn.q_ae := ae_class parse_q (Http1Read.hm_get h_accept_encoding hs);
                             RangeConn.q_range := Http1Read.hm_get h_range hs |} in
                let (o, cache') := RangeConn.conn_step checked caching pg cache cq in
                obind o (fun w => Ok (PReply w cache' qs fs_path))))))
            end
            end
        end
    end.
End RequestPath.

(** ** xval interface *)

Definition x_qpairs (l : list qpair) : xval := x_list (x_pair XB XB) l.

(** component query.parse: (B query) -> outcome of the Display text *)
Definition run_query_parse (x : xval) : xval :=
  match x with
  | XB q => x_outcome (fun l => XB (q_display l)) (query q)
  | _ => bad_input
  end.

(** component query.iter / query.iter_v0: (L (B query) (B name) (L step..)), step 0 = next, 1 = next_back *)
Definition run_query_iter_with (v0 : bool) (x : xval) : xval :=
  match x with
  | XL [XB q; XB name; s] =>
      match d_list d_bool s with
      | Some script => x_outcome (x_list (x_option XB)) (query_script v0 q name script)
      | None => bad_input
      end
  | _ => bad_input
  end.
Definition run_query_iter := run_query_iter_with false.
Definition run_query_iter_v0 := run_query_iter_with true.

(** spec component query.iter.spec: for the all-forward / all-backward scripts the values of [name] in
    the order of the query string (resp. reversed), then [None]s; (L (N 7)) otherwise. *)
Fixpoint take_script {A} (vals : list A) (n : nat) : list (option A) :=
  match n with
  | O => []
  | S k => match vals with
           | v :: r => Some v :: take_script r k
           | [] => None :: take_script [] k
           end
  end.
Definition run_query_iter_spec (x : xval) : xval :=
  match x with
  | XL [XB q; XB name; s] =>
      match d_list d_bool s, query q with
      | Some script, Ok pairs =>
          if forallb negb script then
            x_outcome (x_list (x_option XB)) (Ok (take_script (q_values pairs name) (length script)))
          else if forallb (fun b => b) script then
            x_outcome (x_list (x_option XB)) (Ok (take_script (rev (q_values pairs name)) (length script)))
          else XL [XN 7]
      | Some _, _ => XL [XN 7]
      | None, _ => bad_input
      end
  | _ => bad_input
  end.

(** component pathquery: (L (B path) (L [query])) -> (L path-outcome query-outcome) *)
Definition run_pathquery (x : xval) : xval :=
  match x with
  | XL [XB p; oq] =>
      match d_option d_B oq with
      | Some q => let pq := pq_from p q in
                  XL [x_outcome XB (pq_path pq); x_outcome (x_option XB) (pq_query pq)]
      | None => bad_input
      end
  | _ => bad_input
  end.

(** component stream.window: (L checked (L [range header]) file_len) -> outcome of (L announced sent): the
    announced content-length ([len]) and the number of body bytes the loop sends for a regular file of
    [file_len] bytes; a header that [sanitize_request] refuses is answered 416 by [handle_cache]
    before the extension runs. *)
Definition run_stream_window (x : xval) : xval :=
  match x with
  | XL [c; h; XN file_len] =>
      match d_bool c, d_option d_B h with
      | Some checked, Some hdr =>
          x_outcome (fun p => XL [XN (fst p); XN (snd p)])
                    (obind (Range.sanitize_range hdr) (fun range => stream_reply checked range file_len))
      | _, _ => bad_input
      end
  | _ => bad_input
  end.

(** component cc.kvarn: (L checked (B value)) -> outcome (max_age, no_store) of
    [CacheControl::from_kvarn_cache_control] (Model/CacheControl.v, C04).  The header is read from the
    RESPONSE of a handler or an upstream server, not from the client; with overflow checks
    [integer * multiplier] panics (known class kvarn-cache-control-overflow). *)
Definition run_cc_kvarn (x : xval) : xval :=
  match x with
  | XL [c; XB h] =>
      match d_bool c with
      | Some checked =>
          if Range.to_str_ok h then
            x_outcome (fun cc => XL [x_option XN (CacheControl.cc_max_age cc); x_bool (CacheControl.cc_no_store cc)])
                      (CacheControl.from_kvarn_cache_control checked h)
          else XL [XN 96]
      | None => bad_input
      end
  | _ => bad_input
  end.

(** component c02.path: (L checked (B stream) (L segment..) no_default) -> outcome of the class of the answer to ONE request sent
    to the harness's minimal collection: default host [localhost] + [b.example] (alias [alias.example]), both
    [Extensions::new()] + one handler for every path that reads the body (64 KiB) and answers a 10-byte page, no
    response cache, limiter off.  Classes: (L (N 0)) closed without an answer | (L (N 409)) | (L (N 400)) | (L (N 403)) |
    (L (N 204)) | (L (N 416)) | (L (N 429)) | (L (N 1) status content-length (L [content-range]) body). *)
Definition path_ops : list Hosts.op :=
  [(true, {| Hosts.h_name := B "localhost"; Hosts.h_alts := [] |});
   (false, {| Hosts.h_name := B "b.example"; Hosts.h_alts := [B "alias.example"] |})].
Definition path_coll : Hosts.collection :=
  match Hosts.build path_ops with Ok c => c | _ => Hosts.empty_collection end.
Definition path_body : bytes := Eval vm_compute in B "0123456789".
Definition path_page : RangeConn.page :=
  let r := {| RangeConn.rp_encoding := None; RangeConn.rp_body := path_body |} in [r; r; r].
Definition x_path_result (r : path_result) : xval :=
  match r with
  | PClosed _ => XL [XN 0]
  | PDropped => XL [XN 0]
  | P409 => XL [XN 409]
  | P429 => XL [XN 429]
  | P400 => XL [XN 400]
  | PGate Range.R416 => XL [XN 416]
  | PGate (Range.RResp r) => XL [XN (Range.r_status r)]
  | PReply RangeConn.W416 _ _ _ => XL [XN 416]
  | PReply (RangeConn.WResp w) _ _ _ =>
      XL [XN 1; XN (RangeConn.w_status w); XN (RangeConn.w_content_length w); x_option XB (RangeConn.w_content_range w);
          XB (RangeConn.w_body w)]
  end.
Definition path_coll_nd : Hosts.collection :=
  match Hosts.build (map (fun o => (false, snd o)) path_ops) with Ok c => c | _ => Hosts.empty_collection end.
Definition run_c02_path (x : xval) : xval :=
  match x with
  | XL [c; XB stream; segs; nd] =>
      match d_bool c, d_list d_nat segs, d_bool nd with
      | Some checked, Some sched, Some no_default =>
          x_outcome x_path_result
            (request_path Http1Read.vec_grow Negotiate.parse_q_dec checked 0 false
               (if no_default then path_coll_nd else path_coll) (if no_default then None else Some (B "localhost"))
               (N.to_nat 16384) 65536 (Limiter.disable Limiter.default_config) 0 [] 1 0
               (B "public") true false path_page None stream
               (* the client writes the segments, then closes its sending side: what is left arrives as one read *)
               (sched ++ [length stream]))
      | _, _, _ => bad_input
      end
  | _ => bad_input
  end.

(** ** Numbers a client controls, and how the request path compares them

    - weights of list members ([accept-encoding]; [accept-language] only in callbacks of the operator): [f32::from_str]
      ([Negotiate.parse_q_dec]); the core tests them with [== 0.0], [!= 0.0] and [== 1.0] only, which are total on every binary32
      value ([Negotiate.qclass]: NaN, the infinities and negative numbers are "other").  Nothing orders or sorts them: [f32] is only
      [PartialOrd], and [a.partial_cmp(&b)] is [None] as soon as one side is NaN.  What a rewrite that ORDERS the client's weights
      with [sort_by(|a, b| b.quality.partial_cmp(&a.quality).unwrap())] would do is [sort_weights] below: a panic for every list of
      two or more members one of whose weights is "nan" ([weight_order_variant_refuted]) — the reason why the live exploration
      sends such lists to every kind of page.
    - [range]: [u64::from_str] twice ([Range.sanitize_range]); [as usize] only after the clamp to the body length ([Range.apply_range]).
    - [content-length]: [usize::from_str] ([Http1Read.body_length]); the body reader's [(len - buffer.len()) as u64] widens.
    - [if-modified-since]: the time crate's parser, integer fields with fixed widths ([Ims.parse_http_date]); the comparison is
      on [OffsetDateTime] (total).
    - [stream_body]: [pos += read as u64] (widens), [read - (pos - end) as usize] (below the 64 KiB buffer; [stream_chunk]).
    - no [from_str_radix] on the request path (percent-decoding is the percent-encoding crate's; kvarn parses no hex or chunk sizes). *)
Inductive fweight := FNan | FVal (v : Z).     (* a binary32 value as [partial_cmp] sees it: NaN, or a point of the total order -inf .. +inf *)
Definition partial_cmp (a b : fweight) : option comparison :=
  match a, b with FVal x, FVal y => Some (x ?= y)%Z | _, _ => None end.
(** [slice::sort_by] on up to 20 elements is an insertion sort; the comparator is [|a, b| b.partial_cmp(a).unwrap()] (descending,
    stable); the members are inserted from the last to the first *)
Fixpoint insert_weight {A} (x : A * fweight) (l : list (A * fweight)) : outcome (list (A * fweight)) :=
  match l with
  | [] => Ok [x]
  | y :: r =>
      match partial_cmp (snd y) (snd x) with
      | None => Panic                                          (* unwrap on None *)
      | Some Gt => obind (insert_weight x r) (fun r' => Ok (y :: r'))
      | Some _ => Ok (x :: y :: r)                             (* x came before y: it stays before a member of equal weight *)
      end
  end.
Fixpoint sort_weights {A} (l : list (A * fweight)) : outcome (list (A * fweight)) :=
  match l with
  | [] => Ok []
  | x :: r => obind (sort_weights r) (insert_weight x)
  end.

(** component c02.ae: (L (B accept-encoding value) (N target)) -> Ok (L answer answer), answer = (L (N status) (L [content-encoding])).
    The harness sends the same well-formed GET with this [accept-encoding] value twice on one connection (the second meets what the
    first left in the response cache and in the memo cells) to a page of its fixture; the model gives what [clone_preferred]
    ([Negotiate.clone_preferred], the model C06 ties to the code) settles on: the 406 page (which [error::default] labels "identity", as every error page) when
    identity is refused and nothing else applies, else the page's status with the name of the chosen coding.  The weight of a member goes
    through [f32::from_str] ([Negotiate.parse_q_dec]: also "nan", "inf", "1e400", "-0", ".5", "1.", "+1") and is consulted ONLY by
    the three tests [== 0.0], [!= 0.0] and [== 1.0] — total on every binary32 value, NaN included ([Negotiate.qclass]); nothing on
    the request path orders or sorts client-controlled floats.
    targets: 0 [/h] (handler, cached), 1 [/nc] (handler, never cached), 2 [/index.html] (file), 3 the built-in 404 page of a host
    without an errors directory, 4 [/sub/] (a 12-byte file: under the 50-byte floor the response is never compressed). *)
Definition ae_targets : list (N * bool) := [(200, true); (200, true); (200, true); (404, true); (200, false)].
Definition ae_page (big : bool) : Negotiate.cresp :=
  Negotiate.cresp_new (repeat 97 (if big then 60 else 12)) (Some (B "text/html")) None true.
Definition ae_options : Negotiate.options := Negotiate.mkOptions Negotiate.PZstd 0 0 0.
Definition ae_answer (parse_q : bytes -> option Negotiate.qclass) (status : N) (big : bool) (ae : option bytes)
  : N * option bytes :=
  match fst (Negotiate.clone_preferred parse_q Negotiate.parse_mime_std Negotiate.enc_tag (ae_page big) ae ae_options) with
  | Negotiate.NotAcceptable => (406, Some Negotiate.s_identity)   (* [error::default] labels every error page "identity" *)
  | Negotiate.Sent label _ _ => (status, label)
  end.
Definition run_c02_ae (x : xval) : xval :=
  match x with
  | XL [XB ae; XN target] =>
      match nth_error ae_targets (N.to_nat target) with
      | Some (status, big) =>
          let a := ae_answer Negotiate.parse_q_dec status big (Some ae) in
          let xa := XL [XN (fst a); x_option XB (snd a)] in
          XL [XN 0; XL [xa; xa]]
      | None => bad_input
      end
  | _ => bad_input
  end.

(** components explore.*: exploration runs (a live connection, crates that are not modelled).
    The "model" is the claim under test — the run ends cleanly — so that a panic shows up as
    a difference as well as in the model-independent oracle. *)
Definition run_explore (x : xval) : xval := XL [XN 0; XL []].

Definition panics_table : list (bytes * (xval -> xval)) :=
  [ (B "query.parse", run_query_parse);
    (B "query.iter", run_query_iter);
    (B "query.iter_v0", run_query_iter_v0);
    (B "query.iter.spec", run_query_iter_spec);
    (B "pathquery", run_pathquery);
    (B "stream.window", run_stream_window);
    (B "cc.kvarn", run_cc_kvarn);
    (B "c02.path", run_c02_path);
    (B "c02.ae", run_c02_ae);
    (B "explore.conn", run_explore);
    (B "explore.server", run_explore);
    (B "explore.file", run_explore);
    (B "explore.urls", run_explore);
    (B "explore.date", run_explore) ].
