(** C16 — run order of the extensions at request time: a small pipeline model of
    [Extensions::resolve_prime / resolve_prepare / resolve_present / resolve_package /
    resolve_post] (src/extensions.rs l.852-1012) in the order in which [handle_cache],
    [handle_request], [get_response] and [SendKind::send] (src/lib.rs) call them, for a host
    without response cache and with the file system disabled.
    Every extension is a marker: it logs an [event]; the model returns the event trace.
    The [resolve_*] functions take the extensions' behaviour as Coq functions (theorems hold
    for arbitrary behaviours); [serve] instantiates them from a fixture menu ([payload]) that
    exists a second time in the Rust harness (harness/src/c16pipe.rs).
    Definitions only; proofs live in Proofs/RunOrderProofs.v. *)
From KV Require Export Bytes Registry PresentLine.
Open Scope N_scope.

Inductive event : Type :=
| EPrime (prio : Z) (seen : bytes)          (* Prime extension with priority [prio] saw request path [seen] *)
| EPrepareSingle (key : bytes) (seen : bytes)
| EPrepareFn (prio : Z) (seen : bytes)
| EPresentFn (prio : Z)
| EPresentFile (ext : bytes)
| EPresentInternal (name : bytes) (args : list bytes)
| EPackage (prio : Z)
| EPost (prio : Z).

Definition OVERRIDE_PREFIX : bytes := Eval vm_compute in B "/./".

(** ---- resolve_prime ----
      let mut uri = None;
      for (_, prime) in &self.prime {
          if let Some(prime) = prime.call(request, host, address).await {
              if prime.path().starts_with("/./") { uri = Some(prime); } else { *request.uri_mut() = prime; }
          } }
      uri                                                                                   *)
Definition prime_ext := bytes -> option bytes.
Definition prime_apply (pr : prime_ext) (st : bytes * option bytes) : bytes * option bytes :=
  match pr (fst st) with
  | Some u => if starts_with OVERRIDE_PREFIX u then (fst st, Some u) else (u, snd st)
  | None => st
  end.
Fixpoint resolve_prime (primes : list (Z * prime_ext)) (st : bytes * option bytes)
  : (bytes * option bytes) * list event :=
  match primes with
  | [] => (st, [])
  | (i, pr) :: rest =>
      let '(st', tr) := resolve_prime rest (prime_apply pr st) in
      (st', EPrime i (fst st) :: tr)
  end.

(** ---- resolve_prepare ----
      if let Some(extension) = self.prepare_single.get(overide_uri.unwrap_or_else(|| request.uri()).path()) {
          Some(extension.call(..).await)
      } else {
          for (_, function, extension) in &self.prepare_fn {
              if function(request, host) { return Some(extension.call(..).await); } }
          None }                                                                            *)
Definition handler := bytes -> bytes.          (* request path -> response body *)
Fixpoint assoc {X} (k : bytes) (m : list (bytes * X)) : option X :=
  match m with
  | [] => None
  | (k', v) :: r => if beq k' k then Some v else assoc k r
  end.
Fixpoint first_match (fns : list (Z * ((bytes -> bool) * handler))) (path : bytes) : option (Z * handler) :=
  match fns with
  | [] => None
  | (i, (pred, h)) :: r => if pred path then Some (i, h) else first_match r path
  end.
Definition prepare_key (st : bytes * option bytes) : bytes :=
  match snd st with Some u => u | None => fst st end.
Definition resolve_prepare (single : list (bytes * handler)) (fns : list (Z * ((bytes -> bool) * handler)))
           (st : bytes * option bytes) : option bytes * list event :=
  match assoc (prepare_key st) single with
  | Some h => (Some (h (fst st)), [EPrepareSingle (prepare_key st) (fst st)])
  | None =>
      match first_match fns (fst st) with
      | Some (i, h) => (Some (h (fst st)), [EPrepareFn i (fst st)])
      | None => (None, [])
      end
  end.

(** ---- resolve_present ----
    [PresentExtensions::new(body)], [split_off(data_start)], then every present_fn whose
    predicate holds (priority order, empty arguments), then the present_file extension of the
    path's file extension, then the extensions named on the [!> ] line, in line order, that
    are registered in present_internal, each with its arguments.
    [Path::extension] on the domain of the fixture paths (segments of [a-z0-9.], no empty,
    [.] or [..] last segment): text after the last dot of the last segment unless that dot
    is the segment's first byte. *)
Definition SLASH : N := 47.
Definition DOT : N := 46.
Fixpoint last_segment (cur : bytes) (s : bytes) : bytes :=
  match s with
  | [] => rev cur
  | c :: r => if c =? SLASH then last_segment [] r else last_segment (c :: cur) r
  end.
Fixpoint after_last_dot (s : bytes) (found : option bytes) : option bytes :=
  match s with
  | [] => found
  | c :: r => if c =? DOT then after_last_dot r (Some r) else after_last_dot r found
  end.
Definition path_extension (path : bytes) : option bytes :=
  match last_segment [] path with
  | [] => None
  | c :: r => after_last_dot r None          (* a dot at index 0 does not start an extension *)
  end.
Definition bmem (k : bytes) (l : list bytes) : bool := existsb (fun x => beq x k) l.

Definition present_events (pfns : list (Z * (bytes -> bool))) (pfile pint : list bytes) (path : bytes)
           (entries : list (bytes * list bytes)) : list event :=
  map (fun x => EPresentFn (fst x)) (filter (fun x => snd x path) pfns)
  ++ (match path_extension path with
      | Some e => if bmem e pfile then [EPresentFile e] else []
      | None => []
      end)
  ++ map (fun e => EPresentInternal (fst e) (snd e)) (filter (fun e => bmem (fst e) pint) entries).

Definition resolve_present (parse : bytes -> outcome (option parsed))
           (pfns : list (Z * (bytes -> bool))) (pfile pint : list bytes) (path body : bytes)
  : outcome (bytes * list event) :=
  match parse body with
  | Panic => Panic
  | Err e => Err e
  | Ok None => Ok (body, present_events pfns pfile pint path [])
  | Ok (Some p) => Ok (p_body p, present_events pfns pfile pint path (p_entries p))
  end.

(** ---- resolve_package / resolve_post ----
      for (_, extension) in &self.package { extension.call(..).await; }
      for (_, extension) in self.post.iter().take(self.post.len().saturating_sub(1)) { .. }
      if let Some((_, extension)) = self.post.last() { .. }                                 *)
Definition resolve_package {X} (l : list (Z * X)) : list event := map (fun e => EPackage (fst e)) l.
Definition resolve_post {X} (l : list (Z * X)) : list event :=
  map (fun e => EPost (fst e)) (firstn (length l - 1) l)
  ++ match nth_error l (length l - 1) with       (* self.post.last() *)
     | Some e => [EPost (fst e)]
     | None => []
     end.

(** ---- one request ---- *)
Record behaviours : Type := {
  b_prime : list (Z * prime_ext);
  b_single : list (bytes * handler);
  b_prepare_fn : list (Z * ((bytes -> bool) * handler));
  b_present_fn : list (Z * (bytes -> bool));
  b_present_file : list bytes;
  b_present_internal : list bytes;
  b_package : list (Z * unit);
  b_post : list (Z * unit) }.

(** result: [Ok (status, body)] or [Panic] (connection closed without an answer), and the trace *)
Definition serve (parse : bytes -> outcome (option parsed)) (b : behaviours) (path : bytes)
  : outcome (N * bytes) * list event :=
  let '(st, tr1) := resolve_prime (b_prime b) (path, None) in
  let '(resp, tr2) := resolve_prepare (b_single b) (b_prepare_fn b) st in
  let '(status, body) := match resp with Some body => (200, body) | None => (404, []) end in
  match resolve_present parse (b_present_fn b) (b_present_file b) (b_present_internal b) (fst st) body with
  | Panic => (Panic, tr1 ++ tr2)
  | Err e => (Err e, tr1 ++ tr2)
  | Ok (body', tr3) => (Ok (status, body'), tr1 ++ tr2 ++ tr3 ++ resolve_package (b_package b) ++ resolve_post (b_post b))
  end.

(** ---- the fixture menu and the registry edits that build a host's [Extensions] ---- *)
Inductive payload : Type :=
| PPrime (from to : bytes)            (* rewrites the path [from] into [to]; [to] may start with /./ *)
| PPrepareFn (prefix body : bytes)    (* predicate: path starts with [prefix]; handler answers [body] *)
| PPresentFn (prefix : bytes)
| PMark.

Definition prime_of (p : payload) : prime_ext :=
  match p with
  | PPrime from to => fun path => if beq path from then Some to else None
  | _ => fun _ => None
  end.
Definition prepare_of (p : payload) : (bytes -> bool) * handler :=
  match p with
  | PPrepareFn prefix body => (starts_with prefix, fun _ => body)
  | _ => (fun _ => false, fun _ => [])
  end.
Definition present_of (p : payload) : bytes -> bool :=
  match p with
  | PPresentFn prefix => starts_with prefix
  | _ => fun _ => false
  end.

Record pconfig : Type := {
  pc_lists : list (list (Z * payload));      (* prime, prepare_fn, present_fn, package, post *)
  pc_single : list (bytes * bytes);          (* prepare_single: path -> body *)
  pc_internal : list bytes;
  pc_file : list bytes }.
Definition pconfig_empty : pconfig :=
  {| pc_lists := [[]; []; []; []; []]; pc_single := []; pc_internal := []; pc_file := [] |}.

Definition mapsnd {X Y K} (f : X -> Y) (l : list (K * X)) : list (K * Y) := map (fun e => (fst e, f (snd e))) l.
Definition behaviours_of (c : pconfig) : behaviours :=
  {| b_prime := mapsnd prime_of (nth 0 (pc_lists c) []);
     b_single := mapsnd (fun body => (fun _ : bytes => body)) (pc_single c);
     b_prepare_fn := mapsnd prepare_of (nth 1 (pc_lists c) []);
     b_present_fn := mapsnd present_of (nth 2 (pc_lists c) []);
     b_present_file := pc_file c;
     b_present_internal := pc_internal c;
     b_package := mapsnd (fun _ => tt) (nth 3 (pc_lists c) []);
     b_post := mapsnd (fun _ => tt) (nth 4 (pc_lists c) []) |}.

(** one edit: kind 0-4 sorted vectors (code 0 add, 1 add no_override, 2 remove), 5 prepare_single,
    6 present_internal, 7 present_file (code 0 insert, 2 remove).  A panicking edit leaves the value as it was. *)
Record pedit : Type := { pe_kind : nat; pe_code : N; pe_prio : Z; pe_key : bytes; pe_payload : payload; pe_body : bytes }.

Definition pconfig_step (stepf : list (Z * payload) -> op payload -> outcome (list (Z * payload)))
           (c : pconfig) (e : pedit) : pconfig :=
  if Nat.ltb (pe_kind e) 5 then
    let l := nth (pe_kind e) (pc_lists c) [] in
    let o := if N.eqb (pe_code e) 2 then Registry.Remove (pe_prio e) else Registry.Add (pe_prio e) (N.eqb (pe_code e) 1) (pe_payload e) in
    match stepf l o with
    | Ok l' => {| pc_lists := upd (pe_kind e) (fun _ => l') (pc_lists c); pc_single := pc_single c;
                  pc_internal := pc_internal c; pc_file := pc_file c |}
    | _ => c
    end
  else if Nat.eqb (pe_kind e) 5 then
    let m := filter (fun kv => negb (beq (fst kv) (pe_key e))) (pc_single c) in
    {| pc_lists := pc_lists c; pc_single := if N.eqb (pe_code e) 2 then m else (pe_key e, pe_body e) :: m;
       pc_internal := pc_internal c; pc_file := pc_file c |}
  else if Nat.eqb (pe_kind e) 6 then
    {| pc_lists := pc_lists c; pc_single := pc_single c;
       pc_internal := if N.eqb (pe_code e) 2 then key_remove (pe_key e) (pc_internal c) else key_insert (pe_key e) (pc_internal c);
       pc_file := pc_file c |}
  else
    {| pc_lists := pc_lists c; pc_single := pc_single c; pc_internal := pc_internal c;
       pc_file := if N.eqb (pe_code e) 2 then key_remove (pe_key e) (pc_file c) else key_insert (pe_key e) (pc_file c) |}.

Definition pconfig_build stepf (es : list pedit) : pconfig := fold_left (pconfig_step stepf) es pconfig_empty.

(** scenario: edits, then requests; implementation = the registry macros and the byte-level parser,
    specification = the reference map and the token-level reading of the line *)
Definition run_scenario stepf parse (es : list pedit) (paths : list bytes) : list (outcome (N * bytes) * list event) :=
  map (serve parse (behaviours_of (pconfig_build stepf es))) paths.
Definition scenario_model := run_scenario model_step present_parse.
Definition scenario_spec := run_scenario ref_step (fun d => Ok (spec_present d)).

(** ---- xval interface ---- *)
Definition x_event (e : event) : xval :=
  match e with
  | EPrime i s => XL [XN 0; x_Z i; XB s]
  | EPrepareSingle k s => XL [XN 1; XB k; XB s]
  | EPrepareFn i s => XL [XN 2; x_Z i; XB s]
  | EPresentFn i => XL [XN 3; x_Z i]
  | EPresentFile e => XL [XN 4; XB e]
  | EPresentInternal n a => XL [XN 5; XB n; x_list XB a]
  | EPackage i => XL [XN 6; x_Z i]
  | EPost i => XL [XN 7; x_Z i]
  end.
Definition x_reply (r : outcome (N * bytes) * list event) : xval :=
  XL [x_outcome (fun sb => XL [XN (fst sb); XB (snd sb)]) (fst r); x_list x_event (snd r)].

(** edit: (L kind code prio key (L payload-tag bytes bytes) body) *)
Definition d_payload (x : xval) : option payload :=
  match x with
  | XL [XN 0; XB f; XB t] => Some (PPrime f t)
  | XL [XN 1; XB p; XB b] => Some (PPrepareFn p b)
  | XL [XN 2; XB p] => Some (PPresentFn p)
  | XL [XN 3] => Some PMark
  | _ => None
  end.
Definition d_pedit (x : xval) : option pedit :=
  match x with
  | XL [XN k; XN c; p; XB key; pl; XB body] =>
      match d_Z p, d_payload pl with
      | Some p, Some pl =>
          if (k <? 8) && (c <? 3) then
            Some {| pe_kind := N.to_nat k; pe_code := c; pe_prio := p; pe_key := key; pe_payload := pl; pe_body := body |}
          else None
      | _, _ => None
      end
  | _ => None
  end.
Definition run_pipe_with (f : list pedit -> list bytes -> list (outcome (N * bytes) * list event)) (x : xval) : xval :=
  match x with
  | XL [es; ps] =>
      match d_list d_pedit es, d_list d_B ps with
      | Some es, Some ps => x_list x_reply (f es ps)
      | _, _ => bad_input
      end
  | _ => bad_input
  end.
Definition run_pipe := run_pipe_with scenario_model.
Definition run_pipe_spec := run_pipe_with scenario_spec.

Definition runorder_table : list (bytes * (xval -> xval)) :=
  [ (B "order.run", run_pipe);
    (B "order.spec", run_pipe_spec) ].
