(** C16 — run order of the extensions at request time: a pipeline model of
    [Extensions::resolve_prime / resolve_prepare / resolve_present / resolve_package /
    resolve_post] (src/extensions.rs) in the order in which [handle_cache], [get_response],
    [handle_request] and [SendKind::send] (src/lib.rs) call them — including the response
    cache ([handle_cache]'s hit arm skips Prepare and Present; Package and Post run in
    [SendKind::send], i.e. for every response, cached or not), the request's method (HEAD,
    other methods), [utils::sanitize_request] (an unsafe path or an inverted range skips Prepare,
    not Present / Package / Post), the [range] header applied in [send] before Package, and
    files served from the public directory (whose first line is read like a Prepare body).
    Every extension is a marker: it logs an [event]; the model returns the event trace.
    The [resolve_*] functions take the extensions' behaviour as Coq functions (theorems hold
    for arbitrary behaviours); [serve] instantiates them from a fixture menu ([payload]) that
    exists a second time in the Rust harness (harness/src/c16pipe.rs).
    Definitions only; proofs live in Proofs/RunOrderProofs.v; the declarative specification of
    the run order is Model/RunSpec.v. *)
From KV Require Export Bytes Registry PresentLine.
Open Scope N_scope.

Inductive event : Type :=
| EPrime (prio : Z) (seen : bytes)          (* Prime extension with priority [prio] saw the request URI [seen] (path and query) *)
| EPrepareSingle (key : bytes) (seen : bytes)
| EPrepareFn (prio : Z) (seen : bytes)
| EPresentFn (prio : Z)
| EPresentFile (ext : bytes)
| EPresentInternal (name : bytes) (args : list bytes)
| EPackage (prio : Z)
| EPost (prio : Z).

Definition OVERRIDE_PREFIX : bytes := Eval vm_compute in B "/./".

(** [Uri::path()] / [Uri::query()] of a request target [path?query] (no fragment; an empty
    query is no query for the cache key, [PathQuery::from]). *)
Definition QMARK : N := 63.
Fixpoint uri_path (u : bytes) : bytes :=
  match u with
  | [] => []
  | c :: r => if c =? QMARK then [] else c :: uri_path r
  end.
Fixpoint uri_query (u : bytes) : option bytes :=
  match u with
  | [] => None
  | c :: r => if c =? QMARK then (match r with [] => None | _ => Some r end) else uri_query r
  end.

(** ---- resolve_prime ----
      let mut uri = None;
      for (_, prime) in &self.prime {
          if let Some(prime) = prime.call(request, host, address).await {
              if prime.path().starts_with("/./") { uri = Some(prime); } else { *request.uri_mut() = prime; }
          } }
      uri                                                                                   *)
Definition prime_ext := bytes -> option bytes.
Definition prime_apply (pr : prime_ext) (st : bytes * option bytes) : bytes * option bytes :=
  match pr (fst st) with
  | Some u => if starts_with OVERRIDE_PREFIX u then (fst st, Some u) else (u, snd st)
  | None => st
  end.
Fixpoint resolve_prime (primes : list (Z * prime_ext)) (st : bytes * option bytes)
  : (bytes * option bytes) * list event :=
  match primes with
  | [] => (st, [])
  | (i, pr) :: rest =>
      let '(st', tr) := resolve_prime rest (prime_apply pr st) in
      (st', EPrime i (fst st) :: tr)
  end.

(** ---- resolve_prepare ----
      if let Some(extension) = self.prepare_single.get(overide_uri.unwrap_or_else(|| request.uri()).path()) {
          Some(extension.call(..).await)
      } else {
          for (_, function, extension) in &self.prepare_fn {
              if function(request, host) { return Some(extension.call(..).await); } }
          None }
    The response type [R] is arbitrary. *)
Fixpoint assoc {X} (k : bytes) (m : list (bytes * X)) : option X :=
  match m with
  | [] => None
  | (k', v) :: r => if beq k' k then Some v else assoc k r
  end.
Fixpoint first_match {R} (fns : list (Z * ((bytes -> bool) * (bytes -> R)))) (uri : bytes) : option (Z * (bytes -> R)) :=
  match fns with
  | [] => None
  | (i, (pred, h)) :: r => if pred uri then Some (i, h) else first_match r uri
  end.
Definition prepare_key (st : bytes * option bytes) : bytes :=
  uri_path (match snd st with Some u => u | None => fst st end).
Definition resolve_prepare {R} (single : list (bytes * (bytes -> R))) (fns : list (Z * ((bytes -> bool) * (bytes -> R))))
           (st : bytes * option bytes) : option R * list event :=
  match assoc (prepare_key st) single with
  | Some h => (Some (h (fst st)), [EPrepareSingle (prepare_key st) (fst st)])
  | None =>
      match first_match fns (fst st) with
      | Some (i, h) => (Some (h (fst st)), [EPrepareFn i (fst st)])
      | None => (None, [])
      end
  end.

(** ---- resolve_present ----
    [PresentExtensions::new(body)], [split_off(data_start)], then every present_fn whose
    predicate holds (priority order, empty arguments), then the present_file extension of the
    path's file extension, then the extensions named on the [!> ] line, in line order, that
    are registered in present_internal, each with its arguments.
    [Path::extension] on the domain of the fixture paths (segments of [a-z0-9.], no empty,
    [.] or [..] last segment, no percent-encoding): text after the last dot of the last segment
    unless that dot is the segment's first byte. *)
Definition SLASH : N := 47.
Definition DOT : N := 46.
Fixpoint last_segment (cur : bytes) (s : bytes) : bytes :=
  match s with
  | [] => rev cur
  | c :: r => if c =? SLASH then last_segment [] r else last_segment (c :: cur) r
  end.
Fixpoint after_last_dot (s : bytes) (found : option bytes) : option bytes :=
  match s with
  | [] => found
  | c :: r => if c =? DOT then after_last_dot r (Some r) else after_last_dot r found
  end.
Definition path_extension (path : bytes) : option bytes :=
  match last_segment [] path with
  | [] => None
  | c :: r => after_last_dot r None          (* a dot at index 0 does not start an extension *)
  end.
Definition bmem (k : bytes) (l : list bytes) : bool := existsb (fun x => beq x k) l.

(** [uri]: the request URI (what the predicates see); the file extension is taken from its path *)
Definition present_events (pfns : list (Z * (bytes -> bool))) (pfile pint : list bytes) (uri : bytes)
           (entries : list (bytes * list bytes)) : list event :=
  map (fun x => EPresentFn (fst x)) (filter (fun x => snd x uri) pfns)
  ++ (match path_extension (uri_path uri) with
      | Some e => if bmem e pfile then [EPresentFile e] else []
      | None => []
      end)
  ++ map (fun e => EPresentInternal (fst e) (snd e)) (filter (fun e => bmem (fst e) pint) entries).

Definition resolve_present (parse : bytes -> outcome (option parsed))
           (pfns : list (Z * (bytes -> bool))) (pfile pint : list bytes) (uri body : bytes)
  : outcome (bytes * list event) :=
  match parse body with
  | Panic => Panic
  | Err e => Err e
  | Ok None => Ok (body, present_events pfns pfile pint uri [])
  | Ok (Some p) => Ok (p_body p, present_events pfns pfile pint uri (p_entries p))
  end.

(** ---- resolve_package / resolve_post ----
      for (_, extension) in &self.package { extension.call(..).await; }
      for (_, extension) in self.post.iter().take(self.post.len().saturating_sub(1)) { .. }
      if let Some((_, extension)) = self.post.last() { .. }                                 *)
Definition resolve_package {X} (l : list (Z * X)) : list event := map (fun e => EPackage (fst e)) l.
Definition resolve_post {X} (l : list (Z * X)) : list event :=
  map (fun e => EPost (fst e)) (firstn (length l - 1) l)
  ++ match nth_error l (length l - 1) with       (* self.post.last() *)
     | Some e => [EPost (fst e)]
     | None => []
     end.

(** ---- one request ---- *)
(** what a Prepare extension answers: the body (status 200) and the server cache preference
    (0 [ServerCachePreference::None], 1 [Full], 2 [QueryMatters]); 3: the answer carries a [future]
    ([FatResponse::with_future], a streamed body of unknown length) that writes [STREAM_TAIL] after the body *)
Record presp : Type := { pr_body : bytes; pr_pref : N }.
Definition handler := bytes -> presp.          (* request URI -> response *)

Record behaviours : Type := {
  b_prime : list (Z * prime_ext);
  b_single : list (bytes * handler);
  b_prepare_fn : list (Z * ((bytes -> bool) * handler));
  b_present_fn : list (Z * (bytes -> bool));
  b_present_file : list bytes;
  b_present_internal : list bytes;
  b_package : list (Z * unit);
  b_post : list (Z * unit) }.

(** the host: its extensions, whether it has a response cache, and the files of its public
    directory ([None]: [Options::disable_fs]) keyed by request path *)
Record hostcfg : Type := { h_b : behaviours; h_cache : bool; h_files : option (list (bytes * bytes)) }.

(** the request: method (0 GET, 1 HEAD, anything else: another method), target, [range: bytes=s-e] *)
Record creq : Type := { q_method : N; q_uri : bytes; q_range : option (N * N) }.
Definition is_get_head (m : N) : bool := (m =? 0) || (m =? 1).

(** [utils::sanitize_request] (paths without percent-encoding):
      path_ok = !(path.contains("./") || !path.starts_with('/')) && Path::new(&path[1..]).is_relative()
      range (s, e): s > e => Err(RangeNotSatisfiable), else Some((s, e + 1))                 *)
Inductive san : Type := SanOk (range : option (N * N)) | SanUnsafe | SanRange.
Definition DOTSLASH : bytes := Eval vm_compute in B "./".
Definition path_ok (p : bytes) : bool :=
  negb (contains_sub DOTSLASH p) && starts_with [SLASH] p && negb (starts_with [SLASH; SLASH] p).
Definition sanitize (r : creq) : san :=
  if negb (path_ok (uri_path (q_uri r))) then SanUnsafe else
  match q_range r with
  | Some (s, e) => if e <? s then SanRange else SanOk (Some (s, e + 1))
  | None => SanOk None
  end.

(** the response cache: [UriKey::Path(path)] and [UriKey::PathQuery(path, query)] are different
    keys; a look-up tries PathQuery, then Path ([handle_cache]); what is stored is the response
    after Present (status, body). *)
Inductive ckey : Type := KPath (p : bytes) | KPQ (p : bytes) (q : option bytes).
Definition ckey_eqb (a c : ckey) : bool :=
  match a, c with
  | KPath p, KPath p' => beq p p'
  | KPQ p q, KPQ p' q' => beq p p' && match q, q' with Some x, Some y => beq x y | None, None => true | _, _ => false end
  | _, _ => false
  end.
Definition centry := (N * bytes)%type.
Definition cache := list (ckey * centry).
Fixpoint cget (k : ckey) (c : cache) : option centry :=
  match c with
  | [] => None
  | (k', v) :: r => if ckey_eqb k' k then Some v else cget k r
  end.
Definition cput (k : ckey) (v : centry) (c : cache) : cache :=
  (k, v) :: filter (fun e => negb (ckey_eqb (fst e) k)) c.
(** [host::default_status_code_cache_filter] *)
Definition cacheable_status (s : N) : bool :=
  negb (((400 <=? s) && (s <=? 403)) || ((405 <=? s) && (s <=? 409)) || ((411 <=? s) && (s <=? 499))
        || ((100 <=? s) && (s <=? 199)) || (s =? 304)).

(** [handle_request]: Prepare, else the file (GET and HEAD only), else the error page *)
Definition fallback_response (h : hostcfg) (method : N) (uri : bytes) : N * bytes * N :=
  match h_files h with
  | None => (404, [], 1)
  | Some files =>
      if is_get_head method then
        match assoc (uri_path uri) files with
        | Some content => (200, content, 1)
        | None => (404, [], 1)
        end
      else (405, [], 1)
  end.
Definition response_of (h : hostcfg) (method : N) (uri : bytes) (resp : option presp) : N * bytes * N :=
  match resp with
  | Some r => (200, pr_body r, pr_pref r)
  | None => fallback_response h method uri
  end.
Definition handle_request (h : hostcfg) (method : N) (st : bytes * option bytes) : (N * bytes * N) * list event :=
  let '(resp, tr) := resolve_prepare (b_single (h_b h)) (b_prepare_fn (h_b h)) st in
  (response_of h method (fst st) resp, tr).

(** [SendKind::send]: the range of the request is applied (an unsatisfiable one replaces the
    response by the 416 page), then every Package extension, the head, the body unless HEAD,
    then every Post extension.  Error pages are modelled with an empty body. *)
Definition apply_range (s : san) (sb : N * bytes) : N * bytes :=
  let '(status, body) := sb in
  match s with
  | SanOk (Some (rs, re)) =>
      if status =? 304 then (status, body) else
      let len := N.of_nat (length body) in
      if len <=? rs then (416, [])
      else ((if status =? 200 then 206 else status), slice (N.to_nat rs) (N.to_nat (N.min re len)) body)
  | _ => (status, body)
  end.
(** what the client reads: no body after HEAD *)
Definition client_view (method : N) (sb : N * bytes) : N * bytes := (fst sb, if method =? 1 then [] else snd sb).
(** a response with a [future]: no range is applied ([is_stream]), the future writes after the body — not
    for HEAD —, then the Post extensions run; such a response is never cached *)
Definition STREAM_TAIL : bytes := Eval vm_compute in B "+streamed".
Definition is_stream (pref : N) : bool := pref =? 3.
Definition respond (method : N) (s : san) (pref : N) (sb : N * bytes) : N * bytes :=
  if is_stream pref then client_view method (fst sb, snd sb ++ STREAM_TAIL)
  else client_view method (apply_range s sb).
Definition send (b : behaviours) (method : N) (s : san) (pref : N) (sb : N * bytes) : (N * bytes) * list event :=
  (respond method s pref sb, resolve_package (b_package b) ++ resolve_post (b_post b)).

(** the cache look-up and the decision to store of [handle_cache] / [maybe_cache]; [st]: request URI
    and override URI after the Prime extensions *)
Definition key_uri (st : bytes * option bytes) : bytes := match snd st with Some u => u | None => fst st end.
Definition cache_hit (h : hostcfg) (c : cache) (s : san) (method : N) (kuri : bytes) : option centry :=
  let cached :=
    if h_cache h then
      match cget (KPQ (uri_path kuri) (uri_query kuri)) c with
      | Some v => Some v
      | None => cget (KPath (uri_path kuri)) c
      end
    else None in
  match cached, s with
  | Some v, SanOk _ => if is_get_head method then Some v else None
  | _, _ => None
  end.
Definition cache_store (h : hostcfg) (c : cache) (method : N) (kuri : bytes) (pref status : N) (body : bytes) : cache :=
  if h_cache h && negb (pref =? 0) && negb (is_stream pref) && is_get_head method && cacheable_status status
  then cput (if pref =? 2 then KPQ (uri_path kuri) (uri_query kuri) else KPath (uri_path kuri)) (status, body) c
  else c.

(** [handle_cache] + [SendKind::send]. Result: [Ok (status, body)] as the client reads it or
    [Panic] (connection closed without an answer), the trace, and the cache afterwards. *)
Definition serve (parse : bytes -> outcome (option parsed)) (h : hostcfg) (c : cache) (r : creq)
  : (outcome (N * bytes) * list event) * cache :=
  let b := h_b h in
  let s := sanitize r in
  let '(st, tr1) := resolve_prime (b_prime b) (q_uri r, None) in
  match cache_hit h c s (q_method r) (key_uri st) with
  | Some sb =>
      let '(reply, tr4) := send b (q_method r) s 1 sb in
      ((Ok reply, tr1 ++ tr4), c)
  | None =>
      let '((status, body, pref), tr2) :=
        match s with
        | SanOk _ => handle_request h (q_method r) st
        | SanUnsafe => ((400, [], 1), [])
        | SanRange => ((416, [], 1), [])
        end in
      match resolve_present parse (b_present_fn b) (b_present_file b) (b_present_internal b) (fst st) body with
      | Panic => ((Panic, tr1 ++ tr2), c)
      | Err e => ((Err e, tr1 ++ tr2), c)
      | Ok (body', tr3) =>
          let '(reply, tr4) := send b (q_method r) s pref (status, body') in
          ((Ok reply, tr1 ++ tr2 ++ tr3 ++ tr4), cache_store h c (q_method r) (key_uri st) pref status body')
      end
  end.

(** a history of requests on one host, the cache empty at the start *)
Fixpoint serve_all parse (h : hostcfg) (c : cache) (rs : list creq) : list (outcome (N * bytes) * list event) :=
  match rs with
  | [] => []
  | r :: rest => let '(reply, c') := serve parse h c r in reply :: serve_all parse h c' rest
  end.

(** ---- the fixture menu and the registry edits that build a host's [Extensions] ---- *)
Inductive payload : Type :=
| PPrime (from to : bytes)            (* rewrites a URI whose path is [from] into [to]; [to] may start with /./ *)
| PPrepareFn (prefix body : bytes) (pref : N)   (* predicate: path starts with [prefix]; handler answers [body] with cache preference [pref] *)
| PPresentFn (prefix : bytes)
| PMark.

Definition prime_of (p : payload) : prime_ext :=
  match p with
  | PPrime from to => fun uri => if beq (uri_path uri) from then Some to else None
  | _ => fun _ => None
  end.
Definition prepare_of (p : payload) : (bytes -> bool) * handler :=
  match p with
  | PPrepareFn prefix body pref => (fun uri => starts_with prefix (uri_path uri), fun _ => {| pr_body := body; pr_pref := pref |})
  | _ => (fun _ => false, fun _ => {| pr_body := []; pr_pref := 0 |})
  end.
Definition present_of (p : payload) : bytes -> bool :=
  match p with
  | PPresentFn prefix => fun uri => starts_with prefix (uri_path uri)
  | _ => fun _ => false
  end.

(** every registered closure carries a mark (the index of the edit that registered it): the
    marker extensions of the harness log it, so that "an equal priority / an equal key replaces"
    is observed on the closure that runs, not only on the listing *)
Record pconfig : Type := {
  pc_lists : list (list (Z * (N * payload)));      (* prime, prepare_fn, present_fn, package, post *)
  pc_single : list (bytes * (N * presp));          (* prepare_single: path -> mark, response *)
  pc_internal : list (bytes * N);                  (* present_internal: name -> mark *)
  pc_file : list (bytes * N) }.                    (* present_file: file extension -> mark *)
Definition pconfig_empty : pconfig :=
  {| pc_lists := [[]; []; []; []; []]; pc_single := []; pc_internal := []; pc_file := [] |}.

Definition mapsnd {X Y K} (f : X -> Y) (l : list (K * X)) : list (K * Y) := map (fun e => (fst e, f (snd e))) l.
Definition behaviours_of (c : pconfig) : behaviours :=
  {| b_prime := mapsnd (fun mp => prime_of (snd mp)) (nth 0 (pc_lists c) []);
     b_single := mapsnd (fun mr => (fun _ : bytes => snd mr)) (pc_single c);
     b_prepare_fn := mapsnd (fun mp => prepare_of (snd mp)) (nth 1 (pc_lists c) []);
     b_present_fn := mapsnd (fun mp => present_of (snd mp)) (nth 2 (pc_lists c) []);
     b_present_file := map fst (pc_file c);
     b_present_internal := map fst (pc_internal c);
     b_package := mapsnd (fun _ => tt) (nth 3 (pc_lists c) []);
     b_post := mapsnd (fun _ => tt) (nth 4 (pc_lists c) []) |}.

(** [HashMap::insert] / [HashMap::remove] on an association list *)
Definition map_remove {X} (k : bytes) (m : list (bytes * X)) : list (bytes * X) :=
  filter (fun kv => negb (beq (fst kv) k)) m.
Definition map_insert {X} (k : bytes) (v : X) (m : list (bytes * X)) : list (bytes * X) := (k, v) :: map_remove k m.

(** one edit: kind 0-4 sorted vectors (code 0 add, 1 add no_override, 2 remove), 5 prepare_single,
    6 present_internal, 7 present_file (code 0 insert, 2 remove).  A panicking edit leaves the value as it was. *)
Record pedit : Type := { pe_kind : nat; pe_code : N; pe_prio : Z; pe_key : bytes; pe_payload : payload; pe_body : bytes; pe_pref : N }.

Definition pconfig_step (stepf : list (Z * (N * payload)) -> op (N * payload) -> outcome (list (Z * (N * payload))))
           (c : pconfig) (me : N * pedit) : pconfig :=
  let '(mark, e) := me in
  if Nat.ltb (pe_kind e) 5 then
    let l := nth (pe_kind e) (pc_lists c) [] in
    let o := if N.eqb (pe_code e) 2 then Registry.Remove (pe_prio e)
             else Registry.Add (pe_prio e) (N.eqb (pe_code e) 1) (mark, pe_payload e) in
    match stepf l o with
    | Ok l' => {| pc_lists := upd (pe_kind e) (fun _ => l') (pc_lists c); pc_single := pc_single c;
                  pc_internal := pc_internal c; pc_file := pc_file c |}
    | _ => c
    end
  else if Nat.eqb (pe_kind e) 5 then
    {| pc_lists := pc_lists c;
       pc_single := if N.eqb (pe_code e) 2 then map_remove (pe_key e) (pc_single c)
                    else map_insert (pe_key e) (mark, {| pr_body := pe_body e; pr_pref := pe_pref e |}) (pc_single c);
       pc_internal := pc_internal c; pc_file := pc_file c |}
  else if Nat.eqb (pe_kind e) 6 then
    {| pc_lists := pc_lists c; pc_single := pc_single c;
       pc_internal := if N.eqb (pe_code e) 2 then map_remove (pe_key e) (pc_internal c) else map_insert (pe_key e) mark (pc_internal c);
       pc_file := pc_file c |}
  else
    {| pc_lists := pc_lists c; pc_single := pc_single c; pc_internal := pc_internal c;
       pc_file := if N.eqb (pe_code e) 2 then map_remove (pe_key e) (pc_file c) else map_insert (pe_key e) mark (pc_file c) |}.

Fixpoint number {X} (i : N) (l : list X) : list (N * X) :=
  match l with
  | [] => []
  | x :: r => (i, x) :: number (i + 1) r
  end.
Definition pconfig_build stepf (es : list pedit) : pconfig := fold_left (pconfig_step stepf) (number 0 es) pconfig_empty.

(** scenario: edits, then a history of requests on the host (cache on/off, files); implementation = the
    registry macros and the byte-level parser, specification = the reference map and the token-level
    reading of the line *)
Record hostopts : Type := { o_cache : bool; o_files : option (list (bytes * bytes)) }.
Definition host_of (c : pconfig) (o : hostopts) : hostcfg :=
  {| h_b := behaviours_of c; h_cache := o_cache o; h_files := o_files o |}.
Definition run_scenario stepf parse (es : list pedit) (o : hostopts) (rs : list creq)
  : pconfig * list (outcome (N * bytes) * list event) :=
  let c := pconfig_build stepf es in
  (c, serve_all parse (host_of c o) [] rs).
Definition scenario_model := run_scenario model_step present_parse.
Definition scenario_spec := run_scenario ref_step (fun d => Ok (spec_present d)).

(** ---- xval interface ---- *)
(** the mark of the closure registered at a priority / under a key (what the harness' marker logs) *)
Definition NO_MARK : N := 4294967295.
Definition mark_at (c : pconfig) (kind : nat) (i : Z) : N :=
  match ref_get (nth kind (pc_lists c) []) i with Some mp => fst mp | None => NO_MARK end.
Definition mark_of {X} (m : list (bytes * X)) (f : X -> N) (k : bytes) : N :=
  match assoc k m with Some v => f v | None => NO_MARK end.
Definition x_event (c : pconfig) (e : event) : xval :=
  match e with
  | EPrime i s => XL [XN 0; x_Z i; XN (mark_at c 0 i); XB s]
  | EPrepareSingle k s => XL [XN 1; XB k; XN (mark_of (pc_single c) fst k); XB s]
  | EPrepareFn i s => XL [XN 2; x_Z i; XN (mark_at c 1 i); XB s]
  | EPresentFn i => XL [XN 3; x_Z i; XN (mark_at c 2 i)]
  | EPresentFile e => XL [XN 4; XB e; XN (mark_of (pc_file c) (fun m => m) e)]
  (* the arguments as [iter()] yields them and as [iter().rev()] does *)
  | EPresentInternal n a => XL [XN 5; XB n; XN (mark_of (pc_internal c) (fun m => m) n); x_list XB a; x_list XB (rev a)]
  | EPackage i => XL [XN 6; x_Z i; XN (mark_at c 3 i)]
  | EPost i => XL [XN 7; x_Z i; XN (mark_at c 4 i)]
  end.
Definition x_reply (c : pconfig) (r : outcome (N * bytes) * list event) : xval :=
  XL [x_outcome (fun sb => XL [XN (fst sb); XB (snd sb)]) (fst r); x_list (x_event c) (snd r)].

(** edit: (L kind code prio key (L payload-tag bytes bytes [pref]) body [pref]) *)
Definition d_payload (x : xval) : option payload :=
  match x with
  | XL [XN 0; XB f; XB t] => Some (PPrime f t)
  | XL [XN 1; XB p; XB b] => Some (PPrepareFn p b 0)
  | XL [XN 1; XB p; XB b; XN pref] => if pref <? 4 then Some (PPrepareFn p b pref) else None
  | XL [XN 2; XB p] => Some (PPresentFn p)
  | XL [XN 3] => Some PMark
  | _ => None
  end.
Definition mk_pedit (k c : N) (p : xval) (key : bytes) (pl : xval) (body : bytes) (pref : N) : option pedit :=
  match d_Z p, d_payload pl with
  | Some p, Some pl =>
      if (k <? 8) && (c <? 3) && (pref <? 4) then
        Some {| pe_kind := N.to_nat k; pe_code := c; pe_prio := p; pe_key := key; pe_payload := pl; pe_body := body; pe_pref := pref |}
      else None
  | _, _ => None
  end.
Definition d_pedit (x : xval) : option pedit :=
  match x with
  | XL [XN k; XN c; p; XB key; pl; XB body] => mk_pedit k c p key pl body 0
  | XL [XN k; XN c; p; XB key; pl; XB body; XN pref] => mk_pedit k c p key pl body pref
  | _ => None
  end.
(** request: (B path) = GET path, or (L method (B target) (L) | (L s e)) *)
Definition d_creq (x : xval) : option creq :=
  match x with
  | XB p => Some {| q_method := 0; q_uri := p; q_range := None |}
  | XL [XN m; XB u; XL []] => Some {| q_method := m; q_uri := u; q_range := None |}
  | XL [XN m; XB u; XL [XN s; XN e]] => Some {| q_method := m; q_uri := u; q_range := Some (s, e) |}
  | _ => None
  end.
Definition d_file (x : xval) : option (bytes * bytes) :=
  match x with XL [XB p; XB c] => Some (p, c) | _ => None end.
(** options: (L cache (L) | (L (L (L path content)...))) *)
Definition d_opts (x : xval) : option hostopts :=
  match x with
  | XL [c; XL []] => match d_bool c with Some c => Some {| o_cache := c; o_files := None |} | None => None end
  | XL [c; XL [fs]] =>
      match d_bool c, d_list d_file fs with
      | Some c, Some fs => Some {| o_cache := c; o_files := Some fs |}
      | _, _ => None
      end
  | _ => None
  end.
Definition run_pipe_with (f : list pedit -> hostopts -> list creq -> pconfig * list (outcome (N * bytes) * list event)) (x : xval) : xval :=
  let go es o rs :=
    match d_list d_pedit es, o, d_list d_creq rs with
    | Some es, Some o, Some rs => let '(c, replies) := f es o rs in x_list (x_reply c) replies
    | _, _, _ => bad_input
    end in
  match x with
  | XL [es; rs] => go es (Some {| o_cache := false; o_files := None |}) rs
  | XL [es; rs; o] => go es (d_opts o) rs
  | _ => bad_input
  end.
Definition run_pipe := run_pipe_with scenario_model.
Definition run_pipe_spec := run_pipe_with scenario_spec.

Definition runorder_table : list (bytes * (xval -> xval)) :=
  [ (B "order.run", run_pipe);
    (B "order.spec", run_pipe_spec) ].
