(** C10 — the start-up program of [RunConfig::execute] (src/lib.rs, non-uring branch) interleaved
    with the traffic of the accept loops it has already started.  Definitions only; proofs are in
    Proofs/ShutdownBootProofs.v.

    [execute] does, for every listener in turn (the code as it is after fix 76d8d4f):

        let listening = ConnectionGuard::new(&shutdown_manager);   (count += 1)          [BCount]
        let listener  = listener();                                 (socket, bind, listen) [BBind]
        spawn(async move { let _listening = listening; accept(listener, ..).await })      [BSpawn]

    and returns the manager afterwards: nobody can call [shutdown()], [wait_for_pre_shutdown()] or
    [wait()] before that.  The accept task of listener 0 is running (and may accept, count, spawn and
    finish connections) while listener 1 is still to be counted, bound and spawned; a listener that
    is bound but not yet spawned already queues connections in the kernel.

    Model/Shutdown.v starts from [init repaired nl ..]: every accept loop counted, bound and about to
    poll.  This file is the machine BEFORE that state; Proofs/ShutdownBootProofs.v shows that every
    state it reaches is — once the listeners still to come are put at the top of their loop and their
    counts are added — a reachable state of Model/Shutdown.v ([boot_refines]), so the theorems of
    C10 hold for every interleaving of the start-up program with traffic. *)
From KV Require Export Bytes Shutdown.
Open Scope nat_scope.

(** what [execute] does next for listener number [b_k] (its loop index) *)
Inductive bph : Type := BCount | BBind | BSpawn.

Record bstate : Type := {
  b_nl : nat;      (* number of listeners [execute] has to start *)
  b_k : nat;       (* how many it has started (counted, bound, spawned) *)
  b_ph : bph;
  b_q : nat;       (* connections queued on the listener that is bound but whose task is not spawned yet *)
  b_in : state     (* the manager, the accept loops spawned so far and their connection tasks *)
}.

Inductive blabel : Type :=
| BExec              (* [execute]: its next action *)
| BEnv               (* environment: a client connects to the bound, not yet spawned listener *)
| BIn (lb : label).  (* a step of a spawned accept loop / a connection task / a client of theirs *)

(** the threads that exist before [execute] has returned *)
Definition boot_label (lb : label) : bool :=
  match lb with LStep _ | LTake _ | EConn _ | CStep _ | CPanic _ => true | _ => false end.

(** [execute] has started every listener (and returns the manager) *)
Definition b_done (w : bstate) : bool := Nat.leb (b_nl w) (b_k w).

Definition with_in (w : bstate) (k : nat) (p : bph) (q : nat) (s : state) : bstate :=
  {| b_nl := b_nl w; b_k := k; b_ph := p; b_q := q; b_in := s |}.

Definition spawned_listener (q : nat) : listener := {| l_pc := LTop; l_slot := false; l_woken := false; l_queue := q |}.

Definition bstep (w : bstate) (lb : blabel) : option bstate :=
  match lb with
  | BExec =>
      if b_done w then None else
      match b_ph w with
      | BCount => Some (with_in w (b_k w) BBind 0 (with_C (b_in w) (gC (b_in w) + 1)%Z))
      | BBind => Some (with_in w (b_k w) BSpawn 0 (b_in w))
      | BSpawn => Some (with_in w (S (b_k w)) BCount 0 (with_ls (b_in w) (ls (b_in w) ++ [spawned_listener (b_q w)])))
      end
  | BEnv =>
      if b_done w then None else
      match b_ph w with
      | BSpawn => Some (with_in w (b_k w) BSpawn (S (b_q w)) (b_in w))
      | _ => None
      end
  | BIn lb =>
      if boot_label lb
      then match step repaired (b_in w) lb with Some s' => Some (with_in w (b_k w) (b_ph w) (b_q w) s') | None => None end
      else None
  end.

(** a fresh manager: no listener yet, count 0; the [nc] callers, [nh] hooks and [nw] waiters are the
    threads that will get the manager when [execute] has returned *)
Definition binit (nl nc nh nw : nat) : bstate :=
  {| b_nl := nl; b_k := 0; b_ph := BCount; b_q := 0; b_in := init repaired 0 nc nh nw |}.

Fixpoint brun (w : bstate) (sched : list blabel) : option bstate :=
  match sched with
  | [] => Some w
  | lb :: r => match bstep w lb with Some w' => brun w' r | None => None end
  end.

Inductive breachable (nl nc nh nw : nat) : bstate -> Prop :=
| breach_init : breachable nl nc nh nw (binit nl nc nh nw)
| breach_step w lb w' : breachable nl nc nh nw w -> bstep w lb = Some w' -> breachable nl nc nh nw w'.

(** ---- the state of Model/Shutdown.v that a start-up state stands for ------------------------ *)
(** the listeners still to come, as accept loops that have not moved yet *)
Definition pending (w : bstate) : list listener :=
  match b_ph w with
  | BSpawn => spawned_listener (b_q w) :: repeat new_listener (b_nl w - b_k w - 1)
  | _ => repeat new_listener (b_nl w - b_k w)
  end.
(** how many of them [execute] has not counted yet *)
Definition uncounted (w : bstate) : nat :=
  match b_ph w with BCount => b_nl w - b_k w | _ => b_nl w - b_k w - 1 end.

Definition extend (s : state) (p : list listener) (u : Z) : state :=
  {| gS := gS s; gD := gD s; gC := (gC s + u)%Z; init_sent := init_sent s; pre_count := pre_count s; pre_sent := pre_sent s;
     want := want s; acks := acks s; received := received s; finished := finished s; comp := comp s;
     ls := ls s ++ p; cs := cs s; callers := callers s; hooks := hooks s; waiters := waiters s |}.

Definition flat (w : bstate) : state := extend (b_in w) (pending w) (Z.of_nat (uncounted w)).

(** ---- xval interface: start-up schedule, then a schedule of Model/Shutdown.v ------------------- *)
Definition x_bph (p : bph) : N := match p with BCount => 0 | BBind => 1 | BSpawn => 2 end%N.

(** what the harness can observe while [execute] has not returned (it has no handle on the manager
    yet: no count, no flag): what execute will do next, how many accept tasks exist, program counters *)
Definition x_bobs (w : bstate) : xval :=
  XL [XN (x_bph (b_ph w)); XN (N.of_nat (b_k w));
      XL (map (fun l => XN (x_lpc (l_pc l))) (ls (b_in w)));
      XL (map (fun p => XN (x_cpc p)) (cs (b_in w)))].

Definition d_blabel (x : xval) : option blabel :=
  match x with
  | XL [XN 9; XN _] => Some BExec
  | XL [XN 10; XN _] => Some BEnv
  | _ => match d_label x with
         | Some lb => if boot_label lb then Some (BIn lb) else None
         | None => None
         end
  end%N.

Fixpoint btrace (w : bstate) (sched : list blabel) : list xval :=
  match sched with
  | [] => []
  | lb :: r => match bstep w lb with Some w' => x_bobs w' :: btrace w' r | None => [XL [XN 77]] end
  end.

(** input (L (L nl nc nh nw) (L start-up label ...) (L label ...));
    output (L (L start-up obs ...) (L obs ...) final): the second and third part as in [run_replay], from the
    state in which [execute] returned; empty when the start-up schedule does not end there *)
Definition run_bootreplay (x : xval) : xval :=
  match x with
  | XL [XL [XN nl; XN nc; XN nh; XN nw]; xb; xs] =>
      match d_list d_blabel xb, d_list d_label xs with
      | Some bsched, Some sched =>
          if small nl && small nc && small nh && small nw then
            let w0 := binit (N.to_nat nl) (N.to_nat nc) (N.to_nat nh) (N.to_nat nw) in
            let bobs := btrace w0 bsched in
            match brun w0 bsched with
            | Some w1 =>
                if b_done w1 then
                  let s0 := b_in w1 in
                  let obs := trace repaired s0 sched in
                  match run repaired s0 sched with
                  | Some s1 => XL [XL bobs; XL obs; x_final (drain repaired (400 + 40 * length sched) s1)]
                  | None => XL [XL bobs; XL obs; XL []]
                  end
                else XL [XL bobs; XL []; XL []]
            | None => XL [XL bobs; XL []; XL []]
            end
          else bad_input
      | _, _ => bad_input
      end
  | _ => bad_input
  end.

(** the property's two clauses on the same run (cf. [run_spec]); [(L)] when the start-up schedule is not enabled
    to its end or does not end with [execute] returning *)
Definition run_bootspec (x : xval) : xval :=
  match x with
  | XL [XL [XN nl; XN nc; XN nh; XN nw]; xb; xs] =>
      match d_list d_blabel xb, d_list d_label xs with
      | Some bsched, Some sched =>
          if small nl && small nc && small nh && small nw then
            match brun (binit (N.to_nat nl) (N.to_nat nc) (N.to_nat nh) (N.to_nat nw)) bsched with
            | Some w1 =>
                if b_done w1 then
                  let s0 := b_in w1 in
                  match run repaired s0 sched with
                  | Some s1 =>
                      let s2 := drain repaired (400 + 40 * length sched) s1 in
                      XL [x_bool (clause1 repaired s0 sched && (negb (finished s2) || all_done s2));
                          x_bool (negb (requested s2) || completed s2)]
                  | None => XL []
                  end
                else XL []
            | None => XL []
            end
          else bad_input
      | _, _ => bad_input
      end
  | _ => bad_input
  end.

Definition shutdownboot_table : list (bytes * (xval -> xval)) :=
  [ (B "shutdown.bootreplay", run_bootreplay);
    (B "shutdown.bootspec", run_bootspec) ].
