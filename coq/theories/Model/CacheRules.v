(** C03 — the vary rule set of a host as the response cache sees it ([Host::vary], an [extensions::RuleSet<vary::Settings>];
    [Vary::rules_from_path] = [RuleSet::get]): Model/CacheX.v [rules_for_x] reads it through the rule-set model of
    Model/RuleSet.v (C14).  Here: the comparator of the seeded change C03-7, for the witness that the order of the two
    criteria (exact before wildcard FIRST, then the longer pattern) is needed.  Definitions only. *)
From KV Require Export Bytes RustInt Range CacheControl Cache Fixture CacheX.
From KV Require Import RuleSetStd RuleSet.
Open Scope N_scope.

(** [sort_unstable_by_key(|(path, _)| (Reverse(path.len()), path.ends_with('*')))]: the length decides, exact before
    wildcard only breaks ties *)
Definition rule_cmp_len_first {R : Type} (a b : bytes * R) : comparison :=
  match Nat.compare (length (fst b)) (length (fst a)) with
  | Eq => if Bool.eqb (ends_with_star (fst a)) (ends_with_star (fst b)) then Eq
          else if ends_with_star (fst a) then Gt else Lt
  | c => c
  end.
Definition rs_add_len_first {R : Type} (rules : ruleset R) (path : bytes) (rule : R) : ruleset R :=
  insertion_sort_by rule_cmp_len_first (rs_unsorted_add rules path rule).
Definition rules_for_len_first (p : bytes) (rules : list (bytes * list vrule)) : list vrule :=
  match rs_get (rs_build rs_add_len_first rules) p with Some rs => rs | None => [] end.

(** the page "/lang" varies on x-w (exact rule), everything else under "/lang" on x-v (pattern "/lang*") *)
Definition w8_rules : list (bytes * list vrule) := [(B "/lang", [(B "x-w", 0, B "dw")]); (B "/lang*", [(B "x-v", 0, B "dv")])].
Definition w8_req (w : bytes) : request := mkReq M_GET (B "/lang") None [(B "x-w", w)] 1.

(** ---- the configurations of the fixture menu whose handlers honour the cache contract BY THEOREM
    (Proofs/CacheFixtureProofs.v [fixture_contract]) ----
    - no counting handler (kind 2: its body depends on handler state),
    - a handler that echoes the request's path and query (kind 1) declares QueryMatters and is not bound to an internal
      route a Prime can override the URI with (it would echo the URI of the page the route was taken for),
    - a handler that echoes a transformed header tuple (kind 3) echoes exactly the rules that apply to its path in the
      host's vary rule set (exact rule, else the longest pattern: [rules_for_x]),
    - static (kind 0) and method-class (kind 4) handlers are always fine; any status, headers, preference,
    - no extended (switch / stream) handlers: their selection by a raw header value is outside this theorem,
    - the model of the repaired code (all [fix_*] flags on). *)
Definition vrule_eqb (a c : vrule) : bool :=
  let '(n, xf, d) := a in let '(n', xf', d') := c in beq n n' && (xf =? xf') && beq d d'.
Fixpoint vrules_eqb (a c : list vrule) : bool :=
  match a, c with
  | [], [] => true
  | x :: a', y :: c' => vrule_eqb x y && vrules_eqb a' c'
  | _, _ => false
  end.

(** the internal routes the Primes of the fixture can override the URI with: "/./cors_fail" (default extensions), the
    route of the configured override Prime *)
Definition allowed_ov (de : bool) (ovp : option (bytes * bytes)) (p : bytes) : bool :=
  (de && beq p CORS_FAIL) || match ovp with Some (_, ip) => beq p ip | None => false end.
Definition reach_fix (de : bool) (ovp : option (bytes * bytes)) (r : request) (ov : option (bytes * option bytes)) : Prop :=
  match ov with Some (p, _) => allowed_ov de ovp p = true | None => True end.

Definition wf_handler (de : bool) (ovp : option (bytes * bytes)) (rules : list (bytes * list vrule)) (h : hspec) : bool :=
  negb (h_kind h =? 2) &&
  (negb (h_kind h =? 1) || ((h_spref h =? SP_QUERY) && negb (allowed_ov de ovp (h_path h)))) &&
  (negb (h_kind h =? 3) || vrules_eqb (h_tuple h) (rules_for_x (h_path h) rules)).

Definition wf_fixture (cx : configx) : bool :=
  match cx_xhandlers cx with [] => true | _ => false end &&
  cx_fix_vary cx && cx_fix_ovkey cx && cx_fix_svary cx && cx_fix_qmkey cx && cx_fix_ims cx &&
  forallb (wf_handler (cf_default_ext (cx_base cx)) (cx_ovprime cx) (cf_vary (cx_base cx))) (cf_handlers (cx_base cx)).

Definition prime_fix (de : bool) : request -> request := if de then uri_redirect else (fun r => r).
(** what the handlers of a configuration answer, as a function of the request *)
Definition cf_fix (cx : configx) (r : request) (ov : option (bytes * option bytes)) (ok : bool) : fatx :=
  fst (fst (compute_x (cf_default_ext (cx_base cx)) (cf_handlers (cx_base cx)) [] (repeat 0 (length (cf_handlers (cx_base cx)) + 8)) r ov ok)).

(** component pipex.wf: does the theorem apply to this scenario's configuration? *)
Definition run_pipex_wf (x : xval) : xval :=
  match x with
  | XL [c; XL _] => match d_configx c with Some cx => x_bool (wf_fixture cx) | None => bad_input end
  | _ => bad_input
  end.

Definition cacherules_table : list (bytes * (xval -> xval)) := [ (B "pipex.wf", run_pipex_wf) ].
