(** C03 — the vary rule set of a host as the response cache sees it ([Host::vary], an [extensions::RuleSet<vary::Settings>];
    [Vary::rules_from_path] = [RuleSet::get]): Model/CacheX.v [rules_for_x] reads it through the rule-set model of
    Model/RuleSet.v (C14).  Here: the comparator of the seeded change C03-7, for the witness that the order of the two
    criteria (exact before wildcard FIRST, then the longer pattern) is needed.  Definitions only. *)
From KV Require Export Bytes RustInt Range CacheControl Cache Fixture CacheX.
From KV Require Import RuleSetStd RuleSet.
Open Scope N_scope.

(** [sort_unstable_by_key(|(path, _)| (Reverse(path.len()), path.ends_with('*')))]: the length decides, exact before
    wildcard only breaks ties *)
Definition rule_cmp_len_first {R : Type} (a b : bytes * R) : comparison :=
  match Nat.compare (length (fst b)) (length (fst a)) with
  | Eq => if Bool.eqb (ends_with_star (fst a)) (ends_with_star (fst b)) then Eq
          else if ends_with_star (fst a) then Gt else Lt
  | c => c
  end.
Definition rs_add_len_first {R : Type} (rules : ruleset R) (path : bytes) (rule : R) : ruleset R :=
  insertion_sort_by rule_cmp_len_first (rs_unsorted_add rules path rule).
Definition rules_for_len_first (p : bytes) (rules : list (bytes * list vrule)) : list vrule :=
  match rs_get (rs_build rs_add_len_first rules) p with Some rs => rs | None => [] end.

(** the page "/lang" varies on x-w (exact rule), everything else under "/lang" on x-v (pattern "/lang*") *)
Definition w8_rules : list (bytes * list vrule) := [(B "/lang", [(B "x-w", 0, B "dw")]); (B "/lang*", [(B "x-v", 0, B "dv")])].
Definition w8_req (w : bytes) : request := mkReq M_GET (B "/lang") None [(B "x-w", w)] 1.
