(** C20 — HTTP/1.1 and HTTP/2 clients get the same answer.

    Model of the protocol-dependent part of the request path:
    [kvarn::handle_connection] (src/lib.rs: the [alt-svc] header, one task per HTTP/2 request,
    HTTP/1 requests awaited in line), [SendKind::send] (range application on the response that
    layer 4 returned, [ensure_length], [ensure_version], the Package chain, the HEAD rule) and the
    per-protocol arms of [application::ResponsePipe::{ensure_length, ensure_version, send_response}]
    (src/application.rs), over the SHARED layer 4 [kvarn::handle_cache] (Model/Cache.v, C03).

    Second part: a connection with CONCURRENT STREAMS.  Every HTTP/2 request is its own task; a task
    runs [handle_cache] in two atomic blocks separated by the await on the handler:
      start    = sanitize, Prime, cache lookup (hit: the reply is ready),
      complete = the handler has answered: [maybe_cache] / [handle_vary_missing]'s re-lookup + insert.
    A schedule is a list of stream ids; each occurrence gives that stream's task its next block.
    The only state the tasks share is the host's response cache (and the handlers' own state).

    Third part: ONE connection and a HISTORY of requests that carry bodies ([conn_loop]): on HTTP/1 the next
    request starts where the declared body of this one ends — the handler reads all, part or nothing of it, the
    repaired loop (fix dfe4d54, [Http1Body::drain]) discards the rest; [drain = false] is the loop before that
    repair.  On HTTP/2 every request is its own stream.  [utils::get_body_length_request] decides which methods
    have a declared body at all.

    Not modelled (behaviour of the h2 / rustls crates): HPACK, flow control, frame scheduling, TLS
    records, ALPN negotiation itself.  [h2_refuses] transcribes the one check of the h2 crate that
    decides whether a response head is sent at all (h2 0.4 proto/streams/send.rs [check_headers]);
    the repaired HTTP/2 arm of [send_response] removes the headers that check looks for ([h2_strip]).
    Definitions only; proofs in Proofs/ProtocolsProofs.v. *)
From KV Require Export Bytes RustInt Range CacheControl Cache.
Open Scope N_scope.

Inductive proto := H1 | H2.

(** ---- [http::HeaderMap] as an association list (lower-case names) ---- *)
Definition headers := list (bytes * bytes).
Definition hm_has (n : bytes) (h : headers) : bool :=
  match assoc n h with Some _ => true | None => false end.
Definition hm_remove (n : bytes) (h : headers) : headers :=
  filter (fun kv => negb (beq n (fst kv))) h.
(** [insert]: every old value of the name is dropped *)
Definition hm_insert (n v : bytes) (h : headers) : headers := hm_remove n h ++ [(n, v)].
(** [append]: old values stay; [get] keeps returning the first one *)
Definition hm_append (n v : bytes) (h : headers) : headers := h ++ [(n, v)].
(** [entry(n).or_insert(v)] *)
Definition hm_or_insert (n v : bytes) (h : headers) : headers :=
  if hm_has n h then h else h ++ [(n, v)].

Definition H_CL : bytes := Eval vm_compute in B "content-length".
Definition H_CONN : bytes := Eval vm_compute in B "connection".
Definition H_KA : bytes := Eval vm_compute in B "keep-alive".
Definition H_ALT : bytes := Eval vm_compute in B "alt-svc".
Definition H_TENC : bytes := Eval vm_compute in B "transfer-encoding".
Definition H_UPGRADE : bytes := Eval vm_compute in B "upgrade".
Definition H_PROXYC : bytes := Eval vm_compute in B "proxy-connection".
Definition H_TE : bytes := Eval vm_compute in B "te".
Definition H_AR : bytes := Eval vm_compute in B "accept-ranges".
Definition H_CR : bytes := Eval vm_compute in B "content-range".
Definition H_VARY : bytes := Eval vm_compute in B "vary".
Definition V_KEEP_ALIVE : bytes := Eval vm_compute in B "keep-alive".
Definition V_CLOSE : bytes := Eval vm_compute in B "close".
Definition V_TRAILERS : bytes := Eval vm_compute in B "trailers".
Definition V_BYTES : bytes := Eval vm_compute in B "bytes".

(** [http::Version] *)
Definition V09 : N := 9. Definition V10 : N := 10. Definition V11 : N := 11.
Definition V2 : N := 20. Definition V3 : N := 30.

(** [Response<Bytes>] *)
Record resp := mkResp { rs_version : N; rs_status : N; rs_headers : headers; rs_body : bytes }.

(** what the client of one exchange receives *)
Inductive wreply :=
| WResp (r : resp)
| WClosed (r : resp)  (** HTTP/1 only (repair 7334433): the response [r] whose server CLOSED THE CONNECTION after it — the body of a
                          streamed response of unknown length is everything up to that end; nothing more is answered on
                          this connection *)
| WRefused      (** h2: [send_response] = Err(UserError::MalformedHeaders) -> ClientRefusedResponse; no head is sent *)
| WBroken.      (** what follows the head is not the body the head announces: HTTP/1 — fewer or more bytes than
                    [content-length] says (or no [content-length] at all on a connection that stays open), or any byte
                    after the head of a HEAD answer; HTTP/2 — DATA that contradicts [content-length] / follows a HEAD
                    answer (the h2 client resets the stream), or a stream that is never ended *)

(** ---------------------------------------------------------------------------------------------
    [send]: everything between [handle_cache]'s return value and the bytes on the connection
    --------------------------------------------------------------------------------------------- *)
(** [StatusCode::is_informational() || == NO_CONTENT || == NOT_MODIFIED]: responses that end with their head *)
Definition ends_with_head (st : N) : bool := ((100 <=? st) && (st <? 200)) || (st =? 204) || (st =? 304).
(** [SendKind::send], first statement (repair 89e2956): the body an extension left on such a response is dropped *)
Definition head_only (r : resp) : resp :=
  if ends_with_head (rs_status r) then mkResp (rs_version r) (rs_status r) (rs_headers r) [] else r.

(** [vary::apply_header_from_settings(response, rules)] = [vary::apply_header(response, names, false)] (repair 21f0154: the
    416 page that replaces a response keeps the page's [vary]): for a body that is not empty, [vary] is INSERTED with
    [get_header(names, false)] = "accept-encoding, range" followed by ", name" for every rule of the request's path *)
Definition vary_value (names : list bytes) : bytes :=
  B "accept-encoding, range" ++ concat (map (fun n => B ", " ++ n) names).
Definition vary_from_settings (names : list bytes) (r : resp) : resp :=
  if N.of_nat (length (rs_body r)) =? 0 then r
  else mkResp (rs_version r) (rs_status r) (hm_insert H_VARY (vary_value names) (rs_headers r)) (rs_body r).

Section Send.
  Variable checked : bool.                    (** overflow checks of this build (Model/Range.v) *)
  (** [default_error(status, Some(host), ..)]: the host's error page — external (error extensions, files) *)
  Variable error_page : N -> resp.
  (** [host.vary.rules_from_request(request)]: the names of the vary rules the host holds for the path of the request
      (as [SendKind::send] sees it: after the Prime extensions), in rule order — external (the host's configuration) *)
  Variable vnames : list bytes.
  (** the Package chain ([Extensions::resolve_package]: every extension, in list order) as one function of
      the response head it is handed: version (already fixed up), headers (already with [content-length]) *)
  Variable pkg : N -> headers -> headers.

  (** [handle_connection]: [if secure && version != Version::HTTP_3] — true of both modelled protocols when TLS is on.
      [alt] is [Some] iff the feature [http3] is compiled in. *)
  Definition add_alt_svc (secure : bool) (alt : option bytes) (r : resp) : resp :=
    match alt with
    | Some v => if secure then mkResp (rs_version r) (rs_status r) (hm_append H_ALT v (rs_headers r)) (rs_body r) else r
    | None => r
    end.

  (** [if let (Ok(data), false) = (&data, not_modified) { data.apply_to_response(..) }]: a 304 is sent as it is
      (C09's repair); 416 replaces the WHOLE response (also the [alt-svc] header appended just before) by the host's
      416 page with the [vary] header of the request's rules (repair 21f0154). *)
  Definition apply_sd (sd : outcome (option (N * N))) (r : resp) : outcome resp :=
    match sd with
    | Ok range =>
        if rs_status r =? 304 then Ok r else
        match apply_range checked range (rs_status r) (rs_body r) with
        | Ok g =>
            let h1 := if r_accept_ranges g then hm_insert H_AR V_BYTES (rs_headers r) else rs_headers r in
            let h2 := match r_content_range g with Some v => hm_insert H_CR v h1 | None => h1 end in
            Ok (mkResp (rs_version r) (r_status g) h2 (r_body g))
        | Err _ => Ok (vary_from_settings vnames (error_page 416))
        | Panic => Panic
        end
    | Err _ => Ok r
    | Panic => Panic
    end.

  (** [ResponsePipe::ensure_length]: HTTP/1 always states the length — and then drops a [transfer-encoding] an
      extension left (repair 3c296af: the two must not go together); HTTP/2 frames the body itself and
      only corrects a [content-length] a handler left (repaired: before, that header went out unchanged). *)
  Definition ensure_length (p : proto) (len : N) (h : headers) : headers :=
    match p with
    | H1 => hm_remove H_TENC (hm_insert H_CL (dec len) h)
    | H2 => if hm_has H_CL h then hm_insert H_CL (dec len) h else h
    end.

  (** [ResponsePipe::ensure_version] *)
  Definition ensure_version (p : proto) (v : N) : N :=
    match p with
    | H1 => if (v =? V09) || (v =? V10) || (v =? V11) then v else V11
    | H2 => V2
    end.

  (** [ResponsePipe::send_response], HTTP/1 arm.  [close_delimited] (repair 7334433): nothing in the head says where the
      body ends — no [content-length], no [transfer-encoding], not a status that ends with the head — so the end of the
      connection has to: [connection: close].  Else: [connection] absent, not text, or "close" -> "keep-alive" *)
  Definition h1_close_delimited (st : N) (h : headers) : bool :=
    negb (hm_has H_CL h || hm_has H_TENC h || ends_with_head st).
  Definition h1_connection (st : N) (h : headers) : headers :=
    if h1_close_delimited st h then hm_insert H_CONN V_CLOSE h else
    match assoc H_CONN h with
    | Some v => if to_str_ok v && negb (beq v V_CLOSE) then h else hm_insert H_CONN V_KEEP_ALIVE h
    | None => hm_insert H_CONN V_KEEP_ALIVE h
    end.

  (** HTTP/2 arm: h2's [check_headers] (RFC 9113 8.2.2 connection-specific header fields) *)
  Definition h2_refuses (h : headers) : bool :=
    hm_has H_CONN h || hm_has H_TENC h || hm_has H_UPGRADE h || hm_has H_KA h || hm_has H_PROXYC h
    || match assoc H_TE h with Some v => negb (beq v V_TRAILERS) | None => false end.

  (** repaired [send_response], HTTP/2 arm: [remove_connection_specific_headers] before the head is given to h2
      (before the repair the head went to h2 as it was, and a response with such a header was never sent) *)
  Definition h2_strip (h : headers) : headers :=
    let h1 := hm_remove H_UPGRADE (hm_remove H_TENC (hm_remove H_PROXYC (hm_remove H_KA (hm_remove H_CONN h)))) in
    match assoc H_TE h1 with
    | Some v => if beq v V_TRAILERS then h1 else hm_remove H_TE h1
    | None => h1
    end.

  Definition method_has_response_body (m : N) : bool :=
    (m =? M_GET) || (m =? M_POST) || (m =? M_OPTIONS).    (* + DELETE, CONNECT, PATCH: all [M_OTHER], where the disjunction below is true anyway *)
  (** [!body.is_empty() && (method_has_response_body(m) || (!body.is_empty() && m != HEAD))] *)
  Definition sends_body (m : N) (body : bytes) : bool :=
    negb (N.of_nat (length body) =? 0)
    && (method_has_response_body m || (negb (N.of_nat (length body) =? 0) && negb (m =? M_HEAD))).

  (** [SendKind::send] + the two [send_response] arms.  [m] = request method, [sd] = [sanitize_data] (range part; an
      unsafe path is [Err 400]), [r] = [CacheReply::response] (no streaming future). *)
  Definition send (p : proto) (secure : bool) (alt : option bytes) (m : N)
      (sd : outcome (option (N * N))) (r : resp) : outcome wreply :=
    obind (apply_sd sd (head_only (add_alt_svc secure alt r))) (fun r1 =>
    let len := N.of_nat (length (rs_body r1)) in
    let h1 := ensure_length p len (rs_headers r1) in
    let v := ensure_version p (rs_version r1) in
    let h2 := pkg v h1 in
    let body := if sends_body m (rs_body r1) then rs_body r1 else [] in
    match p with
    | H1 => Ok (WResp (mkResp v (rs_status r1) (h1_connection (rs_status r1) h2) body))
    | H2 =>
        let h3 := h2_strip h2 in
        if h2_refuses h3 then Ok WRefused else Ok (WResp (mkResp v (rs_status r1) h3 body))
    end).

  (** ---- [SendKind::send] at the level of the response pipe: head, body, future, close ----
      What the server does to [ResponsePipe] / [ResponseBodyPipe], in order, and what thereby arrives at the client.
      A response may carry a [ResponsePipeFuture] (FatResponse::with_future / with_future_and_len:
      [extensions::stream_body], streamed reverse-proxy bodies) that writes the real body to the pipe after the head. *)
  (** what has arrived at the client of one exchange: the head (version, status, headers), the bytes after it, and —
      HTTP/2 — whether END_STREAM was sent *)
  Record arrived := mkArr { a_head : option (N * N * headers); a_bytes : bytes; a_ended : bool }.
  Definition arr0 : arrived := mkArr None [] false.

  (** [ResponsePipe::send_response(response, end_of_stream)]; [None] = it returns an error.  The HTTP/1 arm ignores
      [end_of_stream]; the HTTP/2 arm hands it to h2 (END_STREAM on the HEADERS frame). *)
  Definition pipe_head (p : proto) (v st : N) (h : headers) (eos : bool) : option arrived :=
    match p with
    | H1 => Some (mkArr (Some (v, st, h1_connection st h)) [] false)
    | H2 => let h' := h2_strip h in
            if h2_refuses h' then None else Some (mkArr (Some (v, st, h')) [] eos)
    end.
  (** [ResponseBodyPipe::send_with_maybe_close(data, end_of_stream)] ([send] = [.., false], [close] = [empty, true]):
      nothing is done for empty data that does not end the stream; h2's [send_data] fails on a stream already ended *)
  Definition pipe_data (p : proto) (a : arrived) (b : bytes) (eos : bool) : option arrived :=
    if negb eos && (N.of_nat (length b) =? 0) then Some a else
    match p with
    | H1 => Some (mkArr (a_head a) (a_bytes a ++ b) (a_ended a))
    | H2 => if a_ended a then None else Some (mkArr (a_head a) (a_bytes a ++ b) eos)
    end.
  (** the future: [pipe.send(chunk)] for every chunk; it gives up at the first error (as [stream_body] does) *)
  Fixpoint pipe_chunks (p : proto) (a : arrived) (chunks : list bytes) : arrived :=
    match chunks with
    | [] => a
    | c :: rest => match pipe_data p a c false with Some a' => pipe_chunks p a' rest | None => a end
    end.

  (** the [Send] arm of [SendKind::send] after the Package chain.  [head_eos] = the [end_of_stream] argument of
      [send_response] — [false] in kvarn; [ret_log_app_error!] ends [send] at the first failing pipe operation of its
      own (head, body, close), a failing write of the future only ends the future.  [run_future]: is
      [future.call] reached (repaired: not for HEAD). *)
  Definition pipe_send (p : proto) (head_eos : bool) (v st : N) (h : headers) (body : option bytes)
      (chunks : list bytes) : arrived :=
    match pipe_head p v st h head_eos with
    | None => arr0
    | Some a1 =>
        match (match body with Some b => pipe_data p a1 b false | None => Some a1 end) with
        | None => a1
        | Some a2 =>
            let a3 := pipe_chunks p a2 chunks in
            match pipe_data p a3 [] true with Some a4 => a4 | None => a3 end
        end
    end.

  (** what the client makes of it (request method [m]).  HTTP/1: while the connection stays open the body is exactly
      the [content-length] bytes after the head (none for HEAD); anything else leaves the connection out of step.
      [closes] (repair 7334433): the server ends the connection after this response ([handle_connection]'s
      [close_delimited]) — then a body without [content-length] is everything up to that end, and the client knows the
      connection is gone ([WClosed]).  Without [content-length] on a connection that stays open the client waits.
      HTTP/2: the DATA frames up to END_STREAM; h2's client resets the stream when they contradict a [content-length]
      in the head or follow the head of a HEAD answer ([closes] concerns HTTP/1 only: an HTTP/2 request is its own task). *)
  Definition receive (p : proto) (m : N) (closes : bool) (a : arrived) : wreply :=
    match a_head a with
    | None => WRefused
    | Some (v, st, h) =>
        let n := N.of_nat (length (a_bytes a)) in
        let whole := WResp (mkResp v st h (a_bytes a)) in
        match p with
        | H1 =>
            let framed := if m =? M_HEAD then n =? 0 else
                          match assoc H_CL h with Some c => beq c (dec n) | None => closes end in
            if framed then (if closes then WClosed (mkResp v st h (a_bytes a)) else whole) else WBroken
        | H2 =>
            if m =? M_HEAD then (if n =? 0 then (if a_ended a then whole else WBroken) else WBroken)
            else if negb (a_ended a) then WBroken else
                 match assoc H_CL h with
                 | Some c => if beq c (dec n) then whole else WBroken
                 | None => whole
                 end
        end
    end.

  (** [handle_connection]'s [close_delimited] (repair 7334433), computed on [handle_cache]'s reply after the [alt-svc]
      append: a future whose length kvarn is not told ([with_future]) on a response without [transfer-encoding] and
      without a [content-length] of its own — on HTTP/1 the connection is not reused after the response *)
  Definition close_delimited (r : resp) (f : option (list bytes * option N)) : bool :=
    match f with
    | Some (_, None) => negb (hm_has H_TENC (rs_headers r)) && negb (hm_has H_CL (rs_headers r))
    | _ => false
    end.

  (** [SendKind::send] with an optional streaming future [f] = (the chunks it writes, the overridden length of
      [with_future_and_len]).  With a future [apply_to_response] does nothing ([is_stream]) and the length stated is
      the overridden one — none at all for [with_future].  The future is not run for HEAD (repair d63bba7; exception: a
      101 head, whose future carries out the protocol switch and is no body); [head_future] = the code before that
      repair, which ran the future also for HEAD. *)
  Definition send_pipe (head_future : bool) (p : proto) (secure : bool) (alt : option bytes) (m : N)
      (sd : outcome (option (N * N))) (r : resp) (f : option (list bytes * option N)) : outcome wreply :=
    let ra := add_alt_svc secure alt r in
    let closes := close_delimited ra f in
    let r0 := head_only ra in
    obind (match f with None => apply_sd sd r0 | Some _ => Ok r0 end) (fun r1 =>
    let olen := match f with Some (_, ol) => ol | None => Some (N.of_nat (length (rs_body r1))) end in
    let h1 := match olen with Some n => ensure_length p n (rs_headers r1) | None => rs_headers r1 end in
    let v := ensure_version p (rs_version r1) in
    let h2 := pkg v h1 in
    let body := if sends_body m (rs_body r1) then Some (rs_body r1) else None in
    let chunks := match f with
                  | Some (cs, _) => if head_future || negb (m =? M_HEAD) || (rs_status r1 =? 101) then cs else []
                  | None => []
                  end in
    Ok (receive p m closes (pipe_send p false v (rs_status r1) h2 body chunks))).

  (** the future's bytes are framed: the length the handler overrides (or, with [with_future], the [content-length]
      it states itself) is the number of bytes body and future write — or ([with_future], no [content-length], no
      [transfer-encoding]) the length is not stated at all: HTTP/1 then ends the body with the connection.  [r] is the
      response as [SendKind::send] sends it ([head_only]). *)
  Definition fut_framed (r : resp) (f : option (list bytes * option N)) : Prop :=
    match f with
    | None => True
    | Some (cs, Some n) => n = N.of_nat (length (rs_body r ++ concat cs))
    | Some (cs, None) =>
        match assoc H_CL (rs_headers r) with
        | Some c => c = dec (N.of_nat (length (rs_body r ++ concat cs)))
        | None => assoc H_TENC (rs_headers r) = None
        end
    end.

  (** [handle_connection]'s own answers — 429 of the host's request limiter ([limiting::get_too_many_requests]), 409 when no
      host is found —: [ensure_length], [ensure_version], [send_response(.., false)], then
      [send_with_maybe_close(body, true)] with the body emptied for HEAD.  No [alt-svc], no range, no Package chain. *)
  Definition send_direct (p : proto) (m : N) (r : resp) : outcome wreply :=
    let h1 := ensure_length p (N.of_nat (length (rs_body r))) (rs_headers r) in
    let v := ensure_version p (rs_version r) in
    let body := if m =? M_HEAD then [] else rs_body r in
    Ok (receive p m false (match pipe_head p v (rs_status r) h1 false with
                     | None => arr0
                     | Some a1 => match pipe_data p a1 body true with Some a2 => a2 | None => a1 end
                     end)).

  (** ---- what the property compares: everything except the version and the connection-level headers ---- *)
  Definition hop (n : bytes) : bool :=
    beq n H_CONN || beq n H_KA || beq n H_PROXYC || beq n H_TENC || beq n H_UPGRADE || beq n H_TE
    || beq n H_CL || beq n H_ALT.
  Definition strip (h : headers) : headers := filter (fun kv => negb (hop (fst kv))) h.
  Definition normalise (w : wreply) : wreply :=
    match w with
    | WResp r => WResp (mkResp 0 (rs_status r) (strip (rs_headers r)) (rs_body r))
    (* how the HTTP/1 body was delimited, and that the connection ended with it, is connection-level *)
    | WClosed r => WResp (mkResp 0 (rs_status r) (strip (rs_headers r)) (rs_body r))
    | WRefused => WRefused
    | WBroken => WBroken
    end.
  Definition onorm (o : outcome wreply) : outcome wreply :=
    match o with Ok w => Ok (normalise w) | Err e => Err e | Panic => Panic end.

  (** HEAD = GET without the body *)
  Definition drop_body (w : wreply) : wreply :=
    match w with
    | WResp r => WResp (mkResp (rs_version r) (rs_status r) (rs_headers r) [])
    | WClosed r => WClosed (mkResp (rs_version r) (rs_status r) (rs_headers r) [])
    | WRefused => WRefused
    | WBroken => WBroken
    end.
  Definition odrop (o : outcome wreply) : outcome wreply :=
    match o with Ok w => Ok (drop_body w) | Err e => Err e | Panic => Panic end.
End Send.

(** ---------------------------------------------------------------------------------------------
    one connection, a HISTORY of requests that carry bodies: [handle_connection]'s request loop
    --------------------------------------------------------------------------------------------- *)
(** HTTP/1: the next request starts where the body of this one ends.  HTTP/2: every request is its own stream (and
    its own task); what is left of a request body goes away with the stream. *)
Inductive cst :=
| COpen                 (** the next request is read from the start of the client's next message *)
| CStray (n : N)        (** HTTP/1: [n] bytes of an earlier message are still in front of the next request line *)
| CClosed.              (** HTTP/1: the server closed the connection (or its task panicked) *)

(** [utils::get_body_length_request]: the [content-length] of these methods is not looked at (GET, HEAD, OPTIONS;
    CONNECT and TRACE are not in the model's method type) *)
Definition pr_no_request_body (m : N) : bool := (m =? M_GET) || (m =? M_HEAD) || (m =? M_OPTIONS).

Section ConnLoop.
  Variable S Q : Type.
  (** layer 4 + [send] for one request: protocol, TLS?, application state (caches, handler state), clock *)
  Variable ans : proto -> bool -> S -> N -> Q -> S * outcome wreply.
  Variable q_method : Q -> N.
  Variable q_len : Q -> N.              (** bytes the client sends after the head = the [content-length] it announces *)
  Variable q_early : Q -> N.            (** HTTP/1: how many of them arrive in the same read as the head (segmentation: external) *)
  Variable wants : S -> Q -> option N.  (** [Some l]: a handler is run for this request and calls [read_to_bytes(l)] *)

  (** the HTTP/1 connection after the response was written.  [Http1Body::new(reader, early bytes, declared)]; the
      handler takes [min declared l] (first the early bytes, then the connection); the early bytes are dropped with
      the body object.  [drain] (the repair dfe4d54, [Http1Body::drain]): the rest of the DECLARED body is read and
      discarded; the client has sent it, so this succeeds.  Before the repair it stayed on the connection. *)
  Definition h1_after (drain : bool) (s : S) (q : Q) : cst :=
    let declared := if pr_no_request_body (q_method q) then 0 else q_len q in
    let early := N.min (q_early q) (q_len q) in
    let taken := match wants s q with Some l => N.min declared l | None => 0 end in
    let gone := N.max early taken in
    let gone' := if drain then N.max gone declared else gone in
    if gone' <? q_len q then CStray (q_len q - gone') else COpen.

  (** the request loop.  [None]: the request is never answered — on HTTP/1 the stray bytes are read as the start of
      the next request line ([read::request] fails or reads garbage; this model does not say which) and nothing
      written afterwards belongs to a request of the history. *)
  Fixpoint conn_loop (p : proto) (drain secure : bool) (s : S) (cs : cst) (now dt : N) (qs : list Q)
      : list (option (outcome wreply)) :=
    match qs with
    | [] => []
    | q :: rest =>
        match cs with
        | COpen =>
            let '(s', w) := ans p secure s now q in
            let cs' := match p with
                       | H2 => COpen                              (* own stream, own task: a panic resets that stream only *)
                       | H1 => match w with
                               | Ok WBroken => CClosed            (* client and server are out of step from here on *)
                               | Ok (WClosed _) => CClosed        (* [handle_connection]: [reusable = false] -> [break] *)
                               | Ok _ => h1_after drain s q
                               | _ => CClosed                     (* the connection's task panicked *)
                               end
                       end in
            Some w :: conn_loop p drain secure s' cs' (now + dt) dt rest
        | _ => None :: conn_loop p drain secure s CClosed (now + dt) dt rest
        end
    end.

  (** the specification's view: every request is answered, by the application in the state its predecessors left *)
  Fixpoint serve_seq (p : proto) (secure : bool) (s : S) (now dt : N) (qs : list Q) : list (outcome wreply) :=
    match qs with
    | [] => []
    | q :: rest => let '(s', w) := ans p secure s now q in w :: serve_seq p secure s' (now + dt) dt rest
    end.

  (** the requests whose body the model's HTTP/1 framing covers: bytes are only sent where a length is honoured *)
  Definition body_declared (q : Q) : Prop := pr_no_request_body (q_method q) = true -> q_len q = 0.
End ConnLoop.

(** the contract of the Package chain under which the protocols agree: what it does to end-to-end headers does not
    depend on the version or on connection-level headers of the head it is given *)
Definition pkg_oblivious (pkg : N -> headers -> headers) : Prop :=
  forall v v' h h', strip h = strip h' -> strip (pkg v h) = strip (pkg v' h').

(** ... and leaves [content-length] alone (on HTTP/1 that header is the framing of the message) *)
Definition pkg_keeps_length (pkg : N -> headers -> headers) : Prop :=
  forall v h, assoc H_CL (pkg v h) = assoc H_CL h.

(** ---------------------------------------------------------------------------------------------
    which BYTES a handler gets from [Body::read_to_bytes(max_len)] (src/application.rs)
    --------------------------------------------------------------------------------------------- *)
(** [Http1Body]: the bytes that arrived with the head ([bytes]), what the client still sends on the connection,
    [content_length], and [offset] — how much of the body has been handed out (repairs 9c56fae / 2820a60 of C07: a reader
    that took part of the body through [AsyncRead] is continued, not started over; [Http1Body::new] starts at 0) *)
Record h1body := mkH1B { hb_early : bytes; hb_conn : bytes; hb_cl : N; hb_off : N }.
(** [len = min(content_length.saturating_sub(offset), max_len)]; nothing for [len = 0] (and [content_length] stays);
    else what is left of the early bytes first ([bytes.get(offset..)], at most [len]), the rest through
    [take(len - buffer.len())] from the connection ([poll_read] hands out at most [content_length - offset], which is
    no less); [content_length = 0]: nothing the next time *)
Definition h1_read_to_bytes (b : h1body) (max_len : N) : bytes * h1body :=
  let len := N.min (hb_cl b - hb_off b) max_len in
  if len =? 0 then ([], b) else
  let e := firstn (N.to_nat len) (skipn (N.to_nat (hb_off b)) (hb_early b)) in
  let need := (N.to_nat len - length e)%nat in
  let got := firstn need (hb_conn b) in
  (e ++ got, mkH1B (hb_early b) (skipn need (hb_conn b)) 0 (hb_off b + N.of_nat (length e) + N.of_nat (length got))).
(** the HTTP/2 arm: DATA frames are taken one by one ([h2.data().await], capacity released) and appended up to
    [left = max_len.saturating_sub(bytes.len())]; the loop ends when a frame is taken while [left = 0] (that frame is
    dropped), when [left] reaches 0 after a frame (the rest of that frame is dropped), or with the stream.
    Returns what the handler gets and the frames not taken yet. *)
Fixpoint h2_read_loop (max_len : N) (acc : bytes) (frames : list bytes) : bytes * list bytes :=
  match frames with
  | [] => (acc, [])
  | d :: rest =>
      if (max_len - N.of_nat (length acc)) =? 0 then (acc, rest) else
      let acc' := acc ++ firstn (N.to_nat (max_len - N.of_nat (length acc))) d in
      if (max_len - N.of_nat (length acc')) =? 0 then (acc', rest) else h2_read_loop max_len acc' rest
  end.
Definition h2_read_to_bytes (frames : list bytes) (max_len : N) : bytes * list bytes := h2_read_loop max_len [] frames.

(** a handler that calls [read_to_bytes] once per limit of [limits]: what every call returns *)
Fixpoint h1_reads (b : h1body) (limits : list N) : list bytes :=
  match limits with
  | [] => []
  | l :: rest => let '(got, b') := h1_read_to_bytes b l in got :: h1_reads b' rest
  end.
Fixpoint h2_reads (frames : list bytes) (limits : list N) : list bytes :=
  match limits with
  | [] => []
  | l :: rest => let '(got, fr') := h2_read_to_bytes frames l in got :: h2_reads fr' rest
  end.

(** [extensions::stream_body] (the in-tree producer of streamed responses): which bytes of the file its future writes and
    the length it announces with [with_future_and_len]; [None] = it answers 416.  [range] = [sanitize_request]'s
    (start, end) with start < end, end exclusive.  [clamp = false] is the code before the repair d675f8a (no clamp, no
    416, and — [stream_head] — 200 without [content-range]). *)
Definition stream_plan (clamp : bool) (file : bytes) (range : option (N * N)) : option (bytes * N) :=
  let flen := N.of_nat (length file) in
  let start := match range with Some (a, _) => a | None => 0 end in
  let e0 := match range with Some (_, e) => e | None => flen end in
  let e := if clamp then N.min e0 flen else e0 in
  if clamp && match range with Some _ => flen <=? start | None => false end then None else
  (* the future seeks to [start] and writes until [pos >= end] or the end of the file *)
  Some (firstn (N.to_nat (e - start)) (skipn (N.to_nat start) file), e - start).

(** the head of that answer: status and [content-range].  Repaired (d675f8a): a Range is answered 206 with
    [content-range: bytes start-(end-1)/file_len], [end] clamped — the rules of [apply_to_response] (Model/Range.v
    [apply_range]), which [SendKind::send] skips for streams *)
Definition stream_head (clamp : bool) (file : bytes) (range : option (N * N)) : option (N * option bytes) :=
  let flen := N.of_nat (length file) in
  match range with
  | None => Some (200, None)
  | Some (start, e0) =>
      if clamp then
        if flen <=? start then None
        else Some (206, Some (B "bytes " ++ dec start ++ B "-" ++ dec (N.min e0 flen - 1) ++ B "/" ++ dec flen))
      else Some (200, None)
  end.

(** ---- a menu of Package extensions (the harness registers the same ones on the real host) ---- *)
Inductive pkg_op :=
| PInsert (n v : bytes)       (** [headers_mut().insert(n, v)] *)
| POrInsert (n v : bytes)     (** [headers_mut().entry(n).or_insert(v)] *)
| PRemove (n : bytes)         (** [headers_mut().remove(n)] *)
| PAppend (n v : bytes).      (** [headers_mut().append(n, v)] *)
Definition pkg_op_name (o : pkg_op) : bytes :=
  match o with PInsert n _ | POrInsert n _ | PRemove n | PAppend n _ => n end.
Definition run_pkg_op (o : pkg_op) (h : headers) : headers :=
  match o with
  | PInsert n v => hm_insert n v h
  | POrInsert n v => hm_or_insert n v h
  | PRemove n => hm_remove n h
  | PAppend n v => hm_append n v h
  end.
(** the chain, already in call order (priority descending — [add_sorted_list!], C16) *)
Definition pkg_menu (ops : list pkg_op) (_ : N) (h : headers) : headers :=
  fold_left (fun h o => run_pkg_op o h) ops h.

(** a request and its body on the wire: [b_len] bytes follow the head, [b_early] of them in the same read *)
Record breq := mkBreq { b_req : request; b_len : N; b_early : N }.

(** ---------------------------------------------------------------------------------------------
    layer 4 above [send]: one request on a host, any cache state
    --------------------------------------------------------------------------------------------- *)
Section Answer.
  Variable hstate : Type.
  Variable compute : hstate -> request -> bool -> fat * hstate * list bytes.
  Variable cache_on : bool.
  Variable ims_on : bool.
  Variable parse_ims : bytes -> option Z.
  Variable sanitize_ok : request -> bool.
  Variable prime : request -> request.
  Variable negotiate : request -> fat -> option (N * bytes).
  Variable vary_tuple : request -> tuple.
  Variable vary_header : request -> fat -> list (bytes * bytes).
  Variable checked : bool.
  Variable error_page : N -> resp.
  (** [host.vary.rules_from_request]: the names of the vary rules of the request's path (the host's configuration) *)
  Variable vary_rules : request -> list bytes.
  Variable pkg : N -> headers -> headers.
  Variable alt : option bytes.
  (** [sanitize_request]'s value for a request (the range part is Model/Range.v, the path part Model/PathSan.v) *)
  Variable sanitize : request -> outcome (option (N * N)).
  (** [clone_preferred]: the representation (content-encoding, bytes) chosen for a request; which bytes a
      compressor produces is external.  A function of what the reply IS, not of where it came from
      (the harness gives the cached and the one-shot path the same compression options). *)
  Variable encode : request -> N -> headers -> bytes -> headers * bytes.
  (** the version the handler put on its response *)
  Variable hversion : N.

  (** [CacheReply::response] of a layer-4 reply.  The [last-modified] stamp of the cache (a wall-clock
      time) is not part of the model's response. *)
  Definition l4_resp (r : request) (rp : reply) : resp :=
    let '(h, b) := encode r (rp_status rp) (rp_headers rp) (rp_body rp) in
    mkResp hversion (rp_status rp) h b.

  Notation serveX := (serve hstate compute cache_on ims_on parse_ims sanitize_ok prime negotiate vary_tuple vary_header).

  (** the answer a client of protocol [p] receives for [r0], the host being in state [st] *)
  Definition answer (p : proto) (secure : bool) (st : state hstate) (now : N) (r0 : request) : outcome wreply :=
    let '(_, rp, _) := serveX st now r0 in
    send checked error_page (vary_rules r0) pkg p secure alt (rq_method r0) (sanitize r0) (l4_resp r0 rp).

  (** ---- concurrent streams on one HTTP/2 connection ---- *)
  (** a task between its two blocks: waiting for the handler *)
  Inductive pend :=
  | PMiss (r : request) (ok : bool)        (** [get_response] running; then [maybe_cache] *)
  | PVary (r : request) (k : key).         (** [handle_vary_missing]: [get_response] running *)
  Inductive phase :=
  | PhNew (r0 : request)                    (** accepted, task spawned *)
  | PhWait (r0 : request) (p : pend)
  | PhDone.

  Definition not_modified : reply :=
    {| rp_status := 304; rp_headers := []; rp_body := []; rp_identity := [];
       rp_last_modified := ims_on; rp_from_cache := true |}.

  (** first block of [handle_cache]: up to the await on the handler *)
  Definition start (c : cache) (now : N) (r0 : request) : cache * (reply + pend) :=
    let ok := sanitize_ok r0 in
    let r := prime r0 in
    if negb cache_on then (c, inr (PMiss r ok)) else
    let '((k, found), c1) := lookup r c now in
    match found with
    | Some e =>
        if ok && get_or_head (rq_method r) then
          let ims := if ims_on then match header (B "if-modified-since") r with
                                    | Some v => parse_ims v | None => None end
                     else None in
          if match ims with Some t => ims_fresh t (e_created e) | None => false end then
            (c1, inl not_modified)
          else
            match v_find (vary_tuple r) (e_vars e) with
            | Some f => (c1, inl (finish negotiate vary_header r f ims_on true))
            | None => (c1, inr (PVary r k))
            end
        else (c1, inr (PMiss r ok))
    | None => (c1, inr (PMiss r ok))
    end.

  (** [handle_vary_missing] after [get_response]: look the item up again — first under the key the hit was found
      under, then (for a PathQuery key) under the Path key *)
  Definition relookup (k : key) (c : cache) (now : N) : (key * option entry) * cache :=
    match get_item k c now with
    | (Some e, c') => ((k, Some e), c')
    | (None, c') =>
        match k with
        | KPath _ => ((k, None), c')
        | KPathQuery s i =>
            match get_item (KPath (firstn i s)) c' now with
            | (res, c'') => ((KPath (firstn i s), res), c'')
            end
        end
    end.

  (** second block: the handler has answered *)
  Definition complete (c : cache) (hs : hstate) (now : N) (p : pend) : state hstate * reply * list bytes :=
    match p with
    | PMiss r ok =>
        if negb cache_on then
          let '(f, hs', lg) := compute hs r ok in ((c, hs'), finish negotiate vary_header r f false false, lg)
        else miss hstate compute cache_on ims_on negotiate vary_tuple vary_header c hs now r ok
    | PVary r k =>
        let '(f, hs', lg) := compute hs r true in
        let rp := finish negotiate vary_header r f ims_on true in
        match relookup k c now with
        | ((k', Some e), c1) =>
            match v_find (vary_tuple r) (e_vars e) with
            | Some _ => ((c1, hs'), rp, lg)        (* another request cached this variant in the meantime *)
            | None =>
                let e' := {| e_vars := (vary_tuple r, f) :: e_vars e; e_created := now;
                             e_life := option_map (fun l => l - (now - e_created e)) (e_life e) |} in
                ((c_insert k' e' c1, hs'), rp, lg)
            end
        | ((_, None), c1) =>
            (* the item is gone (expired, cleared): recreate it as the miss arm does *)
            if may_store cache_on (rq_method r) f then
              let e' := {| e_vars := [(vary_tuple r, f)]; e_created := now; e_life := lifetime_ms f |} in
              ((c_insert (insert_key r f) e' c1, hs'), rp, lg)
            else ((c1, hs'), rp, lg)
        end
    end.

  Definition streams := list (N * phase).
  Fixpoint s_get (sid : N) (ss : streams) : option phase :=
    match ss with
    | [] => None
    | (i, ph) :: r => if i =? sid then Some ph else s_get sid r
    end.
  Fixpoint s_set (sid : N) (ph : phase) (ss : streams) : streams :=
    match ss with
    | [] => []
    | (i, q) :: r => if i =? sid then (i, ph) :: r else (i, q) :: s_set sid ph r
    end.

  Definition conn := (state hstate * streams)%type.

  (** one scheduling decision: stream [sid]'s task runs its next block; the reply, if this block produced it *)
  Definition stream_step (cn : conn) (now : N) (sid : N) : conn * option (N * request * reply) :=
    let '((c, hs), ss) := cn in
    match s_get sid ss with
    | Some (PhNew r0) =>
        match start c now r0 with
        | (c1, inl rp) => (((c1, hs), s_set sid PhDone ss), Some (sid, r0, rp))
        | (c1, inr p) => (((c1, hs), s_set sid (PhWait r0 p) ss), None)
        end
    | Some (PhWait r0 p) =>
        let '((c1, hs1), rp, _) := complete c hs now p in
        (((c1, hs1), s_set sid PhDone ss), Some (sid, r0, rp))
    | Some PhDone | None => (cn, None)
    end.

  (** a schedule; time advances by [dt] per decision (handlers take time; entries may expire on the way) *)
  Fixpoint run_streams (cn : conn) (now dt : N) (sched : list N) : list (N * request * reply) :=
    match sched with
    | [] => []
    | sid :: rest =>
        let '(cn', out) := stream_step cn now sid in
        match out with
        | Some o => o :: run_streams cn' (now + dt) dt rest
        | None => run_streams cn' (now + dt) dt rest
        end
    end.
  Fixpoint final_conn (cn : conn) (now dt : N) (sched : list N) : conn :=
    match sched with
    | [] => cn
    | sid :: rest => final_conn (fst (stream_step cn now sid)) (now + dt) dt rest
    end.

  Definition open_streams (reqs : list (N * request)) : streams := map (fun '(i, r) => (i, PhNew r)) reqs.

  (** what stream [sid] receives over HTTP/2 *)
  Definition stream_wire (o : N * request * reply) : N * outcome wreply :=
    let '(sid, r0, rp) := o in
    (sid, send checked error_page (vary_rules r0) pkg H2 true alt (rq_method r0) (sanitize r0) (l4_resp r0 rp)).

  (** ---- a history of requests with bodies on ONE connection of either protocol ---- *)
  (** which handler reads how much of a request body: external ([Some l] = [read_to_bytes(l)] is called) *)
  Variable wants : state hstate -> request -> option N.
  Definition ans_step (p : proto) (secure : bool) (st : state hstate) (now : N) (b : breq) : state hstate * outcome wreply :=
    let '(st', rp, _) := serveX st now (b_req b) in
    (st', send checked error_page (vary_rules (b_req b)) pkg p secure alt (rq_method (b_req b)) (sanitize (b_req b))
               (l4_resp (b_req b) rp)).
  Definition conn_hist (p : proto) (drain secure : bool) (st : state hstate) (now dt : N) (bs : list breq)
      : list (option (outcome wreply)) :=
    conn_loop (state hstate) breq ans_step (fun b => rq_method (b_req b)) b_len b_early (fun st b => wants st (b_req b))
              p drain secure st COpen now dt bs.
  Definition answers (p : proto) (secure : bool) (st : state hstate) (now dt : N) (bs : list breq) : list (outcome wreply) :=
    serve_seq (state hstate) breq ans_step p secure st now dt bs.
End Answer.

(** ---------------------------------------------------------------------------------------------
    xval interface
    --------------------------------------------------------------------------------------------- *)
Definition x_headers (h : headers) : xval := XL (map (fun kv => XL [XB (fst kv); XB (snd kv)]) h).
Definition x_resp (r : resp) : xval := XL [XN (rs_version r); XN (rs_status r); x_headers (rs_headers r); XB (rs_body r)].
Definition x_wreply (w : wreply) : xval :=
  match w with WResp r => XL [XN 0; x_resp r] | WRefused => XL [XN 3] | WBroken => XL [XN 4] | WClosed r => XL [XN 5; x_resp r] end.

Definition d_hpair (x : xval) : option (bytes * bytes) :=
  match x with XL [XB a; XB c] => Some (a, c) | _ => None end.
Definition d_resp (x : xval) : option resp :=
  match x with
  | XL [XN v; XN s; hs; XB b] => option_map (fun h => mkResp v s h b) (d_list d_hpair hs)
  | _ => None
  end.
Definition d_pkg_op (x : xval) : option pkg_op :=
  match x with
  | XL [XN k; XB n; XB v] =>
      if k =? 0 then Some (PInsert n v) else if k =? 1 then Some (POrInsert n v)
      else if k =? 2 then Some (PRemove n) else if k =? 3 then Some (PAppend n v) else None
  | _ => None
  end.
Definition d_proto (x : xval) : option proto :=
  match x with XN 1 => Some H1 | XN 2 => Some H2 | _ => None end.

(** [sanitize_data] of an exchange: the path verdict is an input (Model/PathSan.v is C01's), the range part is computed *)
Definition sd_of (path_ok : bool) (range : option bytes) : outcome (option (N * N)) :=
  if path_ok then sanitize_range range else Err 400.

(** one exchange: (L method (L [range]) path_ok l4), (L method (L [range]) path_ok l4 body_len (L [want])) or
    (L method (L [range]) path_ok l4 body_len (L [want]) (L limited (L [(L stream_bytes (L [len]))]) [(L vary_name ...)]))
    — [body_len] bytes of request body follow the head; [want] = [l]: the handler that answers reads [read_to_bytes(l)];
    [limited]: the host's request limiter answers (429; [l4] is then that page); the stream: what the response's
    [ResponsePipeFuture] writes (observed in process) and the length the handler overrides; the names of the vary rules
    the host's configuration holds for the request's path (none when the field is absent) *)
Record exch := mkEx { ex_method : N; ex_range : option bytes; ex_path_ok : bool; ex_l4 : resp; ex_blen : N; ex_want : option N;
                      ex_limited : bool; ex_fut : option (list bytes * option N); ex_vary : list bytes }.
Definition d_fut (x : xval) : option (list bytes * option N) :=
  match x with
  | XL [XB b; ol] => option_map (fun o => ([b], o)) (d_option d_N ol)
  | _ => None
  end.
Definition d_exch (x : xval) : option exch :=
  match x with
  | XL [XB m; rg; po; l4] =>
      match d_option d_B rg, d_bool po, d_resp l4 with
      | Some rg', Some po', Some r => Some (mkEx (method_of_bytes m) rg' po' r 0 None false None [])
      | _, _, _ => None
      end
  | XL [XB m; rg; po; l4; XN bl; w] =>
      match d_option d_B rg, d_bool po, d_resp l4, d_option d_N w with
      | Some rg', Some po', Some r, Some w' => Some (mkEx (method_of_bytes m) rg' po' r bl w' false None [])
      | _, _, _, _ => None
      end
  | XL [XB m; rg; po; l4; XN bl; w; XL [lim; fu]] =>
      match d_option d_B rg, d_bool po, d_resp l4, d_option d_N w, d_bool lim, d_option d_fut fu with
      | Some rg', Some po', Some r, Some w', Some lim', Some fu' => Some (mkEx (method_of_bytes m) rg' po' r bl w' lim' fu' [])
      | _, _, _, _, _, _ => None
      end
  | XL [XB m; rg; po; l4; XN bl; w; XL [lim; fu; vn]] =>
      match d_option d_B rg, d_bool po, d_resp l4, d_option d_N w, d_bool lim, d_option d_fut fu, d_list d_B vn with
      | Some rg', Some po', Some r, Some w', Some lim', Some fu', Some vn' =>
          Some (mkEx (method_of_bytes m) rg' po' r bl w' lim' fu' vn')
      | _, _, _, _, _, _, _ => None
      end
  | _ => None
  end.

(** common part of a case: (L checked cfg pkg_ops (L [alt]) err416 exchanges ...) — [cfg] is for the harness only *)
Definition d_case (x : xval) : option (bool * list pkg_op * option bytes * resp * list exch) :=
  match x with
  | XL (c :: _ :: ops :: al :: e416 :: XL exs :: _) =>
      match d_bool c, d_list d_pkg_op ops, d_option d_B al, d_resp e416, d_all d_exch exs with
      | Some c', Some ops', Some al', Some e', Some exs' => Some (c', ops', al', e', exs')
      | _, _, _, _, _ => None
      end
  | _ => None
  end.

Definition send_ex (checked : bool) (ops : list pkg_op) (alt : option bytes) (e416 : resp)
    (p : proto) (secure : bool) (e : exch) : outcome wreply :=
  if ex_limited e then send_direct p (ex_method e) (ex_l4 e) else
  send_pipe checked (fun _ => e416) (ex_vary e) (pkg_menu ops) false p secure alt (ex_method e)
            (sd_of (ex_path_ok e) (ex_range e)) (ex_l4 e) (ex_fut e).

(** does the HTTP/1 connection end with the answer to this exchange ([handle_connection]'s [close_delimited]; the limiter's
    answers never do) *)
Definition ex_closes (e : exch) : bool := negb (ex_limited e) && close_delimited (ex_l4 e) (ex_fut e).
(** the exchanges the history theorems speak about: a request body only where its length is honoured, a response body
    below 2^64 bytes, a framed future (or one of unknown length), and — a future's bytes being the body — no HEAD
    request answered 101 (the protocol switch of a WebSocket is outside) *)
Definition ex_ok (e : exch) : Prop :=
  (pr_no_request_body (ex_method e) = true -> ex_blen e = 0) /\ N.of_nat (length (rs_body (ex_l4 e))) <= u64_max /\
  fut_framed (head_only (ex_l4 e)) (ex_fut e) /\
  (ex_fut e <> None -> (ex_method e =? M_HEAD) && (rs_status (ex_l4 e) =? 101) = false).

(** the history of a case on ONE connection of protocol [p]: the connection loop over the observed layer-4 responses
    (the application state is in the observations: [unit] here).  The harness's HTTP/1 client writes head and body in one
    piece; how much of the body arrives with the head is not observable — and, with [drain], decides nothing: 0. *)
Definition ex_ans (checked : bool) (ops : list pkg_op) (alt : option bytes) (e416 : resp)
    (p : proto) (secure : bool) (_ : unit) (_ : N) (e : exch) : unit * outcome wreply :=
  (tt, send_ex checked ops alt e416 p secure e).
Definition pair_hist (checked : bool) (ops : list pkg_op) (alt : option bytes) (e416 : resp)
    (p : proto) (drain secure : bool) (exs : list exch) : list (option (outcome wreply)) :=
  conn_loop unit exch (ex_ans checked ops alt e416) ex_method ex_blen (fun _ => 0) (fun _ e => ex_want e)
            p drain secure tt COpen 0 1 exs.

(** ---- the END of an HTTP/1 connection, and a body that is delimited by it ----
    [handle_connection] leaves the request loop by [break] — [accept] failed, [continue_accepting] said no, or the future
    of an HTTP/1 request reported that the connection cannot be reused ([close_delimited], a request body that could not
    be drained) — and then runs [http.shutdown().await] = [Encryption::shutdown]: on TLS rustls sends the close_notify
    alert before the socket is shut down; on plain TCP the FIN is all there is.  [shutdown = false] is the variant that
    leaves the loop by [return Ok(())] instead: the socket is dropped, the TCP stream ends WITHOUT close_notify.
    The client (RFC 8446 6.1: without close_notify the end of the data is not authenticated; a strict HTTP/1.1 client —
    hyper, curl — reports "peer closed connection without sending TLS close_notify"): a body that only the end of the
    connection delimits (no [content-length]; not a HEAD answer) is complete iff that end is an orderly one. *)
Inductive conn_end := EOrderly | ETruncated.
Definition h1_conn_end (secure shutdown : bool) : conn_end :=
  if secure && negb shutdown then ETruncated else EOrderly.
(** is the body of [r] (request method [m]) delimited by the end of the connection? *)
Definition end_delimited (m : N) (r : resp) : bool := negb (m =? M_HEAD) && negb (hm_has H_CL (rs_headers r)).
Definition receive_end (m : N) (ce : conn_end) (w : wreply) : wreply :=
  match w, ce with
  | WClosed r, ETruncated => if end_delimited m r then WBroken else w
  | _, _ => w
  end.
Definition oreceive_end (m : N) (ce : conn_end) (o : outcome wreply) : outcome wreply :=
  match o with Ok w => Ok (receive_end m ce w) | Err e => Err e | Panic => Panic end.

(** [send_ex] with the end of the connection: what the client of the exchange has in hand when the connection is over *)
Definition send_ex_end (shutdown : bool) (checked : bool) (ops : list pkg_op) (alt : option bytes) (e416 : resp)
    (p : proto) (secure : bool) (e : exch) : outcome wreply :=
  match p with
  | H1 => oreceive_end (ex_method e) (h1_conn_end secure shutdown) (send_ex checked ops alt e416 p secure e)
  | H2 => send_ex checked ops alt e416 p secure e         (* END_STREAM ends the body; the connection goes on *)
  end.
Definition ex_ans_end (shutdown : bool) (checked : bool) (ops : list pkg_op) (alt : option bytes) (e416 : resp)
    (p : proto) (secure : bool) (_ : unit) (_ : N) (e : exch) : unit * outcome wreply :=
  (tt, send_ex_end shutdown checked ops alt e416 p secure e).
Definition pair_hist_end (shutdown : bool) (checked : bool) (ops : list pkg_op) (alt : option bytes) (e416 : resp)
    (p : proto) (drain secure : bool) (exs : list exch) : list (option (outcome wreply)) :=
  conn_loop unit exch (ex_ans_end shutdown checked ops alt e416) ex_method ex_blen (fun _ => 0) (fun _ e => ex_want e)
            p drain secure tt COpen 0 1 exs.

Fixpoint first_none {A} (i : N) (l : list (option A)) : option N :=
  match l with
  | [] => None
  | None :: _ => Some i
  | Some _ :: r => first_none (i + 1) r
  end.
Definition x_slot (o : option (outcome wreply)) : xval :=
  match o with Some w => x_outcome x_wreply w | None => bad_input end.

(** "proto.pair": the history over one HTTP/1.1 connection (TLS or plain, [secure1]) and over one HTTP/2 connection (TLS)
    input (L checked cfg pkg_ops (L [alt]) err416 (L exchange ...) secure1)
    output (L (L wire_h1 wire_h2) ...), or (L (N 93) i) when request i is not answered on one of the connections *)
Definition run_pair_gen (drain shutdown : bool) (x : xval) : xval :=
  match x, d_case x with
  | XL [_; _; _; _; _; _; s1], Some (checked, ops, alt, e416, exs) =>
      match d_bool s1 with
      | Some secure1 =>
          let h1 := pair_hist_end shutdown checked ops alt e416 H1 drain secure1 exs in
          let h2 := pair_hist_end shutdown checked ops alt e416 H2 drain true exs in
          match first_none 0 h1, first_none 0 h2 with
          | None, None => XL (map (fun ab => XL [x_slot (fst ab); x_slot (snd ab)]) (combine h1 h2))
          | Some i, _ => XL [XN 93; XN i]
          | None, Some i => XL [XN 93; XN i]
          end
      | None => bad_input
      end
  | _, _ => bad_input
  end.
Definition run_pair : xval -> xval := run_pair_gen true true.

(** spec component of "proto.pair": the normalised answer both protocols must give, computed without any
    protocol arm — the range specification of C09 on the layer-4 response, the package menu on the
    end-to-end headers only, the body unless HEAD. *)
Definition spec_ex (ops : list pkg_op) (e416 : resp) (e : exch) : wreply :=
  if ex_limited e then
    (* the limiter's page as it is: no range, no Package chain *)
    let r := ex_l4 e in
    WResp (mkResp 0 (rs_status r) (strip (rs_headers r)) (if ex_method e =? M_HEAD then [] else rs_body r))
  else
  (* a 1xx / 204 / 304 answer has no body, whatever layer 4 left on it *)
  let r := head_only (ex_l4 e) in
  match ex_fut e with
  | Some (cs, _) =>
      (* a streamed response: no range is applied; the body is what body and future write, in that order *)
      WResp (mkResp 0 (rs_status r) (strip (pkg_menu ops 0 (strip (rs_headers r))))
                   (if ex_method e =? M_HEAD then [] else rs_body r ++ concat cs))
  | None =>
  let after_range : resp :=
    match sd_of (ex_path_ok e) (ex_range e) with
    | Ok range =>
        if rs_status r =? 304 then r else
        match range_spec (match ex_range e with Some v => parse_range v | None => None end) (rs_body r) with
        | R416 => vary_from_settings (ex_vary e) e416      (* the host's 416 page, advertising what the page varies on *)
        | RResp g =>
            let h1 := if r_accept_ranges g then hm_insert H_AR V_BYTES (rs_headers r) else rs_headers r in
            let h2 := match r_content_range g with Some v => hm_insert H_CR v h1 | None => h1 end in
            mkResp 0 (match r_content_range g with Some _ => if rs_status r =? 200 then 206 else rs_status r | None => rs_status r end)
                   h2 (r_body g)
        end
    | _ => r
    end in
  WResp (mkResp 0 (rs_status after_range)
               (strip (pkg_menu ops 0 (strip (rs_headers after_range))))
               (if ex_method e =? M_HEAD then [] else rs_body after_range))
  end.
Definition run_pair_spec (x : xval) : xval :=
  match d_case x with
  | Some (_, ops, _, e416, exs) => XL (map (fun e => x_wreply (spec_ex ops e416 e)) exs)
  | None => bad_input
  end.

(** "proto.answered": is every request of the history answered with a response on the HTTP/1.1 / on the HTTP/2
    connection?  (L h1 h2).  The specification is (yes, yes) for every history.  [run_answered_gen false] is the code
    before the repair dfe4d54 (an unread request body stays on the HTTP/1 connection): (no, yes) for the witness. *)
Definition is_resp (o : option (outcome wreply)) : bool :=
  match o with Some (Ok (WResp _)) | Some (Ok (WClosed _)) => true | _ => false end.
Definition run_answered_gen (drain shutdown : bool) (x : xval) : xval :=
  match x, d_case x with
  | XL [_; _; _; _; _; _; s1], Some (checked, ops, alt, e416, exs) =>
      match d_bool s1 with
      | Some secure1 =>
          XL [x_bool (forallb is_resp (pair_hist_end shutdown checked ops alt e416 H1 drain secure1 exs));
              x_bool (forallb is_resp (pair_hist_end shutdown checked ops alt e416 H2 drain true exs))]
      | None => bad_input
      end
  | _, _ => bad_input
  end.
Definition run_answered : xval -> xval := run_answered_gen true true.
Definition run_answered_spec (x : xval) : xval :=
  match d_case x with Some _ => XL [XN 1; XN 1] | None => bad_input end.

(** "proto.burst": n concurrent streams on one HTTP/2 connection ("proto.burst1": n concurrent HTTP/1.1 connections
    over TLS — the tasks are the connections', the shared state is the same).  The handler table of the run is
    the list of exchanges itself: request i is answered by layer-4 response i (what the real host answers to
    that request alone); [cacheable i] says whether layer 4 stores it.  The model runs the two-block tasks in the
    given schedule over ONE shared cache and sends every reply through the protocol's arm.  [class] is what the
    cache distinguishes: the path and the Accept-Encoding class.
    input (L checked cfg pkg_ops (L [alt]) err416 (L exchange ...) (L (L sid class cacheable) ...) (L sid ...))
    output (L (L sid wire) ...) sorted by stream id *)
Definition burst_compute (tbl : list (N * resp * bool)) (_ : unit) (r : request) (_ : bool) : fat * unit * list bytes :=
  match find (fun e => fst (fst e) =? rq_addr r) tbl with
  | Some (_, l4, cacheable) =>
      (mkFat (rs_status l4) (rs_headers l4) (rs_body l4) (if cacheable then SP_FULL else SP_NONE) false, tt, [])
  | None => (mkFat 500 [] [] SP_NONE false, tt, [])
  end.
Fixpoint insert_by_sid (o : N * xval) (l : list (N * xval)) : list (N * xval) :=
  match l with
  | [] => [o]
  | p :: r => if fst o <=? fst p then o :: l else p :: insert_by_sid o r
  end.
Definition d_stream (x : xval) : option (N * bytes * bool) :=
  match x with
  | XL [XN sid; XB path; c] => option_map (fun c' => (sid, path, c')) (d_bool c)
  | XL [XN sid; XB path; c; _] => option_map (fun c' => (sid, path, c')) (d_bool c)
  | _ => None
  end.
(** (L sid class cacheable (L [ms])): a stream the client cancels (RST_STREAM) [ms] after the request — its task may run
    none, one or both of its blocks on the server; whatever it does, it is not answered (not part of the output), and
    by [stream_independence] it changes no other stream's answer: the model lets it run like the others *)
Definition stream_cancelled (x : xval) : bool :=
  match x with XL [_; _; _; XL (_ :: _)] => true | _ => false end.
Definition cancelled_sids (ss : xval) : list N :=
  match ss with
  | XL l => flat_map (fun x => if stream_cancelled x then match x with XL (XN sid :: _) => [sid] | _ => [] end else []) l
  | _ => []
  end.
Definition drop_cancelled (ss : xval) (ws : list (N * xval)) : list (N * xval) :=
  filter (fun o => negb (existsb (N.eqb (fst o)) (cancelled_sids ss))) ws.
Definition run_burst (p : proto) (x : xval) : xval :=
  match x, d_case x with
  | XL [_; _; _; _; _; _; ss; sc], Some (checked, ops, alt, e416, exs) =>
      match d_list d_stream ss, d_list d_N sc with
      | Some strs, Some sched =>
          let tbl := map (fun '((sid, _, cacheable), e) => (sid, ex_l4 e, cacheable)) (combine strs exs) in
          let exof (sid : N) : option exch :=
            option_map snd (find (fun se => fst (fst (fst se)) =? sid) (combine strs exs)) in
          (* the stream id doubles as the request's address field, which [burst_compute] keys on; requests for the
             same path share a cache entry *)
          let reqs := map (fun '((sid, path, _), e) => (sid, mkReq (ex_method e) path None [] sid)) (combine strs exs) in
          let outs := run_streams unit (burst_compute tbl) true false (fun _ => None) (fun _ => true) (fun r => r)
                        (fun _ _ => None) (fun _ => []) (fun _ _ => [])
                        ((([] : cache), tt), open_streams reqs) 0 1 sched in
          let wires := map (fun '(sid, r0, rp) =>
                          (sid, match exof sid with
                                | Some e => x_outcome x_wreply
                                              (* (an HTTP/1 connection of "proto.burst1" ends after its one answer: orderly) *)
                                              (oreceive_end (ex_method e) (match p with H1 => h1_conn_end true true | H2 => EOrderly end)
                                              (send_pipe checked (fun _ => e416) (ex_vary e) (pkg_menu ops) false p true alt (ex_method e)
                                                    (sd_of (ex_path_ok e) (ex_range e))
                                                    (mkResp (rs_version (ex_l4 e)) (rp_status rp) (rp_headers rp) (rp_body rp))
                                                    (ex_fut e)))
                                | None => bad_input
                                end)) outs in
          XL (map (fun o => XL [XN (fst o); snd o]) (drop_cancelled ss (fold_right insert_by_sid [] wires)))
      | _, _ => bad_input
      end
  | _, _ => bad_input
  end.
(** spec component of "proto.burst" and model of "proto.alone": every stream gets the answer of its own request alone *)
Definition run_burst_spec (p : proto) (x : xval) : xval :=
  match x, d_case x with
  | XL [_; _; _; _; _; _; ss; _], Some (checked, ops, alt, e416, exs) =>
      match d_list d_stream ss with
      | Some strs =>
          let wires := map (fun '((sid, _, _), e) => (sid, x_outcome x_wreply (send_ex_end true checked ops alt e416 p true e)))
                           (combine strs exs) in
          XL (map (fun o => XL [XN (fst o); snd o]) (drop_cancelled ss (fold_right insert_by_sid [] wires)))
      | None => bad_input
      end
  | _, _ => bad_input
  end.

(** "proto.body": a handler that calls [read_to_bytes(l)] for every [l] of [limits] on a request body sent over either protocol
    input (L body (L frame_len ...) early (L limit ...)): over HTTP/2 the body arrives in DATA frames of these lengths
    (the rest in one more), over HTTP/1.1 [early] bytes of it arrive with the head
    output (L (L read ...) (L read ...)) — what the calls return on HTTP/1.1 and on HTTP/2 *)
Fixpoint split_frames (lens : list N) (b : bytes) : list bytes :=
  match lens with
  | [] => match b with [] => [] | _ => [b] end
  | l :: rest => firstn (N.to_nat l) b :: split_frames rest (skipn (N.to_nat l) b)
  end.
Definition run_body (x : xval) : xval :=
  match x with
  | XL [XB body; fl; XN early; ls] =>
      match d_list d_N fl, d_list d_N ls with
      | Some lens, Some limits =>
          let e := N.to_nat (N.min early (N.of_nat (length body))) in
          XL [XL (map XB (h1_reads (mkH1B (firstn e body) (skipn e body) (N.of_nat (length body)) 0) limits));
              XL (map XB (h2_reads (split_frames lens body) limits))]
      | _, _ => bad_input
      end
  | _ => bad_input
  end.
(** its specification: the first call returns the first [l] bytes of the body, every further call nothing — on both
    protocols (for a first limit of at least 1) *)
Definition run_body_spec (x : xval) : xval :=
  match x with
  | XL [XB body; _; _; ls] =>
      match d_list d_N ls with
      | Some (l :: rest) =>
          let want := XL (XB (firstn (N.to_nat l) body) :: map (fun _ => XB []) rest) in XL [want; want]
      | _ => bad_input
      end
  | _ => bad_input
  end.

(** "proto.sbody": [extensions::stream_body] on a file: (L file (L [(L start end)])) -> (L) for 416,
    (L (L bytes len status (L [content-range]))) *)
Definition run_sbody (x : xval) : xval :=
  match x with
  | XL [XB file; rg] =>
      match d_option (fun y => match y with XL [XN a; XN c] => Some (a, c) | _ => None end) rg with
      | Some range => match stream_plan true file range, stream_head true file range with
                      | Some (b, n), Some (st, cr) => XL [XL [XB b; XN n; XN st; x_option XB cr]]
                      | _, _ => XL []
                      end
      | None => bad_input
      end
  | _ => bad_input
  end.

(** ---------------------------------------------------------------------------------------------
    "requests both protocols can express": the request-HEAD limits of the two front ends
    --------------------------------------------------------------------------------------------- *)
(** HTTP/1 ([HttpConnection::accept] -> [parse_http_1(stream, 16 * 1024, ..)] -> [kvarn_async::read::request] ->
    [read_headers]): the head is read into a buffer that never grows beyond [max_len] = 16384 bytes; [read_more] fails
    with [HeaderTooLong] when the buffer is full and the blank line has not been seen: a head — request line, every
    field line, the blank line, line ends included — of more than 16384 bytes is never answered ([accept] fails, the
    request loop ends, the connection is shut down).
    HTTP/2 (the h2 crate; kvarn's [h2::server::Builder] sets no [max_header_list_size]): h2 0.4 frame/headers.rs
    [load_hpack] adds [name.len() + value.len() + 32] for every field, pseudo-headers included (their names counted
    with the colon), and marks the block over-size as soon as the sum reaches the limit — the default
    [DEFAULT_SETTINGS_MAX_HEADER_LIST_SIZE] = 16 MiB; an over-size request is answered 431 by h2 itself (proto/streams/
    recv.rs [recv_headers]) and never reaches kvarn.  (h2 also gives up when [HeaderMap::try_append] fails, beyond
    24576 fields: out of reach of a head of 16384 bytes, see [head_accepted_by_both].) *)
Definition H1_MAX_HEAD : N := 16384.
Definition H2_MAX_HEADER_LIST : N := 16777216.
Definition blen (b : bytes) : N := N.of_nat (length b).
(** [per] = what a field costs beyond its name and value: ": " and CRLF on HTTP/1, 32 on HTTP/2 *)
Fixpoint fields_size (per : N) (h : headers) : N :=
  match h with
  | [] => 0
  | kv :: r => blen (fst kv) + blen (snd kv) + per + fields_size per r
  end.
(** "<method> <target> HTTP/1.1" CRLF "host: <authority>" CRLF fields CRLF *)
Definition h1_head_len (authority m t : bytes) (h : headers) : N :=
  blen m + 1 + blen t + 1 + 8 + 2 + (4 + blen authority + 4) + fields_size 4 h + 2.
(** :method, :scheme = "https", :authority, :path, fields *)
Definition h2_list_size (authority m t : bytes) (h : headers) : N :=
  (7 + blen m + 32) + (7 + 5 + 32) + (10 + blen authority + 32) + (5 + blen t + 32) + fields_size 32 h.
Definition h1_head_ok (authority m t : bytes) (h : headers) : bool := h1_head_len authority m t h <=? H1_MAX_HEAD.
Definition h2_head_ok (limit : N) (authority m t : bytes) (h : headers) : bool := h2_list_size authority m t h <? limit.

(** "proto.head": one request to a page that answers 200 whatever the request says, over a fresh HTTP/1.1 connection
    and over a fresh HTTP/2 connection: (L cfg (L method target fields body)) -> (L h1 h2), (L) = never answered,
    (L (N status)).  [limit] = the header-list limit of the HTTP/2 front end. *)
Definition AUTHORITY : bytes := Eval vm_compute in B "localhost:8443".
Definition run_head_gen (limit : N) (x : xval) : xval :=
  match x with
  | XL [_; XL [XB m; XB t; hs; XB _]] =>
      match d_list d_hpair hs with
      | Some h =>
          XL [ if h1_head_ok AUTHORITY m t h then XL [XN 200] else XL [];
               if h2_head_ok limit AUTHORITY m t h then XL [XN 200] else XL [XN 431] ]
      | None => bad_input
      end
  | _ => bad_input
  end.
Definition run_head : xval -> xval := run_head_gen H2_MAX_HEADER_LIST.
(** its specification, for the requests the HTTP/1 front end can express: answered, and the same, on both *)
Definition run_head_spec (x : xval) : xval :=
  match x with
  | XL [_; XL [XB m; XB t; hs; XB _]] =>
      match d_list d_hpair hs with
      | Some h => if h1_head_ok AUTHORITY m t h then XL [XL [XN 200]; XL [XN 200]] else XL [XN 96]
      | None => bad_input
      end
  | _ => bad_input
  end.

(** ---------------------------------------------------------------------------------------------
    HTTP/2: the accept loop of [handle_connection] and streams the client has RESET
    --------------------------------------------------------------------------------------------- *)
(** Every request [HttpConnection::accept] yields is either answered by the loop itself (the host's limiter says
    [LimitAction::Send]: 429) or handed to a task of its own ([spawn(future)]), whose failures are its own.  h2 also yields
    streams the client has already reset (RST_STREAM read in the same poll as the HEADERS, or while the loop was busy):
    [send_response] / [send_data] on such a stream fail with a user error, kvarn's [Error::ClientRefusedResponse].
    [cont] = the repaired loop: on HTTP/2 that failure concerns this stream only — [continue].  [cont = false] is the code
    before: [ret_log_app_error!] returned from [handle_connection]; the h2 connection is dropped with it, and with the
    connection every answer that has not been written yet — those of the tasks whose handlers are still running — and
    every stream not yet accepted.  (What the loop itself answered before is flushed by the poll of the next [accept].) *)
Record h2req := mkH2Q { hq_sid : N; hq_reset : bool; hq_limited : bool; hq_status : N }.
(** (stream, status, answered by a task?) for every answer produced, in stream order; is the connection still served? *)
Fixpoint h2_accept_loop (cont : bool) (qs : list h2req) : list (N * N * bool) * bool :=
  match qs with
  | [] => ([], true)
  | q :: rest =>
      if hq_limited q && hq_reset q && negb cont then ([], false) else
      let '(out, alive) := h2_accept_loop cont rest in
      (if hq_reset q then out
       else (hq_sid q, (if hq_limited q then 429 else hq_status q), negb (hq_limited q)) :: out, alive)
  end.
(** what reaches the client: the loop's own answers, and the tasks' answers if the connection outlives the loop *)
Definition h2_answered (cont : bool) (qs : list h2req) : list (N * N) * bool :=
  let '(out, alive) := h2_accept_loop cont qs in
  (map (fun o => (fst (fst o), snd (fst o))) (filter (fun o => alive || negb (snd o)) out), alive).
(** the specification: every stream the client did not reset receives its own answer, and the connection goes on *)
Definition h2_reset_spec (qs : list h2req) : list (N * N) * bool :=
  (map (fun q => (hq_sid q, if hq_limited q then 429 else hq_status q)) (filter (fun q => negb (hq_reset q)) qs), true).

(** "proto.rst": (L cfg (L request ...) (L reset_index ...) (L (L limited status) ...)) -> (L (L (L sid status) ...) alive):
    request i is stream 2i+1; the limiter's verdict and the status of the page are inputs *)
Fixpoint d_h2reqs (i : N) (resets : list N) (l : list xval) : option (list h2req) :=
  match l with
  | [] => Some []
  | XL [lim; XN st] :: rest =>
      match d_bool lim, d_h2reqs (i + 1) resets rest with
      | Some lim', Some qs => Some (mkH2Q (2 * i + 1) (existsb (N.eqb i) resets) lim' st :: qs)
      | _, _ => None
      end
  | _ => None
  end.
Definition x_h2_answered (r : list (N * N) * bool) : xval :=
  XL [XL (map (fun a => XL [XN (fst a); XN (snd a)]) (fst r)); x_bool (snd r)].
Definition run_rst_gen (cont : bool) (x : xval) : xval :=
  match x with
  | XL [_; _; rs; XL vs] =>
      match d_list d_N rs with
      | Some resets => match d_h2reqs 0 resets vs with
                       | Some qs => x_h2_answered (h2_answered cont qs)
                       | None => bad_input
                       end
      | None => bad_input
      end
  | _ => bad_input
  end.
Definition run_rst : xval -> xval := run_rst_gen true.
Definition run_rst_spec (x : xval) : xval :=
  match x with
  | XL [_; _; rs; XL vs] =>
      match d_list d_N rs with
      | Some resets => match d_h2reqs 0 resets vs with
                       | Some qs => x_h2_answered (h2_reset_spec qs)
                       | None => bad_input
                       end
      | None => bad_input
      end
  | _ => bad_input
  end.

Definition protocols_table : list (bytes * (xval -> xval)) :=
  [ (B "proto.pair", run_pair);
    (B "proto.server", run_pair);      (* the same exchanges through complete servers (RunConfig::execute) *)
    (B "proto.pair_spec", run_pair_spec);
    (B "proto.answered", run_answered);
    (B "proto.answered_spec", run_answered_spec);
    (B "proto.burst", run_burst H2);
    (B "proto.burst_spec", run_burst_spec H2);
    (B "proto.alone", run_burst_spec H2);
    (B "proto.burst1", run_burst H1);
    (B "proto.burst1_spec", run_burst_spec H1);
    (B "proto.alone1", run_burst_spec H1);
    (B "proto.burst2", run_burst H2);        (* the same burst spread over two HTTP/2 connections *)
    (B "proto.body", run_body);
    (B "proto.body_spec", run_body_spec);
    (B "proto.sbody", run_sbody);
    (B "proto.head", run_head);
    (B "proto.head_spec", run_head_spec);
    (B "proto.rst", run_rst);
    (B "proto.rst_spec", run_rst_spec) ].
