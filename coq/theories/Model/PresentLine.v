(** C16 — model of [kvarn_utils::extensions] (utils/src/extensions.rs):
    [PresentExtensions::new] (the parser of a file's first line [!> name arg arg &> name2 arg]),
    [PresentExtensionsIter::next], [PresentArguments::name], [PresentArgumentsIter::{next, next_back}],
    and the [split_off(data_start)] that [Extensions::resolve_present] applies to the body.
    Index arithmetic, slices and vector indexing are explicit ([Panic]).
    Definitions only; proofs live in Proofs/PresentLineProofs.v. *)
From KV Require Export Bytes.
Open Scope N_scope.

Definition SPACE : N := 32.
Definition CR : N := 13.
Definition LF : N := 10.
Definition PRESENT_INTERNAL_PREFIX : bytes := Eval vm_compute in B "!> ".
Definition PRESENT_INTERNAL_AND : bytes := Eval vm_compute in B " &> ".
Definition PRESENT_INTERNAL_AND_TRIMMED : bytes := Eval vm_compute in B "&>".

Definition E_FUEL_P : N := 77.

(** [core::str::from_utf8(..).is_ok()]: well-formed UTF-8 byte sequences
    (Unicode 15, table 3-7; what [core::str::validations::run_utf8_validation] accepts). *)
Definition cont (c : N) : bool := (128 <=? c) && (c <=? 191).
Fixpoint utf8_valid (s : bytes) : bool :=
  match s with
  | [] => true
  | a :: r =>
      if a <? 128 then utf8_valid r
      else if (194 <=? a) && (a <=? 223) then
        match r with b :: r2 => cont b && utf8_valid r2 | _ => false end
      else if a =? 224 then
        match r with b :: c :: r3 => (160 <=? b) && (b <=? 191) && cont c && utf8_valid r3 | _ => false end
      else if ((225 <=? a) && (a <=? 236)) || (a =? 238) || (a =? 239) then
        match r with b :: c :: r3 => cont b && cont c && utf8_valid r3 | _ => false end
      else if a =? 237 then
        match r with b :: c :: r3 => (128 <=? b) && (b <=? 159) && cont c && utf8_valid r3 | _ => false end
      else if a =? 240 then
        match r with b :: c :: d :: r4 => (144 <=? b) && (b <=? 191) && cont c && cont d && utf8_valid r4 | _ => false end
      else if (241 <=? a) && (a <=? 243) then
        match r with b :: c :: d :: r4 => cont b && cont c && cont d && utf8_valid r4 | _ => false end
      else if a =? 244 then
        match r with b :: c :: d :: r4 => (128 <=? b) && (b <=? 143) && cont c && cont d && utf8_valid r4 | _ => false end
      else false
  end.

(** [PresentExtensionPosData]: (start, len) of the name and of the argument. *)
Definition span := (nat * nat)%type.
Record posdata : Type := { pd_name : span; pd_arg : span }.
Definition from_name_and_arg (name arg : span) : posdata := {| pd_name := name; pd_arg := arg |}.
Definition span_eqb (a b : span) : bool := Nat.eqb (fst a) (fst b) && Nat.eqb (snd a) (snd b).

Definition is_sep (byte : N) : bool := (byte =? SPACE) || (byte =? CR) || (byte =? LF).

Section New.
(** [data_start] as a function of the position of the LF and of [has_cr]:
    repaired code: [pos + 1]; code before the repair: [pos + if has_cr { 2 } else { 1 }]. *)
Variable data_start_of : nat -> bool -> nat.
Variable data : bytes.

(** The [for (pos, byte) in data.iter().copied().enumerate().skip(3)] loop; [rest] is
    [data[pos..]] (so [data.get(pos..)] is [Some rest]). *)
Fixpoint pe_loop (rest : bytes) (pos start : nat) (last_name : option span) (has_cr : bool)
         (acc : list posdata) : outcome (option (list posdata * nat)) :=
  match rest with
  | [] => Ok None
  | byte :: rest' =>
      if Nat.ltb pos start then pe_loop rest' (S pos) start last_name has_cr acc
      else if is_sep byte then
        match slice_chk start pos data with          (* &data[start..pos] *)
        | Panic => Panic
        | Err e => Err e
        | Ok tok =>
            if negb (utf8_valid tok) then Ok None else   (* str::from_utf8(..).ok()? *)
            let len := (pos - start)%nat in
            let sp := (start, len) in
            let '(last_name1, acc1) :=
              if Nat.ltb 0 len && negb (beq tok PRESENT_INTERNAL_AND_TRIMMED) then
                match last_name with
                | Some name => (last_name, acc ++ [from_name_and_arg name sp])
                | None => (Some sp, acc ++ [from_name_and_arg sp sp])
                end
              else (last_name, acc) in
            let has_cr1 := has_cr || (byte =? CR) in
            if byte =? LF then Ok (Some (acc1, data_start_of pos has_cr1))
            else if starts_with PRESENT_INTERNAL_AND (byte :: rest')
            then pe_loop rest' (S pos) (pos + 4)%nat None has_cr1 acc1
            else pe_loop rest' (S pos) (pos + 1)%nat last_name1 has_cr1 acc1
        end
      else pe_loop rest' (S pos) start last_name has_cr acc
  end.

(** [PresentExtensions::new]: [Ok None] is Rust's [None]. *)
Definition pe_new : outcome (option (list posdata * nat)) :=
  if negb (starts_with PRESENT_INTERNAL_PREFIX data) then Ok None else
  match slice_chk 3 (length data) data with          (* data[PREFIX.len()..] *)
  | Panic => Panic
  | Err e => Err e
  | Ok tail =>
      if starts_with PRESENT_INTERNAL_AND tail then Ok None
      else pe_loop tail 3 3 None false []
  end.
End New.

Definition data_start_fixed (pos : nat) (has_cr : bool) : nat := (pos + 1)%nat.
Definition data_start_v0 (pos : nat) (has_cr : bool) : nat := (pos + if has_cr then 2 else 1)%nat.

(** [PresentExtensionsIter::next]: the inner [for current in extensions[start + 1..].iter()]. *)
Fixpoint iter_scan (name : span) (l : list posdata) (index : nat) : nat * bool :=
  match l with
  | [] => (index, false)
  | current :: l' =>
      let index := S index in
      if span_eqb (pd_name current) name then iter_scan name l' index else (index, true)
  end.

(** Returns the [PresentArguments] as (data_index, len) and the new [self.index]. *)
Definition iter_next (exts : list posdata) (index : nat) : outcome (option (span * nat)) :=
  let start := index in
  if Nat.eqb start (length exts) then Ok None else
  match nth_error exts start with                       (* self.data.extensions[start] *)
  | None => Panic
  | Some e =>
      let name := pd_name e in
      if Nat.ltb (length exts) (start + 1) then Panic else   (* extensions[start + 1..] *)
      let '(index1, different_name) := iter_scan name (skipn (S start) exts) index in
      let index2 := if Nat.eqb (index1 + 1) (length exts) && negb different_name
                    then (index1 + 1)%nat else index1 in
      if Nat.ltb index2 start then Panic                 (* self.index - start *)
      else Ok (Some ((start, (index2 - start)%nat), index2))
  end.

Fixpoint iter_all (fuel : nat) (exts : list posdata) (index : nat) : outcome (list span) :=
  match fuel with
  | O => Err E_FUEL_P
  | S fuel' =>
      match iter_next exts index with
      | Panic => Panic
      | Err e => Err e
      | Ok None => Ok []
      | Ok (Some (pa, index')) => obind (iter_all fuel' exts index') (fun r => Ok (pa :: r))
      end
  end.

(** [PresentArguments::name]. *)
Definition pa_name (data : bytes) (exts : list posdata) (pa : span) : outcome bytes :=
  match nth_error exts (fst pa) with
  | None => Panic
  | Some e => let '(s, l) := pd_name e in slice_chk s (s + l) data
  end.

(** [PresentArguments::iter()] driven to the end by [PresentArgumentsIter::next]:
    [index] starts at 1, [back_index = len]; stops when [index >= back_index]
    (repaired code; before the repair: [index == back_index], see [args_end_v0]). *)
Definition args_end (index back_index : nat) : bool := Nat.leb back_index index.
Definition args_end_v0 (index back_index : nat) : bool := Nat.eqb index back_index.
Section Args.
Variable at_end : nat -> nat -> bool.
Fixpoint args_loop (fuel : nat) (data : bytes) (exts : list posdata) (data_index back_index index : nat)
  : outcome (list bytes) :=
  if at_end index back_index then Ok [] else
  match fuel with
  | O => Err E_FUEL_P
  | S fuel' =>
      match nth_error exts (data_index + index) with    (* extensions[data_index + index] *)
      | None => Panic
      | Some e =>
          let '(s, l) := pd_arg e in
          obind (slice_chk s (s + l) data) (fun a =>
          obind (args_loop fuel' data exts data_index back_index (S index)) (fun r => Ok (a :: r)))
      end
  end.
Definition pa_args (data : bytes) (exts : list posdata) (pa : span) : outcome (list bytes) :=
  args_loop (S (length exts)) data exts (fst pa) (snd pa) 1.
End Args.

Fixpoint omap {X Y} (f : X -> outcome Y) (l : list X) : outcome (list Y) :=
  match l with
  | [] => Ok []
  | x :: r => obind (f x) (fun y => obind (omap f r) (fun ys => Ok (y :: ys)))
  end.

(** [Bytes::split_off(at)]: panics when [at > len]; returns [self[at..]]. *)
Definition split_off (at_ : nat) (b : bytes) : outcome bytes :=
  if Nat.ltb (length b) at_ then Panic else Ok (skipn at_ b).

Definition entry := (bytes * list bytes)%type.
Record parsed : Type := { p_entries : list entry; p_data_start : nat; p_body : bytes }.

(** What [resolve_present] sees: the extensions in iteration order with their names and
    arguments, [data_start], and the body after [split_off(data_start)]. *)
Definition present_parse_with (dso : nat -> bool -> nat) (at_end : nat -> nat -> bool) (data : bytes) : outcome (option parsed) :=
  match pe_new dso data with
  | Panic => Panic
  | Err e => Err e
  | Ok None => Ok None
  | Ok (Some (exts, data_start)) =>
      obind (split_off data_start data) (fun body =>
      obind (iter_all (S (length exts)) exts 0) (fun pas =>
      obind (omap (fun pa => obind (pa_name data exts pa) (fun n =>
                             obind (pa_args at_end data exts pa) (fun a => Ok (n, a)))) pas) (fun es =>
      Ok (Some {| p_entries := es; p_data_start := data_start; p_body := body |}))))
  end.
Definition present_parse := present_parse_with data_start_fixed args_end.
(** the parser as it was before the [data_start] repair (kept for the refutation witness) *)
Definition present_parse_v0 := present_parse_with data_start_v0 args_end.

(** [PresentArguments::empty().iter().next()] — what a present_fn / present_file extension
    gets when it looks at its arguments ([args: PresentArguments::empty()]). *)
Definition empty_args_next_with (at_end : nat -> nat -> bool) : outcome (option bytes) :=
  match args_loop at_end 1 [] [] 0 0 1 with
  | Ok [] => Ok None
  | Ok (a :: _) => Ok (Some a)
  | Err e => Err e
  | Panic => Panic
  end.
Definition empty_args_next := empty_args_next_with args_end.
Definition empty_args_next_v0 := empty_args_next_with args_end_v0.

(** ---- [impl DoubleEndedIterator for PresentArgumentsIter]: [next] and [next_back] as one state
    machine over [(index, back_index)] (live code: kvarn_extensions::templates calls
    [arguments.iter().rev()]).
      next:      if index >= back_index { None } else { extensions[data_index + index].get_arg(); index += 1 }
      next_back: if index >= back_index { None } else { extensions[data_index + back_index - 1].get_arg(); back_index -= 1 } *)
Section DoubleEnded.
Variable data : bytes.
Variable exts : list posdata.
Variable data_index : nat.
Definition arg_at (i : nat) : outcome bytes :=
  match nth_error exts i with                             (* self.data.extensions[i] *)
  | None => Panic
  | Some e => let '(s, l) := pd_arg e in slice_chk s (s + l) data
  end.
Definition de_state := (nat * nat)%type.                  (* index, back_index *)
Definition de_next (st : de_state) : outcome (option bytes * de_state) :=
  let '(index, back_index) := st in
  if Nat.leb back_index index then Ok (None, st)
  else obind (arg_at (data_index + index)) (fun a => Ok (Some a, (S index, back_index))).
Definition de_next_back (st : de_state) : outcome (option bytes * de_state) :=
  let '(index, back_index) := st in
  if Nat.leb back_index index then Ok (None, st)
  else if Nat.eqb (data_index + back_index) 0 then Panic  (* usize: data_index + back_index - 1 *)
  else obind (arg_at (data_index + back_index - 1)) (fun a => Ok (Some a, (index, (back_index - 1)%nat))).
(** [.iter().rev().collect()]: [next_back] until [None]. *)
Fixpoint de_back_all (fuel : nat) (st : de_state) : outcome (list bytes) :=
  match fuel with
  | O => Err E_FUEL_P
  | S fuel' =>
      obind (de_next_back st) (fun r =>
      match fst r with
      | None => Ok []
      | Some a => obind (de_back_all fuel' (snd r)) (fun l => Ok (a :: l))
      end)
  end.
(** an arbitrary interleaving: [true] = [next], [false] = [next_back]; returns what the front
    calls yielded (in call order) and what the back calls yielded (in call order). *)
Fixpoint de_drive (sched : list bool) (st : de_state) : outcome (list bytes * list bytes) :=
  match sched with
  | [] => Ok ([], [])
  | front :: r =>
      obind ((if front then de_next else de_next_back) st) (fun res =>
      obind (de_drive r (snd res)) (fun fb =>
      Ok (match fst res with
          | None => fb
          | Some a => if front then (a :: fst fb, snd fb) else (fst fb, a :: snd fb)
          end)))
  end.
End DoubleEnded.
(** [PresentArguments::iter()] starts at [(1, len)]. *)
Definition pa_args_back (data : bytes) (exts : list posdata) (pa : span) : outcome (list bytes) :=
  de_back_all data exts (fst pa) (S (snd pa)) (1%nat, snd pa).
Definition pa_args_drive (data : bytes) (exts : list posdata) (pa : span) (sched : list bool)
  : outcome (list bytes * list bytes) :=
  de_drive data exts (fst pa) sched (1%nat, snd pa).

(** What an extension sees that reads its arguments with [.iter().rev()] / with an interleaving
    of [next] and [next_back]: per extension of the line (name, forward args, result). *)
Definition present_parse_de {R} (f : bytes -> list posdata -> span -> outcome R) (data : bytes)
  : outcome (option (list (bytes * list bytes * R))) :=
  match pe_new data_start_fixed data with
  | Panic => Panic
  | Err e => Err e
  | Ok None => Ok None
  | Ok (Some (exts, data_start)) =>
      obind (iter_all (S (length exts)) exts 0) (fun pas =>
      obind (omap (fun pa => obind (pa_name data exts pa) (fun n =>
                             obind (pa_args args_end data exts pa) (fun a =>
                             obind (f data exts pa) (fun r => Ok (n, a, r))))) pas) (fun es =>
      Ok (Some es)))
  end.
Definition present_parse_rev := present_parse_de pa_args_back.
Definition present_parse_sched (sched : list bool) := present_parse_de (fun d e pa => pa_args_drive d e pa sched).
(** [PresentArguments::empty()] read from the back / by an interleaving *)
Definition empty_args_drive (sched : list bool) : outcome (list bytes * list bytes) := pa_args_drive [] [] (0%nat, 0%nat) sched.

(** ---- independent specification of the line format (token level) ----
    first line = up to the first LF, an optional CR before it belongs to the terminator;
    it must start with "!> "; the rest is split at spaces, empty pieces dropped; the word
    "&>" separates extensions; the first word of each group is the name. *)
Fixpoint split_words (cur : bytes) (s : bytes) : list bytes :=
  match s with
  | [] => match cur with [] => [] | _ => [rev cur] end
  | c :: r =>
      if c =? SPACE then (match cur with [] => split_words [] r | _ => rev cur :: split_words [] r end)
      else split_words (c :: cur) r
  end.
Fixpoint group_words (cur : option entry) (ws : list bytes) : list entry :=
  match ws with
  | [] => match cur with Some e => [e] | None => [] end
  | w :: r =>
      if beq w PRESENT_INTERNAL_AND_TRIMMED then
        (match cur with Some e => e :: group_words None r | None => group_words None r end)
      else
        match cur with
        | Some (n, a) => group_words (Some (n, a ++ [w])) r
        | None => group_words (Some (w, [])) r
        end
  end.
Definition strip_cr (line : bytes) : bytes :=
  match rev line with
  | c :: r => if c =? CR then rev r else line
  | [] => line
  end.
Definition spec_present (data : bytes) : option parsed :=
  match find_byte LF data with
  | None => None
  | Some lf =>
      let line := strip_cr (firstn lf data) in
      if starts_with PRESENT_INTERNAL_PREFIX line then
        Some {| p_entries := group_words None (split_words [] (skipn 3 line));
                p_data_start := S lf;
                p_body := skipn (S lf) data |}
      else None
  end.

(** ---- the grammar of the line, for the theorem [present_line_spec] ----
    A line is [!> ] followed by words joined by single spaces and ended by LF or CRLF; an empty
    word stands for one more space, so every run of spaces is covered; [&>] is an ordinary word
    of the list.  Words contain no space, CR or LF and are UTF-8. *)
Definition word_ok (w : bytes) : bool := forallb (fun c => negb (is_sep c)) w && utf8_valid w.
Fixpoint render_words (ws : list bytes) : bytes :=
  match ws with
  | [] => []
  | [w] => w
  | w :: r => w ++ SPACE :: render_words r
  end.
Definition line_end (crlf : bool) : bytes := if crlf then [CR; LF] else [LF].
Definition render_line (ws : list bytes) (crlf : bool) : bytes :=
  PRESENT_INTERNAL_PREFIX ++ render_words ws ++ line_end crlf.
Definition nonempty_words (ws : list bytes) : list bytes :=
  filter (fun w => match w with [] => false | _ => true end) ws.
(** the second conjunct: the line does not begin [!>  &> ] (then the parser returns [None]) *)
Definition line_words_ok (ws : list bytes) : Prop :=
  Forall (fun w => word_ok w = true) ws /\
  starts_with PRESENT_INTERNAL_AND (render_words ws ++ [LF]) = false.

(** ---- xval interface ---- *)
Definition x_pentry (e : entry) : xval := XL [XB (fst e); x_list XB (snd e)].
Definition x_parsed (p : parsed) : xval :=
  XL [x_list x_pentry (p_entries p); x_nat (p_data_start p); XB (p_body p)].
Definition run_present_with (f : bytes -> outcome (option parsed)) (x : xval) : xval :=
  match x with
  | XB data => x_outcome (x_option x_parsed) (f data)
  | _ => bad_input
  end.
Definition run_present := run_present_with present_parse.
Definition run_present_v0 := run_present_with present_parse_v0.
Definition run_present_spec := run_present_with (fun d => Ok (spec_present d)).
Definition run_empty_args (x : xval) : xval := x_outcome (x_option XB) empty_args_next.
Definition run_empty_args_v0 (x : xval) : xval := x_outcome (x_option XB) empty_args_next_v0.

(** structured input (L (L word...) crlf rest): the line is rendered from its words (joined by single
    spaces); [present.spec_line] is the right-hand side of the theorem [present_line_spec] where its
    hypothesis holds (decided by [words_ok_b]) and the model otherwise. *)
Definition words_ok_b (ws : list bytes) : bool :=
  forallb word_ok ws && negb (starts_with PRESENT_INTERNAL_AND (render_words ws ++ [LF])).
Definition d_line (x : xval) : option (list bytes * bool * bytes) :=
  match x with
  | XL [ws; c; XB rest] =>
      match d_list d_B ws, d_bool c with
      | Some ws, Some c => Some (ws, c, rest)
      | _, _ => None
      end
  | _ => None
  end.
Definition run_present_line (x : xval) : xval :=
  match d_line x with
  | Some (ws, c, rest) => x_outcome (x_option x_parsed) (present_parse (render_line ws c ++ rest))
  | None => bad_input
  end.
Definition run_present_spec_line (x : xval) : xval :=
  match d_line x with
  | Some (ws, c, rest) =>
      if words_ok_b ws then
        x_outcome (x_option x_parsed)
          (Ok (Some {| p_entries := group_words None (nonempty_words ws);
                       p_data_start := length (render_line ws c);
                       p_body := rest |}))
      else run_present_line x
  | None => bad_input
  end.
(** [present.parse_rev]: (B data) -> per extension (name, args by [iter()], args by [iter().rev()]);
    [present.rev_spec]: the same with the reversed list computed by [rev] (theorem [args_rev_is_reverse]).
    [present.sched]: (L (B data) (L bit...)) -> per extension (name, args, front yields, back yields). *)
Definition x_rev_entry (e : bytes * list bytes * list bytes) : xval :=
  XL [XB (fst (fst e)); x_list XB (snd (fst e)); x_list XB (snd e)].
Definition run_present_rev (x : xval) : xval :=
  match x with
  | XB data => x_outcome (x_option (x_list x_rev_entry)) (present_parse_rev data)
  | _ => bad_input
  end.
Definition run_present_rev_spec (x : xval) : xval :=
  match x with
  | XB data =>
      x_outcome (x_option (x_list x_rev_entry))
        (match present_parse data with
         | Ok (Some p) => Ok (Some (map (fun e => (fst e, snd e, rev (snd e))) (p_entries p)))
         | Ok None => Ok None
         | Err e => Err e
         | Panic => Panic
         end)
  | _ => bad_input
  end.
Definition x_sched_entry (e : bytes * list bytes * (list bytes * list bytes)) : xval :=
  XL [XB (fst (fst e)); x_list XB (snd (fst e)); x_list XB (fst (snd e)); x_list XB (snd (snd e))].
Definition d_sched (x : xval) : option (bytes * list bool) :=
  match x with
  | XL [XB data; bits] => match d_list d_bool bits with Some s => Some (data, s) | None => None end
  | _ => None
  end.
Definition run_present_sched (x : xval) : xval :=
  match d_sched x with
  | Some (data, sched) => x_outcome (x_option (x_list x_sched_entry)) (present_parse_sched sched data)
  | None => bad_input
  end.
(** the specification of a double-ended iterator: a deque on the list of arguments
    ([true] pops the front, [false] pops the back; an empty deque yields nothing) *)
Fixpoint deque_drive (sched : list bool) (l : list bytes) : list bytes * list bytes :=
  match sched with
  | [] => ([], [])
  | true :: r =>
      match l with
      | [] => deque_drive r []
      | a :: l' => let fb := deque_drive r l' in (a :: fst fb, snd fb)
      end
  | false :: r =>
      match l with
      | [] => deque_drive r []
      | _ :: _ => let fb := deque_drive r (removelast l) in (fst fb, last l [] :: snd fb)
      end
  end.
Definition sched_spec := deque_drive.
Definition run_present_sched_spec (x : xval) : xval :=
  match d_sched x with
  | Some (data, sched) =>
      x_outcome (x_option (x_list x_sched_entry))
        (match present_parse data with
         | Ok (Some p) => Ok (Some (map (fun e => (fst e, snd e, sched_spec sched (snd e))) (p_entries p)))
         | Ok None => Ok None
         | Err e => Err e
         | Panic => Panic
         end)
  | None => bad_input
  end.
Definition run_empty_sched (x : xval) : xval :=
  match d_list d_bool x with
  | Some sched => x_outcome (fun fb => XL [x_list XB (fst fb); x_list XB (snd fb)]) (empty_args_drive sched)
  | None => bad_input
  end.
(** [present.nopanic]: the statement of [present_never_panics] is checked on the implementation's
    output by the driver (outcome Ok, data_start <= len, body = input from data_start). *)
Definition run_nopanic (x : xval) : xval := XL [XN 0].

Definition presentline_table : list (bytes * (xval -> xval)) :=
  [ (B "present.parse", run_present);
    (B "present.parse_v0", run_present_v0);
    (B "present.spec", run_present_spec);
    (B "present.line", run_present_line);
    (B "present.spec_line", run_present_spec_line);
    (B "present.nopanic", run_nopanic);
    (B "present.empty_args", run_empty_args);
    (B "present.empty_args_v0", run_empty_args_v0);
    (B "present.parse_rev", run_present_rev);
    (B "present.rev_spec", run_present_rev_spec);
    (B "present.sched", run_present_sched);
    (B "present.sched_spec", run_present_sched_spec);
    (B "present.empty_sched", run_empty_sched) ].
