(** C02 — [url_crawl::LinkIter] (url-crawl/src/lib.rs, an anchor of the property): the iterator over the quoted
    links of an HTML / CSS / JS text.  [get_urls] (the resource filter) runs on every HTML page the HTTP/2 push
    extension serves, the absolute-path filter on upstream bodies of the reverse proxy.

    Byte-faithful: every slice is explicit ([slice_chk] = the indexing form, [Panic] when out of range;
    [slice_get] = the [get] form).  [v0 = true] is the code as it was: [self.data = &self.data[advance..]];
    [v0 = false] the repaired code ([self.data.get(advance..).unwrap_or(&[])], commit 4e78a7d).
    Definitions only. *)
From KV Require Import Bytes RustInt.
Open Scope N_scope.

Definition q_double : N := 34.    (* the double quote *)
Definition q_single : N := 39.    (* the single quote *)
Definition q_back : N := 96.      (* the backtick *)
Definition is_quote (c : N) : bool := (c =? q_double) || (c =? q_single) || (c =? q_back).
(** [QuoteType]: 0 = Single, 1 = Double, 2 = Backtick; [from_byte(..).unwrap()] *)
Definition quote_type (c : N) : outcome N :=
  if c =? q_double then Ok 1 else if c =? q_single then Ok 0 else if c =? q_back then Ok 2 else Panic.

(** [quote_illegal(data, final_byte)]: the length of the quote, [None] = not a link. *)
Fixpoint quote_illegal (interdomain : bool) (final : N) (data : bytes) (last_was_slash : bool) (ending : nat)
  : option nat :=
  match data with
  | [] => Some ending
  | b :: r =>
      if b =? final then Some ending else
      let illegal :=
        (b =? 92) || (b =? 42) || (b =? 10) ||
        (negb (final =? q_back) && ((b =? 36) || (b =? 123) || (b =? 125))) in
      if illegal then None else
      if (b =? 47) && last_was_slash && negb interdomain then None
      else
        let lws := if (b =? 47) && negb last_was_slash then true
                   else if last_was_slash then false else last_was_slash in
        quote_illegal interdomain final r lws (S ending)
  end.

(** [matches!(byte, ..)]: slash, closing parenthesis, colon, comma, bar, caret *)
Definition illegal_before (b : N) : bool :=
  (b =? 47) || (b =? 41) || (b =? 58) || (b =? 44) || (b =? 124) || (b =? 94).

(** The lead byte of a multi-byte UTF-8 character: how many bytes to skip after it (0 = not a lead byte). *)
Definition utf8_skip (b : N) : N :=
  if (192 <=? b) && (b <? 224) then 1
  else if (224 <=? b) && (b <? 240) then 2
  else if (240 <=? b) && (b <? 248) then 3 else 0.

Record found := { f_quote : bytes; f_before : bytes; f_advance : nat; f_type : N }.

(** [next_quote]: walks [rest = all[pos..]]; the two fields of [self] it updates are threaded. *)
Fixpoint next_quote (filter : bytes -> nat -> bool) (interdomain : bool) (all rest : bytes) (pos : nat)
    (last_illegal : bool) (invalid : N) {struct rest} : outcome (option found * bool * N) :=
  match rest with
  | [] => Ok (None, last_illegal, invalid)
  | byte :: r =>
      if 0 <? invalid then next_quote filter interdomain all r (S pos) last_illegal (invalid - 1)
      else if 0 <? utf8_skip byte then next_quote filter interdomain all r (S pos) last_illegal (utf8_skip byte)
      else
        let go_on := next_quote filter interdomain all r (S pos) (illegal_before byte) invalid in
        if negb last_illegal && is_quote byte && filter all pos then
          obind (quote_type byte) (fun qt =>
          obind (slice_chk (S pos) (length all) all) (fun quote =>                 (* &self.data[pos + 1..] *)
          match quote_illegal interdomain byte quote false O with
          | Some ending =>
              if (2 <? ending)%nat then
                obind (slice_chk 0 ending quote) (fun q =>                         (* &quote[..ending] *)
                match q with
                | [] => go_on
                | _ =>
                    obind (slice_chk 0 (S pos) all) (fun before =>                 (* &self.data[..=pos] *)
                    Ok (Some {| f_quote := q; f_before := before; f_advance := (pos + 1 + ending + 1)%nat; f_type := qt |},
                        last_illegal, invalid))
                end)
              else go_on
          | None => go_on
          end))
        else go_on
  end.

Inductive item := IPath (path before : bytes) (qt : N) | ILast (rest : bytes).

(** [Iterator::next], [fuel] times at most (every call consumes at least one byte or ends the iteration). *)
Fixpoint link_items (v0 : bool) (filter : bytes -> nat -> bool) (interdomain : bool) (fuel : nat)
    (data : bytes) (last_illegal : bool) (invalid : N) : outcome (list item) :=
  match fuel with
  | O => Ok []
  | S f =>
      match data with
      | [] => Ok []
      | _ =>
          obind (next_quote filter interdomain data data 0 last_illegal invalid) (fun r =>
          let '(fo, li, inv) := r in
          match fo with
          | None => Ok [ILast data]
          | Some fd =>
              obind (if v0 then slice_chk (f_advance fd) (length data) data       (* &self.data[advance..] *)
                     else Ok (match slice_get (f_advance fd) (length data) data with Some d => d | None => [] end))
                    (fun data' =>
              obind (link_items v0 filter interdomain f data' li inv) (fun l =>
              Ok (IPath (f_quote fd) (f_before fd) (f_type fd) :: l)))
          end)
      end
  end.
Definition link_iter (v0 : bool) (filter : bytes -> nat -> bool) (interdomain : bool) (data : bytes) : outcome (list item) :=
  link_items v0 filter interdomain (S (length data)) data false 0.

(** ** The two filters of the crate *)

(** [filters::absolute_path]: the byte after the quote is a slash ([data.get(pos + 1)]) *)
Definition filter_absolute (data : bytes) (pos : nat) : bool :=
  match nth_error data (S pos) with Some c => c =? 47 | None => false end.

(** [memchr::memrchr(byte, s)] *)
Fixpoint rfind_byte (c : N) (s : bytes) (i : nat) (acc : option nat) : option nat :=
  match s with
  | [] => acc
  | x :: r => rfind_byte c r (S i) (if x =? c then Some i else acc)
  end.
Definition get_eq (lo hi : nat) (data expect : bytes) : bool :=
  match slice_get lo hi data with Some s => beq s expect | None => false end.

Definition s_bg : bytes := Eval vm_compute in B "background-image: url(".
Definition s_src : bytes := Eval vm_compute in B " src=".
Definition s_href : bytes := Eval vm_compute in B " href=".
Definition s_link : bytes := Eval vm_compute in B "<link".
Definition s_lazy_d : bytes := Eval vm_compute in B "loading=" ++ [34] ++ B "lazy" ++ [34].
Definition s_lazy_s : bytes := Eval vm_compute in B "loading='lazy'".
Definition s_css_d : bytes := Eval vm_compute in B "rel=" ++ [34] ++ B "stylesheet" ++ [34].
Definition s_css_s : bytes := Eval vm_compute in B "rel='stylesheet'".
Definition s_mod_d : bytes := Eval vm_compute in B "rel=" ++ [34] ++ B "modulepreload" ++ [34].
Definition s_mod_s : bytes := Eval vm_compute in B "rel='modulepreload'".

(** [filters::resource].  [&data[..pos]], [&data[tag_start..]], [&data[tag_start..tag_len + tag_start]] are in
    range for every [pos <= len]; out of range is the model's [false] (never reached: [pos < len]). *)
Definition filter_resource (data : bytes) (pos : nat) : bool :=
  let is_css := get_eq (pos - 22) pos data s_bg in
  if negb (match nth_error data (pos - 1) with Some c => c =? 61 | None => false end) then is_css else
  let tag_start := match rfind_byte 60 (firstn pos data) 0 None with Some i => i | None => O end in
  let tag := skipn tag_start data in
  let tag_contents := match find_byte 62 tag with Some n => firstn n tag | None => tag end in
  let is_source := get_eq (pos - 5) pos data s_src && negb (contains_sub s_lazy_d tag_contents)
                   && negb (contains_sub s_lazy_s tag_contents) in
  let is_link := get_eq (pos - 6) pos data s_href && starts_with s_link tag_contents &&
                 (contains_sub s_css_d tag_contents || contains_sub s_css_s tag_contents ||
                  contains_sub s_mod_d tag_contents || contains_sub s_mod_s tag_contents) in
  is_source || is_link || is_css.

(** ** xval interface *)
Definition x_item (i : item) : xval :=
  match i with
  | IPath p b qt => XL [XN 1; XB p; XN (N.of_nat (length b)); XN qt]
  | ILast r => XL [XN 0; XB r]
  end.
(** component urls.iter: (L (N filter) (N interdomain) (B data)) -> outcome of the items; filter 0 = every quote,
    1 = [filters::absolute_path], 2 = [filters::resource] *)
Definition run_urls_iter_with (v0 : bool) (x : xval) : xval :=
  match x with
  | XL [XN f; i; XB data] =>
      match d_bool i with
      | Some inter =>
          let filter := if f =? 1 then filter_absolute else if f =? 2 then filter_resource else (fun _ _ => true) in
          x_outcome (x_list x_item) (link_iter v0 filter inter data)
      | None => bad_input
      end
  | _ => bad_input
  end.
Definition run_urls_iter := run_urls_iter_with false.

Definition urlcrawl_table : list (bytes * (xval -> xval)) :=
  [ (B "urls.iter", run_urls_iter) ].
