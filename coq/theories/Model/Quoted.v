(** C19 — model of [kvarn_utils::encode_quoted_str] and [kvarn_utils::quoted_str_split]
    (utils/src/lib.rs) and of the two places that join encoded arguments:
    the [ping] plugin (src/ctl.rs, with_ping) and the kvarnctl client (ctl/src/main.rs).

    The Rust code iterates over [char]s, so a string is a list of code points ([N]);
    four code points are distinguished: space, double quote, single quote, backslash.
    Nothing in the definitions restricts the other values: the theorems hold for all
    lists of [N], a superset of Rust strings.
    Definitions only; proofs live in Proofs/QuotedProofs.v. *)
From KV Require Export Bytes.
Open Scope N_scope.

Definition str := list N.            (* a Rust [&str] as its [chars()] *)

Definition c_space : N := 32.        (* ' '  *)
Definition c_dquote : N := 34.       (* double quote *)
Definition c_squote : N := 39.       (* '\'' *)
Definition c_bslash : N := 92.       (* '\\' *)

(** ---- encode_quoted_str -------------------------------------------------------- *)

(** the body of [for c in src.chars() { match c { .. } }] *)
Definition encode_char (c : N) : str :=
  if c =? c_dquote then [c_bslash; c_dquote]
  else if c =? c_bslash then [c_bslash; c_bslash]
  else [c].

(** [encode_quoted_str(src, dest)]: what is appended to [dest]. *)
Definition encode_quoted_str (src : str) : str :=
  [c_dquote] ++ flat_map encode_char src ++ [c_dquote].

(** ---- quoted_str_split ------------------------------------------------------------ *)

Inductive in_quotes := QNo | QSingle | QDouble.
Definition quoted (q : in_quotes) : bool :=
  match q with QNo => false | QSingle | QDouble => true end.

(** [QuotedStrSplitIter] without the character iterator.
    [closed_quote] (added by the repair): a quoted section was closed in the token that
    is being built, so the token exists even if [current] is empty. *)
Record split_state := {
  quotes : in_quotes;
  current : str;
  escaped : N;
  closed_quote : bool }.

Definition split_init : split_state :=
  {| quotes := QNo; current := []; escaped := 0; closed_quote := false |}.

Definition is_empty (s : str) : bool := match s with [] => true | _ => false end.

(** One iteration of the [loop] in [next] for [Some(c)]: the new state and, when the
    iteration executes [return Some(..)], the returned token. *)
Definition split_step (st : split_state) (c : N) : split_state * option str :=
  let q := quotes st in
  let cur := current st in
  let cq := closed_quote st in
  (* if c == '\\' { self.escaped += 1; match self.escaped { 1 => continue, 2 => {..; continue} _ => {} } } *)
  let esc := if c =? c_bslash then escaped st + 1 else escaped st in
  if (c =? c_bslash) && (esc =? 1) then
    ({| quotes := q; current := cur; escaped := esc; closed_quote := cq |}, None)
  else if (c =? c_bslash) && (esc =? 2) then
    ({| quotes := q; current := cur ++ [c_bslash]; escaped := 0; closed_quote := cq |}, None)
  else
    (* the code after the match: if c != '\\' { escaped = 0 }; current.push(c) *)
    let push :=
      ({| quotes := q; current := cur ++ [c];
          escaped := if c =? c_bslash then esc else 0; closed_quote := cq |}, None) in
    if esc =? 1 then push
    else if (c =? c_space) && negb (quoted q) then
      if is_empty cur && negb cq then
        ({| quotes := q; current := cur; escaped := esc; closed_quote := cq |}, None)   (* continue *)
      else
        ({| quotes := q; current := []; escaped := esc; closed_quote := false |}, Some cur)
    else if c =? c_dquote then
      match q with
      | QNo => ({| quotes := QDouble; current := cur; escaped := esc; closed_quote := cq |}, None)
      | QDouble => ({| quotes := QNo; current := cur; escaped := esc; closed_quote := true |}, None)
      | QSingle => push
      end
    else if c =? c_squote then
      match q with
      | QNo => ({| quotes := QSingle; current := cur; escaped := esc; closed_quote := cq |}, None)
      | QSingle => ({| quotes := QNo; current := cur; escaped := esc; closed_quote := true |}, None)
      | QDouble => push
      end
    else push.

(** The [None] arm: the last token, if any. *)
Definition split_end (st : split_state) : list str :=
  if negb (is_empty (current st)) || closed_quote st then [current st] else [].

(** All items of the iterator, started in state [st] on the characters [s]
    ([.collect::<Vec<_>>()]). *)
Fixpoint split_from (st : split_state) (s : str) : list str :=
  match s with
  | [] => split_end st
  | c :: r =>
      match split_step st c with
      | (st', None) => split_from st' r
      | (st', Some tok) => tok :: split_from st' r
      end
  end.

Definition quoted_str_split (s : str) : list str := split_from split_init s.

(** ---- joining --------------------------------------------------------------------------- *)

(** [kvarn_utils::join(iter, " ")] *)
Fixpoint join_sp (l : list str) : str :=
  match l with
  | [] => []
  | [a] => a
  | a :: r => a ++ [c_space] ++ join_sp r
  end.

(** The [ping] plugin: fold pushing ' ' then the encoded argument, then [data.remove(0)]
    if non-empty. *)
Definition ping_fold (args : list str) : str :=
  fold_left (fun acc arg => acc ++ [c_space] ++ encode_quoted_str arg) args [].
Definition ping_data (args : list str) : str :=
  match ping_fold args with [] => [] | _ :: r => r end.

(** kvarnctl: with at least one argument the command and every argument are encoded and
    separated by one space; a command without arguments is sent as typed. *)
Definition client_message (command : str) (args : list str) : str :=
  match args with
  | [] => command
  | _ => fold_left (fun acc arg => acc ++ [c_space] ++ encode_quoted_str arg) args (encode_quoted_str command)
  end.

(** ---- specification (independent of the splitter's structure) ------------------------------ *)

(** What an operator expects: what was typed is what arrives. *)
Definition roundtrip_spec (l : list str) : list str := l.

(** [subseq x s]: [x] is [s] with some elements left out (order kept). Used to say that the
    splitter only ever drops characters: it never invents, duplicates or reorders one. *)
Inductive subseq : str -> str -> Prop :=
| sub_nil : subseq [] []
| sub_skip : forall x c s, subseq x s -> subseq x (c :: s)
| sub_take : forall x c s, subseq x s -> subseq (c :: x) (c :: s).

(** ---- xval interface ----------------------------------------------------------------------------- *)
Definition x_str (s : str) : xval := XL (map XN s).
Definition d_str (x : xval) : option str := d_list d_N x.

(** quoted.encode : string -> string *)
Definition run_encode (x : xval) : xval :=
  match d_str x with Some s => x_str (encode_quoted_str s) | None => bad_input end.
(** quoted.split : string -> list of strings *)
Definition run_split (x : xval) : xval :=
  match d_str x with Some s => x_list x_str (quoted_str_split s) | None => bad_input end.
(** quoted.roundtrip : list of strings -> split (join " " (map encode l)) *)
Definition run_roundtrip (x : xval) : xval :=
  match d_list d_str x with
  | Some l => x_list x_str (quoted_str_split (join_sp (map encode_quoted_str l)))
  | None => bad_input
  end.
(** quoted.ping : list of strings -> split (the ping plugin's data) *)
Definition run_ping_data (x : xval) : xval :=
  match d_list d_str x with
  | Some l => XL [x_str (ping_data l); x_list x_str (quoted_str_split (ping_data l))]
  | None => bad_input
  end.
(** quoted.client : (command, args) -> split (kvarnctl's message) *)
Definition run_client (x : xval) : xval :=
  match x with
  | XL [c; a] =>
      match d_str c, d_list d_str a with
      | Some c, Some a => XL [x_str (client_message c a); x_list x_str (quoted_str_split (client_message c a))]
      | _, _ => bad_input
      end
  | _ => bad_input
  end.
(** spec component: the list itself *)
Definition run_roundtrip_spec (x : xval) : xval :=
  match d_list d_str x with
  | Some l => x_list x_str (roundtrip_spec l)
  | None => bad_input
  end.

(** spec component for quoted.client (used only with at least one argument) *)
Definition run_client_spec (x : xval) : xval :=
  match x with
  | XL [c; a] =>
      match d_str c, d_list d_str a with
      | Some c, Some a => x_list x_str (roundtrip_spec (c :: a))
      | _, _ => bad_input
      end
  | _ => bad_input
  end.

Definition quoted_table : list (bytes * (xval -> xval)) :=
  [ (B "quoted.encode", run_encode);
    (B "quoted.split", run_split);
    (B "quoted.roundtrip", run_roundtrip);
    (B "quoted.roundtrip.spec", run_roundtrip_spec);
    (B "quoted.ping", run_ping_data);
    (B "quoted.client", run_client);
    (B "quoted.client.spec", run_client_spec) ].
