(** C02 — [If-Modified-Since] on a cache hit (src/lib.rs [handle_cache]):

      request.headers().get("if-modified-since").and_then(|h| h.to_str().ok())
          .and_then(|s| time::PrimitiveDateTime::parse(s, &comprash::HTTP_DATE).ok().map(assume_utc))
      client_request_is_fresh = if_modified_since.map_or(false, |timestamp| timestamp >= creation - 1.seconds())

    [HTTP_DATE] = "[weekday repr:short case_sensitive:true], [day padding:zero] [month repr:short
    case_sensitive:true] [year padding:zero repr:full base:calendar sign:automatic] [hour repr:24
    padding:zero]:[minute padding:zero]:[second padding:zero] GMT", parsed by the [time] crate (0.3.55,
    without [large-dates]): every component is a fixed number of digits or one of a fixed list of names, the
    literals must match, nothing may follow; the weekday is parsed but NOT compared with the date; a sign
    before the year is accepted; the date must exist ([Date::from_calendar_date]) and the time be below
    24:60:60 ([Time::from_hms]).  [OffsetDateTime] covers the years -9999..=9999; [odt - Duration] and
    [odt + Duration] panic ("resulting value is out of range") outside.

    Instants are seconds relative to 1970-01-01T00:00:00Z, in [Z].  Definitions only. *)
From Coq Require Import ZArith.
From KV Require Import Bytes RustInt.
From KV Require Http1Read.
Open Scope N_scope.

Definition wd_names : list bytes :=
  Eval vm_compute in [B "Mon"; B "Tue"; B "Wed"; B "Thu"; B "Fri"; B "Sat"; B "Sun"].
Definition mon_names : list bytes :=
  Eval vm_compute in [B "Jan"; B "Feb"; B "Mar"; B "Apr"; B "May"; B "Jun"; B "Jul"; B "Aug"; B "Sep"; B "Oct"; B "Nov"; B "Dec"].
Definition lit_comma_sp : bytes := Eval vm_compute in B ", ".
Definition lit_sp : bytes := Eval vm_compute in B " ".
Definition lit_colon : bytes := Eval vm_compute in B ":".
Definition lit_gmt : bytes := Eval vm_compute in B " GMT".

(** [input.strip_prefix(literal)] *)
Fixpoint strip_prefix (p s : bytes) : option bytes :=
  match p, s with
  | [], _ => Some s
  | a :: p', c :: s' => if a =? c then strip_prefix p' s' else None
  | _ :: _, [] => None
  end.

(** [parse_weekday_short] / [parse_month_short] (case sensitive): the first three bytes are one of the names;
    the answer is the 1-based index. *)
Fixpoint name_index (names : list bytes) (three : bytes) (i : N) : option N :=
  match names with
  | [] => None
  | n :: r => if beq n three then Some i else name_index r three (i + 1)
  end.
Definition parse_name (names : list bytes) (s : bytes) : option (N * bytes) :=
  match s with
  | a :: b :: c :: rest => match name_index names [a; b; c] 1 with Some i => Some (i, rest) | None => None end
  | _ => None
  end.

(** [exactly_n_digits_padded::<N>(Padding::Zero)] = [n_to_m_digits::<N, N>]: exactly [n] ASCII digits. *)
Fixpoint digits_n (n : nat) (acc : N) (s : bytes) : option (N * bytes) :=
  match n with
  | O => Some (acc, s)
  | S k => match s with
           | c :: r => if is_digit c then digits_n k (acc * 10 + (c - 48)) r else None
           | [] => None
           end
  end.

(** [parse_calendar_year_full_standard_range], [sign:automatic]: an optional sign, then exactly four digits. *)
Definition parse_year (s : bytes) : option (Z * bytes) :=
  match s with
  | 45 :: r => match digits_n 4 0 r with Some (y, r') => Some (Z.opp (Z.of_N y), r') | None => None end
  | 43 :: r => match digits_n 4 0 r with Some (y, r') => Some (Z.of_N y, r') | None => None end
  | _ => match digits_n 4 0 s with Some (y, r') => Some (Z.of_N y, r') | None => None end
  end.

Definition is_leap (y : Z) : bool :=
  ((y mod 4 =? 0) && (negb (y mod 100 =? 0) || (y mod 400 =? 0)))%Z.
Definition days_in_month (y : Z) (m : N) : N :=
  if m =? 2 then (if is_leap y then 29 else 28)
  else if (m =? 4) || (m =? 6) || (m =? 9) || (m =? 11) then 30 else 31.

(** Days since 1970-01-01 of a date of the proleptic Gregorian calendar (civil-from-days, inverted). *)
Definition days_from_civil (y : Z) (m d : N) : Z :=
  (let y' := if (m <=? 2)%N then y - 1 else y in
   let era := y' / 400 in
   let yoe := y' - era * 400 in
   let mp := Z.of_N ((m + 9) mod 12) in
   let doy := (153 * mp + 2) / 5 + Z.of_N d - 1 in
   let doe := yoe * 365 + yoe / 4 - yoe / 100 + doy in
   era * 146097 + doe - 719468)%Z.

Definition instant (y : Z) (mo d h mi s : N) : Z :=
  (days_from_civil y mo d * 86400 + Z.of_N (h * 3600 + mi * 60 + s))%Z.

(** The first and the last second an [OffsetDateTime] (UTC) can hold. *)
Definition odt_min : Z := Eval vm_compute in instant (-9999) 1 1 0 0 0.
Definition odt_max : Z := Eval vm_compute in instant 9999 12 31 23 59 59.

Definition obind_opt {A C} (o : option A) (f : A -> option C) : option C :=
  match o with Some a => f a | None => None end.

(** [PrimitiveDateTime::parse(s, &HTTP_DATE).ok().map(assume_utc)] as an instant. *)
Definition parse_http_date (s : bytes) : option Z :=
  obind_opt (parse_name wd_names s) (fun '(_, s) =>
  obind_opt (strip_prefix lit_comma_sp s) (fun s =>
  obind_opt (digits_n 2 0 s) (fun '(d, s) =>
  obind_opt (strip_prefix lit_sp s) (fun s =>
  obind_opt (parse_name mon_names s) (fun '(mo, s) =>
  obind_opt (strip_prefix lit_sp s) (fun s =>
  obind_opt (parse_year s) (fun '(y, s) =>
  obind_opt (strip_prefix lit_sp s) (fun s =>
  obind_opt (digits_n 2 0 s) (fun '(h, s) =>
  obind_opt (strip_prefix lit_colon s) (fun s =>
  obind_opt (digits_n 2 0 s) (fun '(mi, s) =>
  obind_opt (strip_prefix lit_colon s) (fun s =>
  obind_opt (digits_n 2 0 s) (fun '(sec, s) =>
  obind_opt (strip_prefix lit_gmt s) (fun s =>
  match s with
  | _ :: _ => None                                           (* UnexpectedTrailingCharacters *)
  | [] =>
      if (1 <=? d) && (d <=? days_in_month y mo) && (h <? 24) && (mi <? 60) && (sec <? 60)
      then Some (instant y mo d h mi sec) else None
  end)))))))))))))).

(** [OffsetDateTime - Duration] / [+ Duration] with whole seconds: [checked_sub(..).expect(..)]. *)
Definition odt_shift (t delta : Z) : outcome Z :=
  (if (odt_min <=? t + delta) && (t + delta <=? odt_max) then Ok (t + delta) else Panic)%Z.

(** [client_request_is_fresh].  [creation]: the second in which the cache entry was made ([creation] itself has
    a sub-second part; the header has none, so [timestamp >= creation - 1s] with [creation] floored to its
    second is [timestamp >= floor - 1] unless the sub-second part is zero — outside a second around
    [creation] the two agree, and the generator keeps away from it).
    [plus_variant = false]: the code ([timestamp >= creation - 1.seconds()], arithmetic on the server's clock);
    [plus_variant = true]: the equivalent-looking rewrite [timestamp + 1.seconds() >= creation] (arithmetic
    on the client's date). *)
Definition ims_fresh (plus_variant : bool) (creation : Z) (hdr : option bytes) : outcome bool :=
  match hdr with
  | None => Ok false
  | Some v =>
      if negb (Http1Read.hv_to_str_ok v) then Ok false else
      match parse_http_date v with
      | None => Ok false
      | Some ts =>
          if plus_variant then obind (odt_shift ts 1) (fun t1 => Ok (creation <=? t1)%Z)
          else obind (odt_shift creation (-1)) (fun c1 => Ok (c1 <=? ts)%Z)
      end
  end.

(** component ims.decide: (L (N t0) (B value)) -> outcome status (304 = not modified, 200 = the page) *)
Definition run_ims_decide (x : xval) : xval :=
  match x with
  | XL [XN t0; XB v] =>
      x_outcome (fun fresh : bool => XN (if fresh then 304 else 200)) (ims_fresh false (Z.of_N t0) (Some v))
  | _ => bad_input
  end.

Definition ims_table : list (bytes * (xval -> xval)) :=
  [ (B "ims.decide", run_ims_decide) ].
