(** C03 / C04 — the response-cache layer ([kvarn::handle_cache], src/lib.rs;
    [MokaCache::{get_cache_item, insert, insert_cache_item}], [UriKey], [PathQuery],
    [ServerCachePreference::cache], src/comprash.rs; [Collection::clear_page], src/host.rs)
    above an abstract handler layer [compute].  Definitions only. *)
From KV Require Export Bytes RustInt Range CacheControl.
Open Scope N_scope.

(** ---- requests ---- *)
Definition M_GET : N := 0. Definition M_HEAD : N := 1. Definition M_POST : N := 2.
Definition M_OPTIONS : N := 3. Definition M_OTHER : N := 4.
Definition method_of_bytes (m : bytes) : N :=
  if beq m (B "GET") then M_GET else if beq m (B "HEAD") then M_HEAD
  else if beq m (B "POST") then M_POST else if beq m (B "OPTIONS") then M_OPTIONS else M_OTHER.
Definition get_or_head (m : N) : bool := (m =? M_GET) || (m =? M_HEAD).

Record request := mkReq {
  rq_method : N;
  rq_path : bytes;                (* raw path, as in the URI *)
  rq_query : option bytes;        (* [Uri::query]: None when there is no '?' *)
  rq_headers : list (bytes * bytes);  (* lower-case names *)
  rq_addr : N }.
Definition header (n : bytes) (r : request) : option bytes := assoc n (rq_headers r).

(** [extensions::uri_redirect_target] with the default [host::Options] ([extension_default] = "html",
    [folder_default] = "index.html"): "<p>." -> "<p>.html", "<p>/" -> "<p>/index.html", the query is kept;
    [None] when the URI is left as it is.  Used by the default Prime extension "Expand . and /"
    (Model/Fixture.v [uri_redirect]) and, since kvarn 8ff8142, by [Collection::clear_page]. *)
Definition redirect_target (r : request) : option request :=
  match rev (rq_path r) with
  | c :: _ =>
      if c =? 46 then Some (mkReq (rq_method r) (rq_path r ++ B "html") (rq_query r) (rq_headers r) (rq_addr r))
      else if c =? 47 then Some (mkReq (rq_method r) (rq_path r ++ B "index.html") (rq_query r) (rq_headers r) (rq_addr r))
      else None
  | [] => None
  end.

(** ---- what the layer below the cache returns ([FatResponse]) ---- *)
Definition SP_NONE : N := 0. Definition SP_QUERY : N := 1. Definition SP_FULL : N := 2. Definition SP_MAXAGE : N := 3.
Record fat := mkFat {
  f_status : N;
  f_headers : list (bytes * bytes);
  f_body : bytes;
  f_spref : N;
  f_compress : bool }.

(** ---- cache keys ([UriKey]) ---- *)
Inductive key :=
| KPath (p : bytes)
| KPathQuery (s : bytes) (query_start : nat).

Definition key_eqb (a c : key) : bool :=
  match a, c with
  | KPath p, KPath q => beq p q
  | KPathQuery s i, KPathQuery t j => beq s t && Nat.eqb i j
  | _, _ => false
  end.

(** [PathQuery::from(&Uri)] *)
Definition path_query (r : request) : bytes * nat :=
  match rq_query r with
  | Some q => (rq_path r ++ q, length (rq_path r))
  | None => (rq_path r, length (rq_path r))
  end.
Definition key_pq (r : request) : key := let '(s, i) := path_query r in KPathQuery s i.
Definition key_p (r : request) : key := KPath (rq_path r).   (* [into_path] = truncate to query_start *)

(** ---- entries ---- *)
Definition tuple := list bytes.              (* transformed vary values *)
Record entry := mkEntry {
  e_vars : list (tuple * fat);               (* variants, as an association list *)
  e_created : N;                             (* ms *)
  e_life : option N }.                       (* ms; None = never expires *)
Definition cache := list (key * entry).

Fixpoint c_find (k : key) (c : cache) : option entry :=
  match c with
  | [] => None
  | (k', e) :: r => if key_eqb k k' then Some e else c_find k r
  end.
Fixpoint c_remove (k : key) (c : cache) : cache :=
  match c with
  | [] => []
  | (k', e) :: r => if key_eqb k k' then c_remove k r else (k', e) :: c_remove k r
  end.
Definition c_insert (k : key) (e : entry) (c : cache) : cache := (k, e) :: c_remove k c.

Definition fresh (e : entry) (now : N) : bool :=
  match e_life e with None => true | Some l => now - e_created e <=? l end.

(** [get_cache_item]: an expired entry is invalidated and reported absent. *)
Definition get_item (k : key) (c : cache) (now : N) : option entry * cache :=
  match c_find k c with
  | Some e => if fresh e now then (Some e, c) else (None, c_remove k c)
  | None => (None, c)
  end.

(** lookup order of [handle_cache]: PathQuery key, then Path key. *)
Definition lookup (r : request) (c : cache) (now : N) : (key * option entry) * cache :=
  match get_item (key_pq r) c now with
  | (Some e, c') => ((key_pq r, Some e), c')
  | (None, c') =>
      match get_item (key_p r) c' now with
      | (res, c'') => ((key_p r, res), c'')
      end
  end.

(** ---- admission ([get_cache] + [maybe_cache] + [MokaCache::insert] + the repaired
    [insert_cache_item], which honours [kvarn-cache-control: none]) ---- *)
Definition status_filter_drop (s : N) : bool :=
  ((400 <=? s) && (s <=? 403)) || ((405 <=? s) && (s <=? 409)) || ((411 <=? s) && (s <=? 499))
  || ((100 <=? s) && (s <=? 199)) || (s =? 304).
Definition size_limit : N := 4194304.

Definition pref_caches (sp : N) : bool := negb (sp =? SP_NONE).
Definition kvarn_none (f : fat) : bool :=
  match assoc (B "kvarn-cache-control") (f_headers f) with
  | Some v =>
      match (if to_str_ok v then from_kvarn_cache_control false v else Err 5) with
      | Ok c => negb (cc_store c)
      | _ => false
      end
  | None => false
  end.

(** [cache_on]: host has a response cache; streams are not modelled (no handler of the
    fixture menu streams; the theorem's [stream = false] case). *)
Definition wants_cache (cache_on : bool) (m : N) (f : fat) : bool :=
  cache_on && pref_caches (f_spref f) && negb (status_filter_drop (f_status f)) && get_or_head m.
Definition may_store (cache_on : bool) (m : N) (f : fat) : bool :=
  wants_cache cache_on m f && (N.of_nat (length (f_body f)) <? size_limit) && negb (kvarn_none f).

Definition lifetime_ms (f : fat) : option N :=
  match cc_from_headers false (f_headers f) with
  | Ok c => option_map (fun s => s * 1000) (cc_freshness c)
  | _ => None
  end.

Definition insert_key (r : request) (f : fat) : key :=
  if f_spref f =? SP_QUERY then key_pq r else key_p r.

(** ---- If-Modified-Since ---- *)
(** creation time floored to the second, minus one second, compared with the client's date
    ([timestamp >= creation - 1s]); times in ms, the client's date in whole seconds. *)
Definition ims_fresh (ims_s : Z) (created_ms : N) : bool :=
  (Z.of_N created_ms - 1000 <=? ims_s * 1000)%Z.

(** ---- replies ---- *)
Record reply := mkReply {
  rp_status : N;
  rp_headers : list (bytes * bytes);
  rp_body : bytes;              (* identity (decoded) body sent *)
  rp_identity : bytes;          (* [CacheReply::identity_body] *)
  rp_last_modified : bool;      (* a last-modified header is present *)
  rp_from_cache : bool }.

Section Layer.
  (** the layer below: handlers with their own state [hs] (e.g. invocation counters) and a log *)
  Variable hstate : Type.
  Variable compute : hstate -> request -> bool (* sanitize ok *) -> fat * hstate * list bytes.
  Variable cache_on : bool.
  Variable ims_on : bool.                                   (* not disable_if_modified_since *)
  Variable parse_ims : bytes -> option Z.                   (* HTTP-date parser (seconds) *)
  Variable sanitize_ok : request -> bool.                   (* [sanitize_request(..).is_ok()] *)
  Variable prime : request -> request.                      (* non-internal Prime rewrites *)
  (** content negotiation is orthogonal here: the reply carries the identity body;
      [negotiate] may turn a response into 406 (C06) *)
  Variable negotiate : request -> fat -> option (N * bytes). (* None = ok as is; Some (status, body) *)
  Variable vary_tuple : request -> tuple.                   (* transformed tuple of the path's rules *)
  Variable vary_header : request -> fat -> list (bytes * bytes).

  Definition finish (r : request) (f : fat) (lm cached : bool) : reply :=
    match negotiate r f with
    | Some (st, body) =>
        {| rp_status := st; rp_headers := vary_header r (mkFat st [] body SP_NONE false);
           rp_body := body; rp_identity := f_body f; rp_last_modified := lm; rp_from_cache := cached |}
    | None =>
        {| rp_status := f_status f; rp_headers := f_headers f ++ vary_header r f;
           rp_body := f_body f; rp_identity := f_body f; rp_last_modified := lm; rp_from_cache := cached |}
    end.

  Fixpoint tuple_eqb (a c : tuple) : bool :=
    match a, c with
    | [], [] => true
    | x :: a', y :: c' => beq x y && tuple_eqb a' c'
    | _, _ => false
    end.
  Fixpoint v_find (t : tuple) (vs : list (tuple * fat)) : option fat :=
    match vs with
    | [] => None
    | (t', f) :: r => if tuple_eqb t t' then Some f else v_find t r
    end.

  Definition state := (cache * hstate)%type.

  (** the miss arm: compute, maybe store. [last-modified] is added whenever [maybe_cache] went to the
      cache (even if the insert was then refused for size or [kvarn-cache-control: none]). *)
  Definition miss (c1 : cache) (hs : hstate) (now : N) (r : request) (ok : bool) : state * reply * list bytes :=
    let '(f, hs', lg) := compute hs r ok in
    let lm := ims_on && wants_cache cache_on (rq_method r) f in
    if may_store cache_on (rq_method r) f then
      let e' := {| e_vars := [(vary_tuple r, f)]; e_created := now; e_life := lifetime_ms f |} in
      ((c_insert (insert_key r f) e' c1, hs'), finish r f lm false, lg)
    else ((c1, hs'), finish r f lm false, lg).

  (** [handle_cache] for one request at time [now] (ms). Returns the new state, the reply and the handler log. *)
  Definition serve (st : state) (now : N) (r0 : request) : state * reply * list bytes :=
    let '(c, hs) := st in
    let ok := sanitize_ok r0 in
    let r := prime r0 in
    if negb cache_on then
      let '(f, hs', lg) := compute hs r ok in
      ((c, hs'), finish r f false false, lg)
    else
    let '((k, found), c1) := lookup r c now in
    match found with
    | Some e =>
        if ok && get_or_head (rq_method r) then
          let ims := if ims_on then match header (B "if-modified-since") r with
                                    | Some v => parse_ims v | None => None end
                     else None in
          if match ims with Some t => ims_fresh t (e_created e) | None => false end then
            ((c1, hs),
             {| rp_status := 304; rp_headers := []; rp_body := []; rp_identity := [];
                rp_last_modified := ims_on; rp_from_cache := true |}, [])
          else
            match v_find (vary_tuple r) (e_vars e) with
            | Some f => ((c1, hs), finish r f ims_on true, [])
            | None =>
                (* handle_vary_missing: compute, push the variant, re-insert with the remaining lifetime *)
                let '(f, hs', lg) := compute hs r ok in
                let e' := {| e_vars := (vary_tuple r, f) :: e_vars e; e_created := now;
                             e_life := option_map (fun l => l - (now - e_created e)) (e_life e) |} in
                ((c_insert k e' c1, hs'), finish r f ims_on true, lg)
            end
        else
          miss c1 hs now r ok
    | None => miss c1 hs now r ok
    end.

  (** operations of a history *)
  Inductive op :=
  | OReq (r : request)
  | OClearPage (r : request)      (* clear_page(host, uri): both keys of the uri *)
  | OClearAll
  | OWait (ms : N).

  (** [Collection::clear_page] (src/host.rs): the two keys of the URI as given (inner fn [clear]) and, for
      [<path>/] and [<path>.], the two keys of the URI the default redirect rewrites it to
      ([extensions::uri_redirect_target]; applied whether or not the redirect extension is mounted). *)
  Definition clear_uri (r : request) (c : cache) : cache := c_remove (key_p r) (c_remove (key_pq r) c).
  Definition has_uri (r : request) (c : cache) : bool :=
    match c_find (key_pq r) c, c_find (key_p r) c with None, None => false | _, _ => true end.
  Definition clear_page (r : request) (c : cache) : cache :=
    match redirect_target r with
    | Some r' => clear_uri r' (clear_uri r c)
    | None => clear_uri r c
    end.
  Definition page_cleared (r : request) (c : cache) : bool :=
    has_uri r c || match redirect_target r with
                   | Some r' => has_uri r' (clear_uri r c)
                   | None => false
                   end.

  Inductive obs :=
  | ObReply (rp : reply) (lg : list bytes)
  | ObCleared (found cleared : bool)
  | ObNone.

  Definition step (st : state) (now : N) (o : op) : state * N * obs :=
    match o with
    | OReq r => let '(st', rp, lg) := serve st now r in (st', now, ObReply rp lg)
    | OClearPage r =>
        let '(c, hs) := st in
        ((clear_page r c, hs), now, ObCleared true (cache_on && page_cleared r c))
    | OClearAll => let '(c, hs) := st in (([], hs), now, ObNone)
    | OWait ms => (st, now + ms, ObNone)
    end.

  Fixpoint run (st : state) (now : N) (ops : list op) : list obs :=
    match ops with
    | [] => []
    | o :: rest => let '(st', now', ob) := step st now o in ob :: run st' now' rest
    end.

  Fixpoint run_state (st : state) (now : N) (ops : list op) : state * N :=
    match ops with
    | [] => (st, now)
    | o :: rest => let '(st', now', _) := step st now o in run_state st' now' rest
    end.
End Layer.
