(** C05 — model of [kvarn::vary] (src/vary.rs: [Settings]/[Rule], [VariedResponse::{new, push_response,
    get, get_headers_for_request, get_by_request, first}], [get_header], [apply_header]) and of its
    call sites in [kvarn::handle_cache] / [handle_cache_helpers::handle_vary_missing] (src/lib.rs).

    A request is handled as the Prime extensions left it ([Extensions::resolve_prime]): the request itself, with the URI
    the rewriting Primes gave it, and the internal URI ("/./...") a Prime may have answered with — the *override* URI, under
    which the page is handled, looked up, cached, and whose vary rules apply (both in the arm of [handle_cache] that creates a
    cache item and in [handle_vary_missing]).

    The response-cache layer is the one of Model/Cache.v (C03/C04), but the variants of an entry are
    the vector the code keeps — sorted for [Ord for [Header]], searched with rustc 1.95's
    [binary_search_by] (Model/RustStd.v), inserted at the position the search returned — instead of
    the association list [e_vars].  Proofs/VaryProofs.v shows that the two layers coincide.
    Definitions only. *)
From KV Require Export Bytes RustInt Range CacheControl Cache Fixture CacheX RuleSet RustStd.
Open Scope N_scope.

(** ---- [HeaderMap::get(&str)] (http 1.5.0, header/name.rs [HEADER_CHARS], [parse_hdr]) ----
    The rule's name is normalised through [HEADER_CHARS] (upper case folded, bytes outside the token
    alphabet map to 0); an empty, over-long or non-token name finds nothing.  The names stored in the
    request's map are lower case. *)
Definition hdr_char (c : N) : N :=
  if (65 <=? c) && (c <=? 90) then c + 32
  else if ((97 <=? c) && (c <=? 122)) || ((48 <=? c) && (c <=? 57)) then c
  else if (c =? 33) || (c =? 35) || (c =? 36) || (c =? 37) || (c =? 38) || (c =? 39) || (c =? 42) || (c =? 43)
          || (c =? 45) || (c =? 46) || (c =? 94) || (c =? 95) || (c =? 96) || (c =? 124) || (c =? 126) then c
  else 0.
Definition max_header_name_len : N := 65535.
Definition hdr_name (name : bytes) : option bytes :=
  if (N.of_nat (length name) =? 0) || (max_header_name_len <? N.of_nat (length name)) then None
  else let m := map hdr_char name in if existsb (N.eqb 0) m then None else Some m.
Definition header_get (name : bytes) (r : request) : option bytes :=
  match hdr_name name with
  | Some n => assoc n (rq_headers r)       (* the first value of a repeated header *)
  | None => None
  end.

(** ---- [Rule] / [ReferenceHeader], [Header], [HeaderCollection] ---- *)
Record rule := mkRule {
  ru_name : bytes;                 (* request header; also what the [vary] response header lists *)
  ru_xf : bytes -> bytes;          (* [Transformation] *)
  ru_default : bytes }.
Definition vheader := (bytes * bytes)%type.       (* [Header { name, transformed }] *)
Definition hcoll := list vheader.                 (* [HeaderCollection] *)

(** [Settings::add_rule]: [assert!(utils::is_valid_header_value_byte(byte))] for every byte of the name *)
Definition rule_name_ok (name : bytes) : bool := forallb visible name.

(** one iteration of the loop in [get_headers_for_request]:
    [request.headers().get(name).map(HeaderValue::to_str).and_then(Result::ok)] — present and visible
    ASCII/TAB: the transformation of the value; absent or not text: the rule's default, *untransformed*. *)
Definition header_for (ref : rule) (r : request) : vheader :=
  match header_get (ru_name ref) r with
  | Some v => if to_str_ok v then (ru_name ref, ru_xf ref v) else (ru_name ref, ru_default ref)
  | None => (ru_name ref, ru_default ref)
  end.
Definition headers_for_request (refs : list rule) (r : request) : hcoll :=
  map (fun ref => header_for ref r) refs.

(** ---- the order: [#[derive(PartialOrd, Ord)] struct Header { name, transformed }], [Ord for [T]] ---- *)
Definition cmp_header (a c : vheader) : comparison :=
  match bcmp (fst a) (fst c) with
  | Eq => bcmp (snd a) (snd c)
  | o => o
  end.
Fixpoint cmp_hcoll (a c : hcoll) : comparison :=
  match a, c with
  | [], [] => Eq
  | [], _ :: _ => Lt
  | _ :: _, [] => Gt
  | x :: a', y :: c' => match cmp_header x y with Eq => cmp_hcoll a' c' | o => o end
  end.

(** ---- [get_header]: the value of the [vary] response header ---- *)
Definition get_header (headers : hcoll) (no_range : bool) : bytes :=
  (if no_range then B "accept-encoding" else B "accept-encoding, range")
  ++ concat (map (fun h : vheader => B ", " ++ fst h) headers).

(** [HeaderMap::insert]: replaces every value of the name *)
Definition hm_insert (n v : bytes) (hs : list (bytes * bytes)) : list (bytes * bytes) :=
  filter (fun p => negb (beq (fst p) n)) hs ++ [(n, v)].

(** [apply_header(response, headers, is_streaming)] on the header list and the body of [response] *)
Definition apply_header (hs : list (bytes * bytes)) (body : bytes) (headers : hcoll) (is_streaming : bool)
  : list (bytes * bytes) :=
  match body with
  | [] => hs
  | _ :: _ =>
      let has_range := match assoc (B "vary") hs with
                       | Some h => to_str_ok h && contains_sub (B "range") h
                       | None => false
                       end in
      hm_insert (B "vary") (get_header headers (is_streaming && negb has_range)) hs
  end.

(** ---- [VariedResponse] over an arbitrary response type [A] ([CompressedResponse]) ---- *)
Section Varied.
  Context {A : Type}.
  Variable dbg : bool.                          (* debug assertions compiled in *)

  Record varied := mkVaried {
    vr_refs : list rule;                        (* [reference_headers] *)
    vr_resps : list (A * hcoll) }.              (* [responses], kept sorted by the header list *)

  (** [Vec::insert(index, element)]: panics if [index > len] *)
  Definition vec_insert {T} (pos : nat) (x : T) (l : list T) : outcome (list T) :=
    if Nat.leb pos (length l) then Ok (firstn pos l ++ x :: skipn pos l) else Panic.

  (** [get]: [self.responses.binary_search_by_key(&other, |pair| &pair.1)], i.e.
      [binary_search_by(|pair| pair.1.cmp(other))] *)
  Definition vr_get (v : varied) (other : hcoll) : outcome bsres :=
    match binary_search_by (fun pair : A * hcoll => cmp_hcoll (snd pair) other) (vr_resps v) with
    | Some r => Ok r
    | None => Panic      (* out-of-bounds [get_unchecked]; excluded by [binary_search_by_total] *)
    end.

  Inductive found :=
  | Hit (p : A * hcoll)                         (* [Ok(&self.responses[position])] *)
  | Miss (position : nat) (headers : hcoll).    (* [Err(CacheParams { position, headers })] *)

  Definition vr_get_by_request (v : varied) (r : request) : outcome found :=
    let headers := headers_for_request (vr_refs v) r in
    match vr_get v headers with
    | Ok (BOk position) =>
        match nth_error (vr_resps v) position with Some p => Ok (Hit p) | None => Panic end
    | Ok (BErr sorted_position) => Ok (Miss sorted_position headers)
    | Err e => Err e
    | Panic => Panic
    end.

  (** [push_response]: [debug_assert_eq!] on the lengths, [insert(position, ..)], [&self.responses[position]] *)
  Definition vr_push (v : varied) (response : A) (position : nat) (headers : hcoll) : outcome (varied * (A * hcoll)) :=
    if dbg && negb (Nat.eqb (length (vr_refs v)) (length headers)) then Panic else
    match vec_insert position (response, headers) (vr_resps v) with
    | Ok l' =>
        match nth_error l' position with
        | Some p => Ok (mkVaried (vr_refs v) l', p)
        | None => Panic
        end
    | _ => Panic
    end.

  (** [VariedResponse::new(response, request, settings)] *)
  Definition vr_new (response : A) (r : request) (settings : list rule) : outcome varied :=
    let me := mkVaried settings [] in
    match vr_get_by_request me r with
    | Ok (Miss position headers) =>         (* [.unwrap_err()] *)
        match vr_push me response position headers with
        | Ok (me', _) => Ok me'
        | Err e => Err e
        | Panic => Panic
        end
    | Ok (Hit _) => Panic
    | Err e => Err e
    | Panic => Panic
    end.

  (** [first]: [self.responses.first().unwrap()] *)
  Definition vr_first (v : varied) : outcome (A * hcoll) :=
    match vr_resps v with p :: _ => Ok p | [] => Panic end.
End Varied.
Arguments varied A : clear implicits.
Arguments found A : clear implicits.

(** ---- a finite map keyed by [UriKey] (moka, as in Model/Cache.v, for any entry type) ---- *)
Section PCache.
  Context {E : Type}.
  Definition pcache := list (key * E).
  Fixpoint pc_find (k : key) (c : pcache) : option E :=
    match c with
    | [] => None
    | (k', e) :: r => if key_eqb k k' then Some e else pc_find k r
    end.
  Fixpoint pc_remove (k : key) (c : pcache) : pcache :=
    match c with
    | [] => []
    | (k', e) :: r => if key_eqb k k' then pc_remove k r else (k', e) :: pc_remove k r
    end.
  Definition pc_insert (k : key) (e : E) (c : pcache) : pcache := (k, e) :: pc_remove k c.
End PCache.
Arguments pcache E : clear implicits.

(** ---- entries of the response cache: [(Arc<VariedResponse>, (creation, _, lifetime))] ---- *)
Record ventry := mkVE {
  ve_var : varied fat;
  ve_created : N;                  (* ms *)
  ve_life : option N }.            (* ms; None = never expires *)
Definition vcache := pcache ventry.

Definition vfresh (e : ventry) (now : N) : bool :=
  match ve_life e with None => true | Some l => now - ve_created e <=? l end.

(** [get_cache_item] *)
Definition vget_item (k : key) (c : vcache) (now : N) : option ventry * vcache :=
  match pc_find k c with
  | Some e => if vfresh e now then (Some e, c) else (None, pc_remove k c)
  | None => (None, c)
  end.

(** lookup order of [handle_cache]: PathQuery key, then Path key *)
Definition vlookup (r : request) (c : vcache) (now : N) : (key * option ventry) * vcache :=
  match vget_item (key_pq r) c now with
  | (Some e, c') => ((key_pq r, Some e), c')
  | (None, c') =>
      match vget_item (key_p r) c' now with
      | (res, c'') => ((key_p r, res), c'')
      end
  end.

(** the second lookup, in [handle_vary_missing], with the key that hit in [handle_cache]
    (the inlined [UriKey::call_all]; [into_path] truncates at [query_start]) *)
Definition vrelookup (k : key) (c : vcache) (now : N) : (key * option ventry) * vcache :=
  match vget_item k c now with
  | (Some e, c') => ((k, Some e), c')
  | (None, c') =>
      match k with
      | KPath _ => ((k, None), c')
      | KPathQuery s i =>
          match vget_item (KPath (firstn i s)) c' now with
          | (res, c'') => ((KPath (firstn i s), res), c'')
          end
      end
  end.

(** ---- a request after [Extensions::resolve_prime]: the request as the rewriting Primes left it, and the internal
    override URI (path, query) if a Prime answered with a URI that starts with "/./" ---- *)
Definition ovr := option (bytes * option bytes).
Definition routed := (request * ovr)%type.
(** the URI that [handle_cache] looks up, [get_response] hands to [handle_request] and caches under, and whose path selects
    the vary rules: [overide_uri.unwrap_or(request.uri())] (Model/CacheX.v [lookup_req]) — as a request with the method and
    the headers of the real one ([lreq_same] in Proofs/VaryProofs.v), so that everything the cache layer reads is read off it *)
Definition lreq (q : routed) : request := lookup_req (fst q) (snd q).
(** the path the response is cached under *)
Definition cpath (q : routed) : bytes := rq_path (lreq q).
Definition no_route (r : request) : routed := (r, None).

Section LayerV.
  Variable hstate : Type.
  (** the layer below ([get_response]: [handle_request] with the request and the override URI, Present extensions) *)
  Variable compute : hstate -> routed -> bool (* sanitize ok *) -> fat * hstate * list bytes.
  Variable cache_on : bool.
  Variable ims_on : bool.
  Variable parse_ims : bytes -> option Z.
  Variable sanitize_ok : request -> bool.
  Variable prime : request -> routed.          (* [resolve_prime]: every Prime extension, in order *)
  Variable negotiate : request -> fat -> option (N * bytes).
  Variable rules_of : bytes -> list rule.      (* [host.vary.rules_from_path]: the settings of a path *)
  Variable dbg : bool.

  Definition vstate := (vcache * hstate)%type.
  (** what one request yields: new state, reply, the handlers' own log, and the requests handed to
      [compute] (the invocation log in handler-independent form: [] or [q]) *)
  Definition vresult := (vstate * reply * list bytes * list routed)%type.

  (** [clone_preferred] (content negotiation, abstract) + [apply_header] with the variant's header list *)
  Definition finishV (r : request) (f : fat) (vary : hcoll) (lm cached : bool) : reply :=
    match negotiate r f with
    | Some (st, body) =>
        {| rp_status := st; rp_headers := apply_header [] body vary false;
           rp_body := body; rp_identity := f_body f; rp_last_modified := lm; rp_from_cache := cached |}
    | None =>
        {| rp_status := f_status f; rp_headers := apply_header (f_headers f) (f_body f) vary false;
           rp_body := f_body f; rp_identity := f_body f; rp_last_modified := lm; rp_from_cache := cached |}
    end.

  (** [VariedResponse::new] + [first] + [maybe_cache], shared by the miss arm of [handle_cache] and the
      "entry vanished" arm of [handle_vary_missing]: at both sites the rules are those of
      [overide_uri.unwrap_or(request.uri()).path()] — the path the response is cached under ([get_response]'s
      [path_query]) — and not those of the request's own path *)
  Definition new_and_cache (c1 : vcache) (hs' : hstate) (now : N) (q : routed) (f : fat) (lg : list bytes)
             (lm_of : fat -> bool) (cached : bool) : outcome vresult :=
    let r := lreq q in
    match vr_new dbg f r (rules_of (rq_path r)) with
    | Ok vr =>
        match vr_first vr with
        | Ok (f0, vary) =>
            let rp := finishV (fst q) f0 vary (lm_of f0) cached in
            if may_store cache_on (rq_method r) f0 then
              Ok ((pc_insert (insert_key r f0) (mkVE vr now (lifetime_ms f0)) c1, hs'), rp, lg, [q])
            else Ok ((c1, hs'), rp, lg, [q])
        | Err e => Err e
        | Panic => Panic
        end
    | Err e => Err e
    | Panic => Panic
    end.

  (** the miss arm of [handle_cache] *)
  Definition missV (c1 : vcache) (hs : hstate) (now : N) (q : routed) (ok : bool) : outcome vresult :=
    let '(f, hs', lg) := compute hs q ok in
    new_and_cache c1 hs' now q f lg (fun f0 => ims_on && wants_cache cache_on (rq_method (lreq q)) f0) false.

  (** [handle_vary_missing] as it was before the repair (fix commit in the repo worktree): compute, look
      the entry up *again*, clone it, [push_response] at the position found *before* the computation —
      in a possibly different vector —, re-insert with the remaining lifetime.
      [c1] is the cache at the time of the second lookup. *)
  Definition vary_missing_v0 (c1 : vcache) (hs : hstate) (now : N) (q : routed) (ok : bool)
             (k : key) (position : nat) (headers : hcoll) : outcome vresult :=
    let '(f, hs', lg) := compute hs q ok in
    let '((k', found'), c2) := vrelookup k c1 now in
    match found' with
    | Some e' =>
        match vr_push dbg (ve_var e') f position headers with
        | Ok (vr', (f1, vary1)) =>
            let e'' := mkVE vr' now (option_map (fun l => l - (now - ve_created e')) (ve_life e')) in
            Ok ((pc_insert k' e'' c2, hs'), finishV (fst q) f1 vary1 ims_on true, lg, [q])
        | Err e => Err e
        | Panic => Panic
        end
    | None => new_and_cache c2 hs' now q f lg (fun _ => ims_on) true
    end.

  (** [handle_vary_missing] as it is now (repairs aa05eaf, 8fe98d4, 92a9cd2): the position is searched for again in
      the entry that the second lookup returned; if that entry meanwhile holds the variant, the cache is left
      alone and the response just computed is served with the header list of the first search.  Otherwise the new
      variant enters the cache on the same terms as a new item: [get_cache] (host has a cache, the handler's
      preference, the method, the status filter; streams are not modelled), a query-dependent response only joins
      an entry keyed with the query, [server_cache_lifetime] ([kvarn-cache-control: none] = not stored; else the
      entry's remaining lifetime is capped by the variant's own: Model/CacheX.v [min_life]) and the size limit of
      [MokaCache::insert] (checked after [push_response] on the clone).  A variant that is not admitted is served
      and the entry left as it is. *)
  Definition key_has_query (k : key) : bool := match k with KPathQuery _ _ => true | KPath _ => false end.
  Definition vary_missing (c1 : vcache) (hs : hstate) (now : N) (q : routed) (ok : bool)
             (k : key) (position : nat) (headers : hcoll) : outcome vresult :=
    let r := lreq q in
    let '(f, hs', lg) := compute hs q ok in
    let '((k', found'), c2) := vrelookup k c1 now in
    match found' with
    | Some e' =>
        match vr_get_by_request (ve_var e') r with
        | Ok (Hit _) => Ok ((c2, hs'), finishV (fst q) f headers ims_on true, lg, [q])
        | Ok (Miss position' headers') =>
            let accepted := wants_cache cache_on (rq_method r) f
                            && (negb (f_spref f =? SP_QUERY) || key_has_query k') in
            if accepted && negb (kvarn_none f) then
              match vr_push dbg (ve_var e') f position' headers' with
              | Ok (vr', (f1, vary1)) =>
                  let remaining := option_map (fun l => l - (now - ve_created e')) (ve_life e') in
                  let e'' := mkVE vr' now (min_life remaining (lifetime_ms f)) in
                  Ok (((if N.of_nat (length (f_body f)) <? size_limit then pc_insert k' e'' c2 else c2), hs'),
                      finishV (fst q) f1 vary1 ims_on true, lg, [q])
              | Err e => Err e
              | Panic => Panic
              end
            else Ok ((c2, hs'), finishV (fst q) f headers' ims_on true, lg, [q])
        | Err e => Err e
        | Panic => Panic
        end
    | None => new_and_cache c2 hs' now q f lg (fun _ => ims_on) true
    end.

  (** [handle_cache] has one suspension point that matters here: the [.await] on the layer below
      ([get_response]), reached either in the miss arm or inside [handle_vary_missing] — there *after*
      the position of the new variant has been computed.  Phase 1 is everything before it, phase 2
      everything after; other requests may run in between (the cache handed to phase 2 is then a
      different one). *)
  Inductive parked :=
  | PkMiss (q : routed) (ok : bool)
  | PkVary (q : routed) (ok : bool) (k : key) (position : nat) (headers : hcoll).

  (** [fix_ims = true]: the code as it is (repair 832d735): [client_request_is_fresh] also needs
      [resp.get_by_request(request).is_ok()] — only a variant that is in the cache can be vouched for;
      [false]: before the repair the 304 was decided on the entry's date alone, before the variants were looked at *)
  Definition serveV_phase1_gen (fix_ims : bool) (st : vstate) (now : N) (r0 : request) : outcome (vresult + vcache * parked) :=
    let '(c, hs) := st in
    let ok := sanitize_ok r0 in
    let q := prime r0 in
    let r := lreq q in                    (* the URI looked up: the override URI if a Prime gave one *)
    if negb cache_on then Ok (inr (c, PkMiss q ok))
    else
    let '((k, found0), c1) := vlookup r c now in
    match found0 with
    | Some e =>
        if ok && get_or_head (rq_method r) then
          let ims := if ims_on then match header (B "if-modified-since") r with
                                    | Some v => parse_ims v | None => None end
                     else None in
          let got := vr_get_by_request (ve_var e) r in
          if match ims with Some t => ims_fresh t (ve_created e) | None => false end
             && (negb fix_ims || match got with Ok (Hit _) => true | _ => false end) then
            Ok (inl ((c1, hs),
                     {| rp_status := 304; rp_headers := []; rp_body := []; rp_identity := [];
                        rp_last_modified := ims_on; rp_from_cache := true |}, [], []))
          else
            match got with
            | Ok (Hit (f, vary)) => Ok (inl ((c1, hs), finishV (fst q) f vary ims_on true, [], []))
            | Ok (Miss position headers) => Ok (inr (c1, PkVary q ok k position headers))
            | Err e0 => Err e0
            | Panic => Panic
            end
        else Ok (inr (c1, PkMiss q ok))
    | None => Ok (inr (c1, PkMiss q ok))
    end.

  Definition serveV_phase1 := serveV_phase1_gen true.
  Definition serveV_phase1_v0 := serveV_phase1_gen false.

  Definition serveV_phase2 (c : vcache) (hs : hstate) (now : N) (p : parked) : outcome vresult :=
    match p with
    | PkMiss r ok => missV c hs now r ok
    | PkVary r ok k position headers => vary_missing c hs now r ok k position headers
    end.
  Definition serveV_phase2_v0 (c : vcache) (hs : hstate) (now : N) (p : parked) : outcome vresult :=
    match p with
    | PkMiss r ok => missV c hs now r ok
    | PkVary r ok k position headers => vary_missing_v0 c hs now r ok k position headers
    end.

  (** [handle_cache] for one request at time [now] (ms), nothing else running in between *)
  Definition serveV (st : vstate) (now : N) (r0 : request) : outcome vresult :=
    match serveV_phase1 st now r0 with
    | Ok (inl res) => Ok res
    | Ok (inr (c1, p)) => serveV_phase2 c1 (snd st) now p
    | Err e => Err e
    | Panic => Panic
    end.

  (** [Collection::clear_page]: the two keys of the URI as given and those of its default-redirect target
      (Model/Cache.v [clear_page]) *)
  Definition vclear_uri (r : request) (c : vcache) : vcache := pc_remove (key_p r) (pc_remove (key_pq r) c).
  Definition vhas_uri (r : request) (c : vcache) : bool :=
    match pc_find (key_pq r) c, pc_find (key_p r) c with None, None => false | _, _ => true end.
  Definition vclear_page (r : request) (c : vcache) : vcache :=
    match redirect_target r with
    | Some r' => vclear_uri r' (vclear_uri r c)
    | None => vclear_uri r c
    end.
  Definition vpage_cleared (r : request) (c : vcache) : bool :=
    vhas_uri r c || match redirect_target r with
                    | Some r' => vhas_uri r' (vclear_uri r c)
                    | None => false
                    end.

  Definition stepV (st : vstate) (now : N) (o : op) : outcome (vstate * N * obs * list routed) :=
    match o with
    | OReq r =>
        match serveV st now r with
        | Ok (st', rp, lg, calls) => Ok (st', now, ObReply rp lg, calls)
        | Err e => Err e
        | Panic => Panic
        end
    | OClearPage r =>
        let '(c, hs) := st in
        Ok ((vclear_page r c, hs), now, ObCleared true (cache_on && vpage_cleared r c), [])
    | OClearAll => let '(c, hs) := st in Ok (([], hs), now, ObNone, [])
    | OWait ms => Ok (st, now + ms, ObNone, [])
    end.

  (** a history; a panic anywhere aborts the run (as [catch_unwind] around the harness does) *)
  Fixpoint runV (st : vstate) (now : N) (ops : list op) : outcome (list (obs * list routed)) :=
    match ops with
    | [] => Ok []
    | o :: rest =>
        match stepV st now o with
        | Ok (st', now', ob, calls) =>
            match runV st' now' rest with
            | Ok l => Ok ((ob, calls) :: l)
            | Err e => Err e
            | Panic => Panic
            end
        | Err e => Err e
        | Panic => Panic
        end
    end.

  Fixpoint runV_state (st : vstate) (now : N) (ops : list op) : outcome (vstate * N) :=
    match ops with
    | [] => Ok (st, now)
    | o :: rest =>
        match stepV st now o with
        | Ok (st', now', _, _) => runV_state st' now' rest
        | Err e => Err e
        | Panic => Panic
        end
    end.

  (** ---- the specification: a server that keeps a finite map
           (path the page is cached under, transformed header list) -> response,
      computes on a map miss and never otherwise; the transformed list is the one the rules of THAT path (the
      override path of an internal route, else the request's) make of the request's headers.  It describes
      hosts whose cacheable responses are stored under the path key and never expire (hypotheses of
      [vary_refines_map]). ---- *)
  Definition hc_eqb (a c : hcoll) : bool := match cmp_hcoll a c with Eq => true | _ => false end.
  Definition seen_t := list (bytes * hcoll * fat).
  Fixpoint seen_find (p : bytes) (t : hcoll) (s : seen_t) : option fat :=
    match s with
    | [] => None
    | (p', t', f) :: rest => if beq p p' && hc_eqb t t' then Some f else seen_find p t rest
    end.
  Definition seen_has_page (p : bytes) (s : seen_t) : bool := existsb (fun e => beq p (fst (fst e))) s.
  Definition seen_clear (p : bytes) (s : seen_t) : seen_t := filter (fun e => negb (beq p (fst (fst e)))) s.
  Definition own_tuple (r : request) : hcoll := headers_for_request (rules_of (rq_path r)) r.

  Definition spec_serve (s : seen_t) (hs : hstate) (r0 : request) : seen_t * hstate * reply * list bytes * list routed :=
    let q := prime r0 in
    let r := lreq q in
    let gh := get_or_head (rq_method r) in
    let computed :=
      let '(f, hs', lg) := compute hs q true in
      ((if gh && cache_on then (rq_path r, own_tuple r, f) :: s else s), hs',
       finishV (fst q) f (own_tuple r) (ims_on && gh && cache_on) (cache_on && gh && seen_has_page (rq_path r) s), lg, [q]) in
    if gh && cache_on then
      match seen_find (rq_path r) (own_tuple r) s with
      | Some f => (s, hs, finishV (fst q) f (own_tuple r) ims_on true, [], [])
      | None => computed
      end
    else computed.

  Definition spec_step (s : seen_t) (hs : hstate) (o : op) : seen_t * hstate * obs * list routed :=
    match o with
    | OReq r => let '(s', hs', rp, lg, calls) := spec_serve s hs r in (s', hs', ObReply rp lg, calls)
    | OClearPage r =>
        (* the page as given and the page its default-redirect target names *)
        match redirect_target r with
        | Some r' =>
            (seen_clear (rq_path r') (seen_clear (rq_path r) s), hs,
             ObCleared true (cache_on && (seen_has_page (rq_path r) s || seen_has_page (rq_path r') (seen_clear (rq_path r) s))), [])
        | None => (seen_clear (rq_path r) s, hs, ObCleared true (cache_on && seen_has_page (rq_path r) s), [])
        end
    | OClearAll => ([], hs, ObNone, [])
    | OWait _ => (s, hs, ObNone, [])
    end.

  Fixpoint spec_run (s : seen_t) (hs : hstate) (ops : list op) : list (obs * list routed) :=
    match ops with
    | [] => []
    | o :: rest => let '(s', hs', ob, calls) := spec_step s hs o in (ob, calls) :: spec_run s' hs' rest
    end.
End LayerV.

(** ---- instantiation with the fixture menu (Model/Fixture.v = harness/src/c00pipe.rs) ---- *)
(** [host.vary] is an [extensions::RuleSet<Settings>] (Model/RuleSet.v, C14): the settings of a path are those of
    the first rule in the vector [add_mut] keeps (exact paths before patterns "<prefix>*", longer before shorter)
    that matches it; no rule = no settings *)
Definition rules_fix (vr : list (bytes * list vrule)) (p : bytes) : list rule :=
  map (fun '(n, xf, d) => mkRule n (xform xf) d)
      (match rs_get (rs_build rs_add vr) p with Some rs => rs | None => [] end).

(** handler kind 5 (harness/src/c05.rs only): "<body>?<query>" followed by the transformed tuple, i.e. kind 3
    with the query made part of the prefix — for pages whose cache key includes the query *)
Definition q_part (r : request) : bytes := match rq_query r with Some (c :: q) => 63 :: c :: q | _ => [] end.
(** handler kind 6 (harness/src/c05.rs only): kind 3 whose variants differ in cacheability — the handler declares
    [ServerCachePreference::None] when the first component it renders is empty or starts with 'n', 'z' or '0' — so
    that a page has variants that [handle_vary_missing] must not admit to the cache *)
Definition picky_refused (v : bytes) : bool :=
  match v with [] => true | c :: _ => (c =? 110) || (c =? 122) || (c =? 48) end.
Definition first_component (h : hspec) (r : request) : option bytes :=
  match h_tuple h with
  | (n, xf, d) :: _ => Some (match header_text n r with Some v => xform xf v | None => d end)
  | [] => None
  end.
Definition handlers_c05 (handlers : list hspec) (r : request) : list hspec :=
  map (fun h => if h_kind h =? 5
                then mkH (h_path h) 3 (h_status h) (h_body h ++ q_part r) (h_headers h) (h_spref h) (h_cpref h)
                         (h_compress h) (h_tuple h)
                else if h_kind h =? 6
                then mkH (h_path h) 3 (h_status h) (h_body h) (h_headers h)
                         (match first_component h r with
                          | Some v => if picky_refused v then SP_NONE else h_spref h
                          | None => h_spref h
                          end) (h_cpref h) (h_compress h) (h_tuple h)
                else h) handlers.
(** [handle_request]: the error page of a request that failed sanitize; else the Prepare extension bound to the path of
    the URI that is looked up ([resolve_prepare]: [overide_uri.unwrap_or(request.uri()).path()]) — with the default
    extensions "/./cors_fail" is bound to the CORS denial (Model/CacheX.v) —, which is handed the request itself (its own
    URI, its headers): a kind-1 or kind-5 handler on an internal route echoes the public path / query *)
(** the Prepare extension [Extensions::with_disallow_cors] binds to "/./cors_fail": since kvarn d00feae it declares
    [ServerCachePreference::None] (never stored; it still gets the [vary] header of the rules of "/./cors_fail") *)
Definition cors_denied_fat : fat :=
  {| f_status := 403; f_headers := with_client_cache 3 []; f_body := B "CORS request denied"; f_spref := SP_NONE;
     f_compress := true |}.
Definition compute_c05 (default_ext : bool) (handlers : list hspec) (hs : list N) (q : routed) (ok : bool)
  : fat * list N * list bytes :=
  let r := fst q in
  if negb ok then compute_fix handlers hs r ok
  else if default_ext && beq (cpath q) CORS_FAIL then (cors_denied_fat, hs, [])
  else
    match find_handler_last (cpath q) (handlers_c05 handlers r) O None with
    | Some (i, h) =>
        let '(hs', n) := bump i hs in
        ({| f_status := h_status h; f_headers := with_client_cache (h_cpref h) (h_headers h);
            f_body := handler_body h n r; f_spref := h_spref h; f_compress := h_compress h |},
         hs', [B "h" ++ dec (N.of_nat i)])
    | None => (error_fat 404 SP_FULL, hs, [])
    end.

(** cfg [ovroutes] (harness/src/c05.rs): ONE Prime extension, run after those of [Extensions::new], that answers a request
    whose path is the first component with the internal URI in the second (only targets that start with "/./" are mounted) *)
Definition route_t := (bytes * (bytes * option bytes))%type.
Definition d_routes (c : xval) : list route_t :=
  match c with
  | XL l =>
      match kv_get (B "ovroutes") l with
      | Some (XL rs) =>
          filter (fun e : route_t => starts_with (B "/./") (fst (snd e)))
                 (concat (map (fun x => match x with XL [XB from; XB to] => [(from, split_target to [])] | _ => [] end) rs))
      | _ => []
      end
  | _ => []
  end.
Definition route_fix (routes : list route_t) (r : request) : ovr :=
  match find (fun e : route_t => beq (fst e) (rq_path r)) routes with
  | Some e => Some (snd e)
  | None => None
  end.

(** operations of the harness (harness/src/c05.rs): those of the pipeline harness, a dump of the stored
    variants of a page, and a request that is suspended in its handler ([FPark]) until [FRelease] while
    the operations in between run to completion *)
Inductive fop := FOp (o : op) | FDump (r : request) | FPark (r : request) | FRelease.
Definition d_fop (x : xval) : option fop :=
  match x with
  | XL [XN 4; XB t] | XL [XN 4; XB t; XN _] => Some (FDump (d_request 0 (B "GET") t []))   (* the number: for the harness *)
  | XL [XN 5; XN addr; XB m; XB t; hs; XB _] =>
      option_map (fun h => FPark (d_request addr m t h)) (d_list d_pair_bb hs)
  | XL [XN 6] => Some FRelease
  | _ => option_map FOp (d_op x)
  end.

Definition x_hcoll (hc : hcoll) : xval := XL (map (fun h : vheader => XL [XB (fst h); XB (snd h)]) hc).
(** dump of the two cache slots of a target (PathQuery key, Path key): the header lists of the stored
    variants in vector order *)
Definition x_dump (c : vcache) (r : request) : xval :=
  XL (map (fun k => match pc_find k c with
                    | Some e => XL [XL (map (fun p : fat * hcoll => x_hcoll (snd p)) (vr_resps (ve_var e)))]
                    | None => XL []
                    end) [key_pq r; key_p r]).
(** the specification's dump: the transformed header lists seen for the page, in order of arrival *)
Definition x_dump_spec (s : seen_t) (r : request) : xval :=
  XL (map (fun e => x_hcoll (snd (fst e))) (rev (filter (fun e => beq (rq_path r) (fst (fst e))) s))).

(** [resolve_prime] of the fixture: with the default extensions the redirect Prime rewrites the URI ("<p>/" ->
    "<p>/index.html", "<p>." -> "<p>.html") and the CORS Prime answers "/./cors_fail" to a foreign [origin]
    (Model/CacheX.v [cors_override]); then the Prime of cfg [ovroutes] — the last internal answer wins *)
Definition prime_fix (cfg : config) (routes : list route_t) (r0 : request) : routed :=
  let r := if cf_default_ext cfg then uri_redirect r0 else r0 in
  (r, match route_fix routes r with
      | Some o => Some o
      | None => if cf_default_ext cfg then cors_override r0 else None
      end).

Definition stepV_fix (cfg : config) (routes : list route_t) :=
  stepV (list N) (compute_c05 (cf_default_ext cfg) (cf_handlers cfg)) (cf_cache cfg) (cf_ims cfg) parse_ims_fix sanitize_ok_fix
        (prime_fix cfg routes) (fun _ _ => None) (rules_fix (cf_vary cfg)) true.

Definition phase1_fix (ims0 : bool) (cfg : config) (routes : list route_t) :=
  serveV_phase1_gen (list N) (cf_cache cfg) (cf_ims cfg) parse_ims_fix sanitize_ok_fix
        (prime_fix cfg routes) (fun _ _ => None) (negb ims0).
Definition phase2_fix (v0 : bool) (cfg : config) :=
  (if v0 then serveV_phase2_v0 else serveV_phase2) (list N) (compute_c05 (cf_default_ext cfg) (cf_handlers cfg)) (cf_cache cfg) (cf_ims cfg)
        (fun _ _ => None) (rules_fix (cf_vary cfg)) true.

Definition x_reply (cfg : config) (res : vcache * list N * reply * list bytes * list routed) : xval :=
  let '(_, rp, lg, _) := res in x_obs (cf_report cfg) (ObReply rp lg).

(** [pk]: the suspended request, if any (a second [FPark] while one is suspended is not run: (L (N 96)));
    [v0]: [handle_vary_missing] as it was before the repair aa05eaf; [ims0]: the If-Modified-Since test as it was
    before the repair 832d735 (a request is then run as its two phases, one after the other) *)
Fixpoint run_fix_ops (v0 ims0 : bool) (cfg : config) (routes : list route_t) (st : vcache * list N) (now : N) (pk : option (parked))
         (ops : list fop) : outcome (list xval) :=
  let cons (x : xval) (o : outcome (list xval)) : outcome (list xval) :=
    match o with Ok l => Ok (x :: l) | o' => o' end in
  match ops with
  | [] => Ok []
  | FDump r :: rest => cons (x_dump (fst st) r) (run_fix_ops v0 ims0 cfg routes st now pk rest)
  | FOp o :: rest =>
      match (if ims0 then match o with OReq r => Some r | _ => None end else None) with
      | Some r =>
          match phase1_fix ims0 cfg routes st now r with
          | Ok (inl res) => cons (x_reply cfg res) (run_fix_ops v0 ims0 cfg routes (fst (fst (fst res))) now pk rest)
          | Ok (inr (c1, p)) =>
              match phase2_fix v0 cfg c1 (snd st) now p with
              | Ok res => cons (x_reply cfg res) (run_fix_ops v0 ims0 cfg routes (fst (fst (fst res))) now pk rest)
              | Err e => Err e
              | Panic => Panic
              end
          | Err e => Err e
          | Panic => Panic
          end
      | None =>
          match stepV_fix cfg routes st now o with
          | Ok (st', now', ob, _) => cons (x_obs (cf_report cfg) ob) (run_fix_ops v0 ims0 cfg routes st' now' pk rest)
          | Err e => Err e
          | Panic => Panic
          end
      end
  | FPark r :: rest =>
      match pk with
      | Some _ => cons (XL [XN 96]) (run_fix_ops v0 ims0 cfg routes st now pk rest)
      | None =>
          match phase1_fix ims0 cfg routes st now r with
          | Ok (inl res) => cons (x_reply cfg res) (run_fix_ops v0 ims0 cfg routes (fst (fst (fst res))) now None rest)
          | Ok (inr (c1, p)) => cons (XL []) (run_fix_ops v0 ims0 cfg routes (c1, snd st) now (Some p) rest)
          | Err e => Err e
          | Panic => Panic
          end
      end
  | FRelease :: rest =>
      match pk with
      | None => cons (XL []) (run_fix_ops v0 ims0 cfg routes st now None rest)
      | Some p =>
          match phase2_fix v0 cfg (fst st) (snd st) now p with
          | Ok res => cons (x_reply cfg res) (run_fix_ops v0 ims0 cfg routes (fst (fst (fst res))) now None rest)
          | Err e => Err e
          | Panic => Panic
          end
      end
  end.

Definition rules_ok (cfg : config) : bool :=
  forallb (fun pr : bytes * list vrule => forallb (fun '(n, _, _) => rule_name_ok n) (snd pr)) (cf_vary cfg).

Definition run_vary_gen (v0 ims0 : bool) (x : xval) : xval :=
  match x with
  | XL [c; XL ops] =>
      match d_config c, d_all d_fop ops with
      | Some cfg, Some ops' =>
          if negb (rules_ok cfg) then XL [XN 2] else      (* [add_rule] panics while the host is built *)
          match run_fix_ops v0 ims0 cfg (d_routes c) ([], repeat 0 (length (cf_handlers cfg) + 8)) (cf_phase cfg) None ops' with
          | Ok l => XL l
          | Err e => XL [XN 1; XN e]
          | Panic => XL [XN 2]
          end
      | _, _ => bad_input
      end
  | _ => bad_input
  end.

Definition run_vary := run_vary_gen false false.
(** the model of the code before the repair of [handle_vary_missing] (differs only on park/release histories) *)
Definition run_vary_v0 := run_vary_gen true false.
(** the model of the code before the repair 832d735: the 304 is decided before the variant is looked up *)
Definition run_vary_ims_v0 := run_vary_gen false true.

Definition spec_step_fix (cfg : config) (routes : list route_t) :=
  spec_step (list N) (compute_c05 (cf_default_ext cfg) (cf_handlers cfg)) (cf_cache cfg) (cf_ims cfg) (prime_fix cfg routes)
            (fun _ _ => None) (rules_fix (cf_vary cfg)).

Fixpoint spec_fix_ops (cfg : config) (routes : list route_t) (s : seen_t) (hs : list N) (ops : list fop) : list xval :=
  match ops with
  | [] => []
  | FDump r :: rest => x_dump_spec s r :: spec_fix_ops cfg routes s hs rest
  | FPark _ :: rest | FRelease :: rest => XL [] :: spec_fix_ops cfg routes s hs rest   (* outside the sequential spec *)
  | FOp o :: rest =>
      let '(s', hs', ob, _) := spec_step_fix cfg routes s hs o in
      x_obs (cf_report cfg) ob :: spec_fix_ops cfg routes s' hs' rest
  end.

Definition run_vary_spec (x : xval) : xval :=
  match x with
  | XL [c; XL ops] =>
      match d_config c, d_all d_fop ops with
      | Some cfg, Some ops' => XL (spec_fix_ops cfg (d_routes c) [] (repeat 0 (length (cf_handlers cfg) + 8)) ops')
      | _, _ => bad_input
      end
  | _ => bad_input
  end.

Definition vary_table : list (bytes * (xval -> xval)) :=
  [ (B "vary.run", run_vary); (B "vary.run_v0", run_vary_v0); (B "vary.run_ims_v0", run_vary_ims_v0);
    (B "vary.spec", run_vary_spec) ].
