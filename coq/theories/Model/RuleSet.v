(** C14 (also used by the CSP / CORS / vary rule sets) — model of
    [kvarn::extensions::RuleSet<R>] (src/extensions.rs): [empty], [add_mut]/[add], [get].
    Definitions only; proofs live in Proofs/RuleSetProofs.v. *)
From Coq Require Import Sorting.Permutation Sorting.Sorted.
From KV Require Export Bytes RuleSetStd.
Open Scope N_scope.

Definition c_star : N := 42.

(** [str::ends_with('*')] *)
Definition ends_with_star (p : bytes) : bool :=
  match rev p with c :: _ => N.eqb c c_star | [] => false end.

(** [str::strip_suffix('*')] *)
Definition strip_suffix_star (p : bytes) : option bytes :=
  match rev p with
  | c :: r => if N.eqb c c_star then Some (rev r) else None
  | [] => None
  end.

Section RuleSet.
  Context {R : Type}.
  Definition ruleset := list (bytes * R).

  Definition rs_empty : ruleset := [].

  (** The comparator handed to [sort_unstable_by] in [add_mut]. *)
  Definition rule_cmp (a b : bytes * R) : comparison :=
    if Bool.eqb (ends_with_star (fst a)) (ends_with_star (fst b))
    then Nat.compare (length (fst b)) (length (fst a))
    else if ends_with_star (fst a) then Gt else Lt.

  (** [add_mut] after the repair (fix commit in the repo worktree): the existing rule for
      [path] is found with [iter().position(|probe| probe.0 == path)]. *)
  Definition rs_unsorted_add (rules : ruleset) (path : bytes) (rule : R) : ruleset :=
    let rules1 :=
      match position (fun probe => beq (fst probe) path) rules with
      | Some idx => remove_nth idx rules
      | None => rules
      end in
    rules1 ++ [(path, rule)].
  Definition rs_add (rules : ruleset) (path : bytes) (rule : R) : ruleset :=
    insertion_sort_by rule_cmp (rs_unsorted_add rules path rule).

  (** [add_mut] as it was before the repair: the existing rule is looked for with
      [binary_search_by(|probe| probe.0.cmp(&path))] — string order — on a vector that is
      kept in [rule_cmp] order. *)
  Definition rs_add_v0 (rules : ruleset) (path : bytes) (rule : R) : ruleset :=
    let rules1 :=
      match binary_search_by (fun probe => bcmp (fst probe) path) rules with
      | inl idx => remove_nth idx rules
      | inr _ => rules
      end in
    insertion_sort_by rule_cmp (rules1 ++ [(path, rule)]).

  (** [get]: first rule, in vector order, whose path equals the request path or whose path
      minus a trailing '*' is a prefix of it. *)
  Definition rule_matches (pattern uri : bytes) : bool :=
    beq pattern uri ||
    match strip_suffix_star pattern with
    | Some prefix => starts_with prefix uri
    | None => false
    end.
  Definition rs_get (rules : ruleset) (uri : bytes) : option R :=
    option_map snd (find (fun e => rule_matches (fst e) uri) rules).

  Definition rs_build (add : ruleset -> bytes -> R -> ruleset) (hist : list (bytes * R)) : ruleset :=
    fold_left (fun rs e => add rs (fst e) (snd e)) hist rs_empty.

  (** [sort_unstable_by] in general (more than 20 rules: ipnsort) is only known to return
      *some* permutation that is sorted for the comparator; the theorems hold for each. *)
  Definition cmp_le (a b : bytes * R) : Prop := rule_cmp a b <> Gt.
  Definition sorted_perm (l l' : ruleset) : Prop := Permutation l l' /\ Sorted cmp_le l'.

  (** Every vector that a history of [add_mut] calls can produce, whatever the sort picks. *)
  Inductive rs_reach : list (bytes * R) -> ruleset -> Prop :=
  | reach_empty : rs_reach [] []
  | reach_add hist rules path rule rules' :
      rs_reach hist rules ->
      sorted_perm (rs_unsorted_add rules path rule) rules' ->
      rs_reach (hist ++ [(path, rule)]) rules'.

  (** ---- Specification: an independent resolver over the history of adds ---- *)
  Definition is_wild (p : bytes) : bool := ends_with_star p.
  (** does pattern [p] cover the request path? *)
  Definition covers (p uri : bytes) : bool :=
    if is_wild p then starts_with (removelast p) uri else beq p uri.
  (** [p] is strictly more specific than [q]: exact beats wildcard, then longer beats shorter *)
  Definition more_specific (p q : bytes) : bool :=
    if Bool.eqb (is_wild p) (is_wild q) then Nat.ltb (length q) (length p) else is_wild q.
  Definition most_specific (cands : list bytes) : option bytes :=
    match cands with
    | [] => None
    | c :: cs => Some (fold_left (fun best p => if more_specific p best then p else best) cs c)
    end.
  Definition last_added (hist : list (bytes * R)) (p : bytes) : option R :=
    option_map snd (find (fun e => beq (fst e) p) (rev hist)).
  Definition resolve (hist : list (bytes * R)) (uri : bytes) : option R :=
    match most_specific (filter (fun p => covers p uri) (map fst hist)) with
    | Some p => last_added hist p
    | None => None
    end.
End RuleSet.
Arguments ruleset R : clear implicits.

(** ---- xval interface ---- *)
Definition d_add (x : xval) : option (bytes * N) :=
  match x with XL [XB p; XN v] => Some (p, v) | _ => None end.

(** input: (L (L (L (B pattern) (N value)) ...) (L (B path) ...)); output: (L opt ...) *)
Definition run_ruleset (get : list (bytes * N) -> bytes -> option N) (x : xval) : xval :=
  match x with
  | XL [adds; probes] =>
      match d_list d_add adds, d_list d_B probes with
      | Some hist, Some ps => XL (map (fun p => x_option XN (get hist p)) ps)
      | _, _ => bad_input
      end
  | _ => bad_input
  end.

Definition run_ruleset_get := run_ruleset (fun hist p => rs_get (rs_build rs_add hist) p).
Definition run_ruleset_get_v0 := run_ruleset (fun hist p => rs_get (rs_build rs_add_v0 hist) p).
Definition run_ruleset_spec := run_ruleset (fun hist p => resolve hist p).

Definition ruleset_table : list (bytes * (xval -> xval)) :=
  [ (B "ruleset.get", run_ruleset_get);
    (B "ruleset.get_v0", run_ruleset_get_v0);
    (B "ruleset.spec", run_ruleset_spec) ].
