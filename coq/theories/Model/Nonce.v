(** C14 — model of
    - the [nonce] Present extension ([Extensions::with_nonce], src/extensions.rs),
    - [csp::Rule::to_header_nonce] and the CSP Package extension ([Extensions::with_csp], src/csp.rs),
    - the [referrer-policy] and [server] Package extensions and the Package chain
      ([Extensions::resolve_package], called by [SendKind::send], src/lib.rs),
    - the part of the cache-miss path of [handle_cache] that decides whether a page is stored,
    - the line of Present directives of a page ([Extensions::resolve_present]: [!> nonce &> cache server:full])
      with kvarn_extensions' [cache], [allow-ips], [hide] (extensions/src/lib.rs).
    Definitions only; proofs live in Proofs/NonceProofs.v. *)
From KV Require Export Bytes RuleSet.
From KV Require PathSan.
Open Scope N_scope.

Definition NONCE_EQ : bytes := Eval vm_compute in B "nonce=".
Definition c_dquote : N := 34.
Definition c_squote : N := 39.
Definition c_sp : N := 32.
Definition E_FUEL : N := 7.

Definition is_nil {A} (l : list A) : bool := match l with [] => true | _ => false end.
Definition is_none {A} (o : option A) : bool := match o with None => true | Some _ => false end.

(** [BytesCow::replace(remove, replacement)] (utils/src/lib.rs): a start after the end is
    moved to the end; a range that ends after the buffer panics ([copy_within]). *)
Definition cow_replace (start stop : nat) (replacement body : bytes) : outcome bytes :=
  let start := if Nat.ltb stop start then stop else start in
  if Nat.leb stop (length body)
  then Ok (firstn start body ++ replacement ++ skipn stop body)
  else Panic.

(** ---- the rewriting loop as it was before the repair ----
    (DQ = the double-quote byte, SQ = the single-quote byte, NONCE_EQ = the six bytes nonce=)
    {[ let mut last_start = 0;
       while let Some(occurrence) = memmem::find(&body[last_start + 1..], NONCE_EQ) {
           let occurrence = occurrence + last_start + 1;
           let rest = &body[occurrence + 6..];
           let first = rest.first();
           let end = match first { Some(DQ) => memchr(DQ, &rest[1..]),
                                   Some(SQ) => memchr(SQ, &rest[1..]), _ => None };
           let end = end.map(|v| v + 1 + 6);
           if let Some(end) = end { last_start = occurrence + end; replacement = q nonce q }
           else { replacement = DQ DQ; last_start = occurrence + 6 + 2; }
           body.replace(occurrence + 6..last_start, &replacement); } ]} *)
Fixpoint nonce_loop_v0 (fuel : nat) (nonce body : bytes) (last_start : nat) : outcome bytes :=
  match fuel with
  | O => Err E_FUEL
  | S f =>
      obind (slice_chk (last_start + 1) (length body) body) (fun hay =>
      match find_sub NONCE_EQ hay with
      | None => Ok body
      | Some occ =>
          let occurrence := (occ + last_start + 1)%nat in
          let rest := skipn (occurrence + 6) body in
          let stop :=
            match rest with
            | q :: rest1 =>
                if N.eqb q c_dquote then option_map (fun v => (q, (v + 1 + 6)%nat)) (find_byte c_dquote rest1)
                else if N.eqb q c_squote then option_map (fun v => (q, (v + 1 + 6)%nat)) (find_byte c_squote rest1)
                else None
            | [] => None
            end in
          match stop with
          | Some (q, e) =>
              let last_start' := (occurrence + e)%nat in
              obind (cow_replace (occurrence + 6) last_start' (q :: nonce ++ [q]) body)
                    (fun body' => nonce_loop_v0 f nonce body' last_start')
          | None =>
              let last_start' := (occurrence + 6 + 2)%nat in
              obind (cow_replace (occurrence + 6) last_start' [c_dquote; c_dquote] body)
                    (fun body' => nonce_loop_v0 f nonce body' last_start')
          end
      end)
  end.
Definition nonce_rewrite_v0 (nonce body : bytes) : outcome bytes :=
  nonce_loop_v0 (2 * length body + 4) nonce body 0.

(** ---- the rewriting loop after the repair (fix commit in the repo worktree) ----
    {[ let mut search_from = 0;
       while let Some(occurrence) = body.get(search_from..).and_then(|rest| memmem::find(rest, NONCE_EQ)) {
           let value_start = search_from + occurrence + 6;
           let quote = match body.get(value_start) {
               Some(q @ (DQ | SQ)) => *q,
               _ => { search_from = value_start; continue; } };
           let value_len = match memchr(quote, &body[value_start + 1..]) {
               Some(len) => len,
               None => { search_from = value_start; continue; } };
           let value_end = value_start + 1 + value_len + 1;
           replacement = quote nonce quote;
           body.replace(value_start..value_end, &replacement);
           search_from = value_start + replacement.len(); } ]} *)
Fixpoint nonce_loop (fuel : nat) (nonce body : bytes) (search_from : nat) : outcome bytes :=
  match fuel with
  | O => Err E_FUEL
  | S f =>
      match slice_get search_from (length body) body with
      | None => Ok body
      | Some rest =>
          match find_sub NONCE_EQ rest with
          | None => Ok body
          | Some occurrence =>
              let value_start := (search_from + occurrence + 6)%nat in
              match nth_error body value_start with
              | Some q =>
                  if N.eqb q c_dquote || N.eqb q c_squote then
                    match find_byte q (skipn (value_start + 1) body) with
                    | Some value_len =>
                        let value_end := (value_start + 1 + value_len + 1)%nat in
                        let replacement := q :: nonce ++ [q] in
                        obind (cow_replace value_start value_end replacement body)
                              (fun body' => nonce_loop f nonce body' (value_start + length replacement))
                    | None => nonce_loop f nonce body value_start
                    end
                  else nonce_loop f nonce body value_start
              | None => nonce_loop f nonce body value_start
              end
          end
      end
  end.
Definition nonce_rewrite (nonce body : bytes) : outcome bytes :=
  nonce_loop (S (length body)) nonce body 0.

(** ---- Specification of the rewriting (independent: no indices, no search) ----
    Scan left to right.  Where the text reads [nonce=], a quote [q] (double or single), any
    bytes without [q], and [q] again, emit [nonce=q<nonce>q] and go on behind the closing
    quote; everywhere else copy one byte. *)
Definition is_quote (c : N) : bool := N.eqb c c_dquote || N.eqb c c_squote.
Fixpoint strip_prefix (p s : bytes) : option bytes :=
  match p, s with
  | [], _ => Some s
  | x :: p', y :: s' => if N.eqb x y then strip_prefix p' s' else None
  | _ :: _, [] => None
  end.
Fixpoint split_at_byte (q : N) (s : bytes) : option (bytes * bytes) :=
  match s with
  | [] => None
  | c :: r =>
      if N.eqb c q then Some ([], r)
      else match split_at_byte q r with Some (a, b) => Some (c :: a, b) | None => None end
  end.
(** [Some (q, value, rest)] iff [s = NONCE_EQ ++ q :: value ++ q :: rest], [q] a quote not in [value]. *)
Definition attr_at (s : bytes) : option (N * bytes * bytes) :=
  match strip_prefix NONCE_EQ s with
  | Some (q :: t) =>
      if is_quote q then
        match split_at_byte q t with Some (v, rest) => Some (q, v, rest) | None => None end
      else None
  | _ => None
  end.
Fixpoint spec_go (fuel : nat) (nonce s : bytes) : bytes :=
  match fuel with
  | O => s
  | S f =>
      match attr_at s with
      | Some (q, _, rest) => NONCE_EQ ++ q :: nonce ++ q :: spec_go f nonce rest
      | None => match s with [] => [] | c :: r => c :: spec_go f nonce r end
      end
  end.
Definition nonce_spec (nonce s : bytes) : bytes := spec_go (S (length s)) nonce s.

(** The same as a splice: the body is cut into literal bytes and well-formed attributes;
    the output re-renders the pieces with every attribute value replaced. *)
Inductive piece := Lit (c : N) | Attr (q : N) (v : bytes).
Definition render_piece (f : bytes -> bytes) (p : piece) : bytes :=
  match p with Lit c => [c] | Attr q v => NONCE_EQ ++ q :: f v ++ [q] end.
Definition render (f : bytes -> bytes) (ps : list piece) : bytes := concat (map (render_piece f) ps).
Definition wf_piece (p : piece) : Prop :=
  match p with Lit _ => True | Attr q v => is_quote q = true /\ ~ In q v end.
(** greedy: a literal byte never starts a well-formed attribute *)
Fixpoint greedy (ps : list piece) : Prop :=
  match ps with
  | [] => True
  | Lit c :: r => attr_at (render (fun v => v) ps) = None /\ greedy r
  | Attr _ _ :: r => greedy r
  end.

(** ---- headers ---- *)
Definition headers := list (bytes * bytes).
Definition h_get (name : bytes) (h : headers) : option bytes :=
  option_map snd (find (fun e => beq (fst e) name) h).
Definition h_remove (name : bytes) (h : headers) : headers :=
  filter (fun e => negb (beq (fst e) name)) h.
(** [HeaderMap::insert]: replaces every value of the name *)
Definition h_insert (name v : bytes) (h : headers) : headers := h_remove name h ++ [(name, v)].
(** [entry(name).or_insert(v)] *)
Definition h_or_insert (name v : bytes) (h : headers) : headers :=
  match h_get name h with Some _ => h | None => h ++ [(name, v)] end.

(** [HeaderMap::get_all]: every value of the name, in order *)
Definition h_all (name : bytes) (h : headers) : list bytes :=
  map snd (filter (fun e => beq (fst e) name) h).

Definition H_CSP : bytes := Eval vm_compute in B "content-security-policy".
Definition H_NONCE : bytes := Eval vm_compute in B "csp-nonce".
Definition H_REFERRER : bytes := Eval vm_compute in B "referrer-policy".
Definition H_SERVER : bytes := Eval vm_compute in B "server".
Definition NO_REFERRER : bytes := Eval vm_compute in B "no-referrer".

(** ---- CSP rule serialisation ([Rule::to_header_nonce]) ---- *)
Definition directive_names : list (list bytes) := Eval vm_compute in
  [ [B "child-src"]; [B "connect-src"]; [B "default-src"]; [B "font-src"]; [B "frame-src"]; [B "img-src"];
    [B "manifest-src"]; [B "media-src"]; [B "object-src"]; [B "prefetch-src"]; [B "script-src"];
    [B "script-src-elem"]; [B "script-src-attr"]; [B "style-src"]; [B "style-src-elem"]; [B "style-src-attr"];
    [B "worker-src"]; [B "base-uri"]; [B "sandbox"]; [B "form-action"]; [B "frame-ancestors"]; [B "navigate-to"];
    [B "report-to"; B "report-uri"]; [B "require-sri-for"]; [B "require-trused-types-for"]; [B "trusted-types"];
    [B "upgrade-insecure-requests"] ].
Definition nonce_directives : list bytes := Eval vm_compute in
  [B "script-src"; B "style-src"; B "script-src-elem"; B "style-src-elem"].

(** a rule: the value lists of the 27 named directives in declaration order, and the
    [undefined] map (a [BTreeMap]: sorted by name, one entry per name) *)
Definition csp_rule := (list (list bytes) * list (bytes * list bytes))%type.
Definition csp_empty : csp_rule := (map (fun _ => []) directive_names, []).

(** [HeaderValue::to_str] fails iff some byte is neither visible ASCII nor TAB.  Stated on the
    failing bytes (0..8, 10..31, 127..255) so that numbers above 255 — not bytes; the
    correspondence run uses them as symbolic stand-ins for the generator's base64 output —
    count as visible. *)
Definition hv_invisible (c : N) : bool := ((c <? 32) && negb (c =? 9)) || ((127 <=? c) && (c <? 256)).
Definition hv_to_str_ok (v : bytes) : bool := forallb (fun c => negb (hv_invisible c)) v.

(** [utils::join(values, SPACE)] *)
Definition join_sp (vs : list bytes) : bytes :=
  match vs with [] => [] | v :: r => v ++ concat (map (fun x => c_sp :: x) r) end.
Definition is_special (nonce : option bytes) (names : list bytes) : bool :=
  match nonce with
  | Some _ => existsb (fun nm => existsb (beq nm) nonce_directives) names
  | None => false
  end.
Definition NONCE_SRC : bytes := Eval vm_compute in B "'nonce-".
Definition SELF_SP : bytes := Eval vm_compute in B "'self' ".
Definition SEMI_SP : bytes := Eval vm_compute in B "; ".
Definition nonce_source (n : bytes) : bytes := NONCE_SRC ++ n ++ [c_squote].
Definition directive_value (values : list bytes) (special : bool) (nonce : option bytes) : bytes :=
  let s := join_sp values in
  if special then
    match nonce with
    | Some n => if hv_to_str_ok n then (if is_nil s then SELF_SP else s ++ [c_sp]) ++ nonce_source n else s
    | None => s
    end
  else s.
Definition put_directive (s : bytes) (acc name : bytes) : bytes :=
  acc ++ (if is_nil acc then [] else SEMI_SP) ++ name ++ [c_sp] ++ s.
Definition emit_named (nonce : option bytes) (acc : bytes) (d : list bytes * list bytes) : bytes :=
  let special := is_special nonce (fst d) in
  if negb (is_nil (snd d)) || special
  then fold_left (put_directive (directive_value (snd d) special nonce)) (fst d) acc
  else acc.
Definition emit_undefined (acc : bytes) (u : bytes * list bytes) : bytes :=
  if is_nil (snd u) then acc
  else put_directive (concat (map (fun v => v ++ [c_sp]) (snd u))) acc (fst u).
Definition to_header_nonce (r : csp_rule) (nonce : option bytes) : option bytes :=
  let empty := forallb is_nil (fst r) && forallb (fun u => is_nil (snd u)) (snd r) && match nonce with Some _ => false | None => true end in
  if empty then None
  else Some (fold_left emit_undefined (snd r)
               (fold_left (emit_named nonce) (combine directive_names (fst r)) [])).

(** builder calls: [rule.<directive>(values)] and [rule.string(name, values)] *)
Fixpoint set_nth {A} (i : nat) (v : A) (l : list A) : list A :=
  match l, i with
  | [], _ => []
  | _ :: r, O => v :: r
  | x :: r, S j => x :: set_nth j v r
  end.
Fixpoint bt_insert (name : bytes) (vs : list bytes) (m : list (bytes * list bytes)) : list (bytes * list bytes) :=
  match m with
  | [] => [(name, vs)]
  | (k, w) :: r =>
      match bcmp name k with
      | Lt => (name, vs) :: m
      | Eq => (name, vs) :: r
      | Gt => (k, w) :: bt_insert name vs r
      end
  end.

(** ---- Package extensions ---- *)
(** [Cors::resolved_path] (src/cors.rs), used by [with_csp] since the repair: the path the file is
    read from — percent-decoded ([kvarn_utils::percent_decode]: the text itself when the decoded bytes
    are not UTF-8) and without repeated '/'. *)
Fixpoint collapse_slashes (s : bytes) (prev_slash : bool) : bytes :=
  match s with
  | [] => []
  | c :: r => if (c =? 47) && prev_slash then collapse_slashes r true else c :: collapse_slashes r (c =? 47)
  end.
Definition csp_path (p : bytes) : bytes := collapse_slashes (PathSan.util_percent_decode p) false.

(** [with_csp]; [pf] = how the rule is looked up.  After the repairs: [pf = csp_path], and [csp-nonce]
    is removed whether or not a rule matched. *)
Definition pkg_csp_with (pf : bytes -> bytes) (rules : ruleset csp_rule) (path : bytes) (h : headers) : headers :=
  let nonce := h_get H_NONCE h in
  let h1 :=
    match rs_get rules (pf path) with
    | Some rule =>
        match to_header_nonce rule nonce with
        | Some v => h_insert H_CSP v h
        | None => h
        end
    | None => h
    end in
  match nonce with Some _ => h_remove H_NONCE h1 | None => h1 end.
Definition pkg_csp := pkg_csp_with csp_path.
(** as it was before the repair "rule of the path the file is read from": the path as spelled in the request *)
Definition pkg_csp_raw := pkg_csp_with (fun p => p).
(** [with_csp] in kvarn 0.6.3: raw path, and [csp-nonce] only removed inside [if let Some(rule)]. *)
Definition pkg_csp_v0 (rules : ruleset csp_rule) (path : bytes) (h : headers) : headers :=
  match rs_get rules path with
  | Some rule =>
      let nonce := h_get H_NONCE h in
      let h1 := match to_header_nonce rule nonce with Some v => h_insert H_CSP v h | None => h end in
      match nonce with Some _ => h_remove H_NONCE h1 | None => h1 end
  | None => h
  end.
Definition pkg_referrer (h : headers) : headers := h_or_insert H_REFERRER NO_REFERRER h.
(** [with_server_header(name, add_platform, override_server_header)] (the harness runs on Linux) *)
Definition PLATFORM : bytes := Eval vm_compute in B " (Linux)".
Definition server_value (platform : bool) (server : bytes) : bytes := server ++ (if platform then PLATFORM else []).
Definition pkg_server_flags (platform override : bool) (server : bytes) (h : headers) : headers :=
  if override then h_insert H_SERVER (server_value platform server) h
  else h ++ [(H_SERVER, server_value platform server)].          (* [HeaderMap::append] *)
Definition pkg_server (server : bytes) (h : headers) : headers := h_insert H_SERVER server h.

(** Which Package extensions are registered, and the flags of [with_server_header]. *)
Record pkg_cfg := mkCfg { pc_csp : bool; pc_ref : bool; pc_server : bool; pc_platform : bool; pc_override : bool }.
(** [Extensions::new()] (+ [with_csp] + [with_server_header(name, false, true)]) *)
Definition cfg_new : pkg_cfg := mkCfg true true true false true.

(** the Package list with its priorities (kept sorted, highest first, by [add_sorted_list!] — C16) *)
Definition package_list_cfg (cfg : pkg_cfg) (csp : ruleset csp_rule -> bytes -> headers -> headers)
    (rules : ruleset csp_rule) (server path : bytes) : list (Z * (headers -> headers)) :=
  (if pc_csp cfg then [ (128%Z, csp rules path) ] else []) ++
  (if pc_ref cfg then [ (10%Z, pkg_referrer) ] else []) ++
  (if pc_server cfg then [ ((-1327)%Z, pkg_server_flags (pc_platform cfg) (pc_override cfg) server) ] else []).
Definition package_list (csp : ruleset csp_rule -> bytes -> headers -> headers)
    (rules : ruleset csp_rule) (server path : bytes) : list (Z * (headers -> headers)) :=
  [ (128%Z, csp rules path); (10%Z, pkg_referrer); ((-1327)%Z, pkg_server server) ].
(** [resolve_package]: every extension in list order *)
Definition resolve_package (l : list (Z * (headers -> headers))) (h : headers) : headers :=
  fold_left (fun h e => snd e h) l h.
Definition package_chain (rules : ruleset csp_rule) (server path : bytes) (h : headers) : headers :=
  resolve_package (package_list pkg_csp rules server path) h.
Definition package_chain_cfg (cfg : pkg_cfg) (rules : ruleset csp_rule) (server path : bytes) (h : headers) : headers :=
  resolve_package (package_list_cfg cfg pkg_csp rules server path) h.
Definition package_chain_raw (rules : ruleset csp_rule) (server path : bytes) (h : headers) : headers :=
  resolve_package (package_list pkg_csp_raw rules server path) h.
Definition package_chain_v0 (rules : ruleset csp_rule) (server path : bytes) (h : headers) : headers :=
  resolve_package (package_list pkg_csp_v0 rules server path) h.

(** the rule set of [Extensions::new()]: [Csp::default()] = [/*] -> [Rule::default()] *)
Definition csp_default_rule : csp_rule := Eval vm_compute in
  (set_nth 2 [B "'self'"] (set_nth 13 [B "'self'"; B "'unsafe-inline'"] (fst csp_empty)), []).
Definition csp_default_hist : list (bytes * csp_rule) := Eval vm_compute in [(B "/*", csp_default_rule)].

(** ---- the Present extensions of a page and the decision to store it ---- *)
Inductive server_pref := SNone | SFull | SQueryMatters | SMaxAge.
(** [pg_marker]: the [NoServerCache] mark that kvarn_extensions' [allow-ips] leaves in the response's extensions *)
Record page := { pg_status : N; pg_body : bytes; pg_headers : headers; pg_pref : server_pref; pg_marker : bool }.
Definition set_pref (s : server_pref) (p : page) : page :=
  {| pg_status := pg_status p; pg_body := pg_body p; pg_headers := pg_headers p; pg_pref := s; pg_marker := pg_marker p |}.
Definition set_marker (m : bool) (p : page) : page :=
  {| pg_status := pg_status p; pg_body := pg_body p; pg_headers := pg_headers p; pg_pref := pg_pref p; pg_marker := m |}.
(** the [nonce] extension ([with_nonce]): rewrite, [csp-nonce], server cache preference None *)
Definition nonce_present (rewrite : bytes -> bytes -> outcome bytes) (nonce : bytes) (p : page) : outcome page :=
  obind (rewrite nonce (pg_body p)) (fun body' =>
  Ok {| pg_status := pg_status p; pg_body := body'; pg_headers := h_insert H_NONCE nonce (pg_headers p);
        pg_pref := SNone; pg_marker := pg_marker p |}).

(** [ServerCachePreference::cache] for a GET and a status the host's filter accepts *)
Definition admits (p : server_pref) : bool := match p with SNone => false | _ => true end.
(** [host::Options::status_code_cache_filter] (default): statuses that are not cached *)
Definition status_not_cached (s : N) : bool :=
  ((400 <=? s) && (s <=? 403)) || ((405 <=? s) && (s <=? 409)) || ((411 <=? s) && (s <=? 499))
  || ((100 <=? s) && (s <=? 199)) || (s =? 304).

(** One directive of the line [!> name args &> name args] at the start of a page:
    [nonce] (kvarn), [cache], [allow-ips], [hide] (kvarn_extensions), anything else without effect on
    what this property looks at ([download], unknown names). *)
Inductive directive :=
| DNonce
| DCache (server : option server_pref)    (* the last argument [server:<preference>] that parses *)
| DAllowIps (matched : bool)              (* does an argument name the client's address? *)
| DHide
| DNoop.
Definition ERR_BODY : bytes := Eval vm_compute in B "ERRPAGE".
(** [default_error(404)] put in place of the response (a fresh response: no headers of the old one, no mark) *)
Definition not_found_page (p : page) : page :=
  {| pg_status := 404; pg_body := ERR_BODY; pg_headers := []; pg_pref := pg_pref p; pg_marker := false |}.
(** [rng k] is the value the generator yields for the k-th draw; the state counts the draws *)
Definition present_step (rewrite : bytes -> bytes -> outcome bytes) (rng : nat -> bytes)
    (st : outcome (nat * page)) (d : directive) : outcome (nat * page) :=
  obind st (fun kp =>
  let k := fst kp in let p := snd kp in
  match d with
  | DNonce => obind (nonce_present rewrite (rng (S k)) p) (fun p' => Ok (S k, p'))
  | DCache (Some s) => Ok (k, if pg_marker p then p else set_pref s p)
  | DCache None => Ok (k, p)
  | DAllowIps matched => Ok (k, set_marker true (set_pref SNone (if matched then p else not_found_page p)))
  | DHide => Ok (k, not_found_page p)
  | DNoop => Ok (k, p)
  end).
(** [resolve_present]: the directives in order; then ([guard], the repair) a response that carries a nonce
    never keeps a server cache preference *)
Definition nonce_guard (guard : bool) (p : page) : page :=
  if guard && negb (is_nil (h_all H_NONCE (pg_headers p))) then set_pref SNone p else p.
Definition present_chain (guard : bool) (rewrite : bytes -> bytes -> outcome bytes) (rng : nat -> bytes)
    (line : list directive) (k : nat) (p : page) : outcome (nat * page) :=
  obind (fold_left (present_step rewrite rng) line (Ok (k, p))) (fun kp => Ok (fst kp, nonce_guard guard (snd kp))).

(** One path of one host.  [handler] is what the Prepare extension returns (data after the line,
    preference); [line] the directives of its first line. *)
Record pstate := { st_calls : nat; st_draws : nat; st_cache : option page }.
Definition pstate0 : pstate := {| st_calls := O; st_draws := O; st_cache := None |}.
Definition page_request (guard : bool) (rewrite : bytes -> bytes -> outcome bytes) (rng : nat -> bytes)
    (line : list directive) (handler : page) (st : pstate) : outcome (pstate * page) :=
  match st_cache st with
  | Some stored => Ok (st, stored)
  | None =>
      obind (present_chain guard rewrite rng line (st_draws st) handler) (fun kp =>
      let p := snd kp in
      Ok ({| st_calls := S (st_calls st); st_draws := fst kp;
             st_cache := if admits (pg_pref p) && negb (status_not_cached (pg_status p)) then Some p else None |}, p))
  end.
Fixpoint page_history (guard : bool) (rewrite : bytes -> bytes -> outcome bytes) (rng : nat -> bytes)
    (line : list directive) (handler : page) (n : nat) (st : pstate) : outcome (pstate * list page) :=
  match n with
  | O => Ok (st, [])
  | S m =>
      obind (page_request guard rewrite rng line handler st) (fun r =>
      obind (page_history guard rewrite rng line handler m (fst r)) (fun r2 =>
      Ok (fst r2, snd r :: snd r2)))
  end.

(** the value of the k-th draw of the generator in the correspondence run: 24 symbolic
    "bytes" 1000k .. 1000k+23 (outside the byte range) *)
Definition sym_nonce (k : nat) : bytes := map (fun i => 1000 * N.of_nat k + N.of_nat i) (seq 0 24).

(** ---- Specification of the Package chain: the headers the property demands ----
    [hist] is the history of [add_mut] calls that built the CSP rule set; the rule is chosen by the
    independent resolver [resolve] of Model/RuleSet.v, not by the vector, for the path the file is
    read from ([csp_path]: percent-decoded, repeated slashes collapsed). *)
Definition spec_csp (hist : list (bytes * csp_rule)) (path : bytes) (h : headers) : list bytes :=
  match resolve hist (csp_path path) with
  | Some rule =>
      match to_header_nonce rule (h_get H_NONCE h) with
      | Some v => [v]
      | None => h_all H_CSP h
      end
  | None => h_all H_CSP h
  end.
Definition spec_referrer (h : headers) : list bytes :=
  match h_all H_REFERRER h with [] => [NO_REFERRER] | l => l end.
Definition spec_security (hist : list (bytes * csp_rule)) (server path : bytes) (h : headers) : headers :=
  map (pair H_CSP) (spec_csp hist path h) ++ map (pair H_REFERRER) (spec_referrer h) ++ [(H_SERVER, server)].

(** ... with the flags of [with_server_header]: the configured value (with the platform suffix when asked
    for) is the only [server] header, or — [override_server_header = false] — follows the ones the
    response had *)
Definition spec_server (platform override : bool) (server : bytes) (h : headers) : list bytes :=
  if override then [server_value platform server] else h_all H_SERVER h ++ [server_value platform server].

(** ---- Independent specification of the serialisation: the policy as a CSP parser reads it ----
    CSP3 2.2.1 "parse a serialized CSP": split on ';', in each part the tokens separated by spaces:
    the first is the directive name, the rest its source list; parts without a token are skipped. *)
Definition c_semi : N := 59.
Fixpoint split_byte (c : N) (s : bytes) : list bytes :=
  match s with
  | [] => [[]]
  | x :: r =>
      if N.eqb x c then [] :: split_byte c r
      else match split_byte c r with seg :: rest => (x :: seg) :: rest | [] => [[x]] end
  end.
Definition tokens (s : bytes) : list bytes := filter (fun t => negb (is_nil t)) (split_byte c_sp s).
Definition parse_directive (seg : bytes) : list (bytes * list bytes) :=
  match tokens seg with [] => [] | name :: sources => [(name, sources)] end.
Definition parse_policy (s : bytes) : list (bytes * list bytes) := flat_map parse_directive (split_byte c_semi s).

(** what the policy of a rule has to say — no text involved: each named directive that has values, and
    each of the four script/style directives when the page has a nonce, with the rule's values (['self']
    when it has none) followed by the nonce source; then the rule's free-form directives that have values *)
Definition SELF : bytes := Eval vm_compute in B "'self'".
Definition nonce_usable (nonce : option bytes) : option bytes :=
  match nonce with Some n => if hv_to_str_ok n then Some n else None | None => None end.
Definition spec_sources (special : bool) (nonce : option bytes) (vals : list bytes) : list bytes :=
  if special then
    match nonce_usable nonce with
    | Some n => (match vals with [] => [SELF] | _ => vals end) ++ [nonce_source n]
    | None => vals
    end
  else vals.
Definition spec_named (nonce : option bytes) (d : list bytes * list bytes) : list (bytes * list bytes) :=
  let special := is_special nonce (fst d) in
  if negb (is_nil (snd d)) || special then map (fun name => (name, spec_sources special nonce (snd d))) (fst d) else [].
Definition spec_undefined (u : bytes * list bytes) : list (bytes * list bytes) := if is_nil (snd u) then [] else [u].
Definition spec_policy (r : csp_rule) (nonce : option bytes) : list (bytes * list bytes) :=
  flat_map (spec_named nonce) (combine directive_names (fst r)) ++ flat_map spec_undefined (snd r).
(** a token of a policy: not empty, no space, no semicolon *)
Definition wf_tok (t : bytes) : Prop := t <> [] /\ ~ In c_sp t /\ ~ In c_semi t.
Definition wf_rule (r : csp_rule) : Prop :=
  length (fst r) = 27%nat /\ Forall (Forall wf_tok) (fst r) /\
  Forall (fun u => wf_tok (fst u) /\ Forall wf_tok (snd u)) (snd r).
Definition wf_nonce (nonce : option bytes) : Prop :=
  match nonce with Some n => ~ In c_sp n /\ ~ In c_semi n | None => True end.

(** the policies the property demands, as parsed policies: the one of the most specific rule for the
    path the file is read from, or — that rule says nothing / no rule — what the handler set *)
Definition spec_csp_parsed (hist : list (bytes * csp_rule)) (path : bytes) (h : headers) : list (list (bytes * list bytes)) :=
  match resolve hist (csp_path path) with
  | Some rule =>
      match spec_policy rule (h_get H_NONCE h) with
      | [] => map parse_policy (h_all H_CSP h)
      | pol => [pol]
      end
  | None => map parse_policy (h_all H_CSP h)
  end.

(** the reply the property demands for a nonce page when the generator drew [n] *)
Definition nonce_reply (n : bytes) (handler : page) : page :=
  {| pg_status := pg_status handler; pg_body := nonce_spec n (pg_body handler);
     pg_headers := h_insert H_NONCE n (pg_headers handler); pg_pref := SNone; pg_marker := pg_marker handler |}.

(** a policy is a list of directives separated by "; ": what precedes a directive is empty or ends
    with the separator, what follows is empty or starts with it *)
Definition sep_tail (post : bytes) : Prop := post = [] \/ exists p, post = SEMI_SP ++ p.
Definition sep_head (pre : bytes) : Prop := pre = [] \/ exists p, pre = p ++ SEMI_SP.

(** ---- the send path on a small fixture ([handle_connection] -> [handle_cache] -> [SendKind::send]) ----
    A host with response cache, [Extensions::new()] (+ CSP rule set + server header), Prepare handlers
    for single paths and — when the case has files — a directory of files.  What is modelled is which
    response *head* reaches the Package chain for hits, misses, error statuses, 304 and ranges; bodies of
    Kvarn's error pages are a placeholder (only their being non-empty and shorter than 2000 bytes
    matters).  [ch_fs]: a file [public/<ch_path>] (status 200, no headers, cached) instead of a handler. *)
Record chandler := mkCH { ch_path : bytes; ch_status : N; ch_headers : headers;
                          ch_cache : bool; ch_line : list directive; ch_body : bytes; ch_fs : bool }.
(** method: 0 GET, 1 HEAD, 2 POST; range: 0 none, 1 [bytes=0-3], 2 [bytes=2000-2999];
    ims: [if-modified-since] with a date in the far future; enc: the [accept-encoding] sent (the client
    decodes the body: compression is invisible here) *)
Record creq := mkCR { cr_method : N; cr_path : bytes; cr_range : N; cr_ims : bool; cr_enc : N }.
Record creply := mkCRep { rp_status : N; rp_headers : headers; rp_body : bytes }.
Record cstate := mkCS { cs_cache : list (bytes * creply); cs_nonces : nat }.

Definition c_slash : N := 47.
Definition c_dot : N := 46.
Definition INDEX_HTML : bytes := Eval vm_compute in B "index.html".
Definition HTML : bytes := Eval vm_compute in B "html".
(** the Prime extension of [with_uri_redirect] (it rewrites [request.uri()]) *)
Definition prime_path (p : bytes) : bytes :=
  match rev p with
  | c :: _ => if N.eqb c c_slash then p ++ INDEX_HTML else if N.eqb c c_dot then p ++ HTML else p
  | [] => p
  end.
(** [sanitize_request] (path part, Model/PathSan.v): refused iff the lossily percent-decoded path
    contains [./] or does not start with exactly one [/] *)
Definition unsafe_path (p : bytes) : bool :=
  match PathSan.sanitize_path p with Ok _ => false | _ => true end.
Definition c_lookup (p : bytes) (c : list (bytes * creply)) : option creply :=
  option_map snd (find (fun e => beq (fst e) p) c).

Definition page_of_handler (h : chandler) : page :=
  if ch_fs h then {| pg_status := 200; pg_body := ch_body h; pg_headers := []; pg_pref := SFull; pg_marker := false |}
  else {| pg_status := ch_status h; pg_body := ch_body h; pg_headers := ch_headers h;
          pg_pref := if ch_cache h then SFull else SNone; pg_marker := false |}.
(** the Prepare extension bound to the (rewritten) path as spelled; else the file named by the
    percent-decoded path ([None]: the decoded bytes are not UTF-8, no file path at all), where the
    operating system ignores repeated slashes *)
Definition find_source (hs : list chandler) (p : bytes) : option chandler :=
  match find (fun h => negb (ch_fs h) && beq (ch_path h) p) hs with
  | Some h => Some h
  | None =>
      match PathSan.decoded_for_use p with
      | Some d => find (fun h => ch_fs h && beq (ch_path h) (collapse_slashes d false)) hs
      | None => None
      end
  end.
(** a cache miss: the handler / file of the path (or 404; 405 for a POST that no handler takes when the
    host serves files), then the Present extensions of its first line *)
Definition conn_compute (guard : bool) (rewrite : bytes -> bytes -> outcome bytes) (hs : list chandler)
    (p : bytes) (unsafe : bool) (m : N) (k : nat) : outcome (creply * bool * nat) :=
  if unsafe then Ok (mkCRep 400 [] ERR_BODY, false, k) else
  (* no file path at all when the decoded bytes are not UTF-8: 404 whatever the method *)
  let missing := if existsb ch_fs hs && negb ((m =? 0) || (m =? 1)) && negb (is_none (PathSan.decoded_for_use p)) then 405 else 404 in
  match (if existsb ch_fs hs && negb ((m =? 0) || (m =? 1))
         then find (fun h => negb (ch_fs h) && beq (ch_path h) p) hs else find_source hs p) with
  | None => Ok (mkCRep missing [] ERR_BODY, true, k)   (* [handle_request] wraps its error in [FatResponse::cache] *)
  | Some h =>
      obind (present_chain guard rewrite sym_nonce (ch_line h) k (page_of_handler h)) (fun kp =>
      let pg := snd kp in
      Ok (mkCRep (pg_status pg) (pg_headers pg) (pg_body pg), admits (pg_pref pg), fst kp))
  end.

(** [apply_to_response] in [SendKind::send] for the two ranges of the fixture
    (a 304 is sent as it is: the range is not applied to its empty body — C09's repair) *)
Definition conn_range (range : N) (rep : creply) : creply :=
  match range with
  | 0 => rep
  | _ =>
      if rp_status rep =? 304 then rep else
      let start := if range =? 1 then 0%nat else 2000%nat in
      let len := if range =? 1 then 4%nat else 1000%nat in
      if Nat.leb (length (rp_body rep)) start then mkCRep 416 [] ERR_BODY
      else mkCRep (if rp_status rep =? 200 then 206 else rp_status rep) (rp_headers rep)
                  (firstn len (skipn start (rp_body rep)))
  end.

(** one request: the new state, the response that reaches the Package chain, the path the
    Package extensions see *)
Definition conn_step (guard : bool) (rewrite : bytes -> bytes -> outcome bytes) (hs : list chandler)
    (st : cstate) (r : creq) : outcome (cstate * creply * bytes) :=
  let p := prime_path (cr_path r) in
  let unsafe := unsafe_path (cr_path r) in
  let goh := (cr_method r =? 0) || (cr_method r =? 1) in
  obind
    (match (if negb unsafe && goh then c_lookup p (cs_cache st) else None) with
     | Some stored => Ok (st, if cr_ims r then mkCRep 304 [] [] else stored)
     | None =>
         obind (conn_compute guard rewrite hs p unsafe (cr_method r) (cs_nonces st)) (fun res =>
         let rep := fst (fst res) in
         let store := snd (fst res) && negb (status_not_cached (rp_status rep)) && goh in
         Ok (mkCS (if store then (p, rep) :: cs_cache st else cs_cache st) (snd res), rep))
     end)
    (fun sr => Ok (fst sr, if unsafe then snd sr else conn_range (cr_range r) (snd sr), p)).

(** what the client sees: status, the security headers after the Package chain [chain], and
    the body of a 200/206 answer to a GET *)
Definition conn_wire (chain : bytes -> headers -> headers) (m : N) (rep : creply) (p : bytes) : creply :=
  mkCRep (rp_status rep) (chain p (rp_headers rep))
         (if (m =? 0) && ((rp_status rep =? 200) || (rp_status rep =? 206)) then rp_body rep else []).
Fixpoint conn_run (guard : bool) (rewrite : bytes -> bytes -> outcome bytes) (chain : bytes -> headers -> headers)
    (hs : list chandler) (st : cstate) (rs : list creq) : outcome (list creply) :=
  match rs with
  | [] => Ok []
  | r :: rest =>
      obind (conn_step guard rewrite hs st r) (fun res =>
      obind (conn_run guard rewrite chain hs (fst (fst res)) rest) (fun out =>
      Ok (conn_wire chain (cr_method r) (snd (fst res)) (snd res) :: out)))
  end.

(** ---- xval interface ---- *)
(** The generator's values are not known in advance: the model is run on symbolic nonces
    (24 "bytes" 1000k .. 1000k+23 for the k-th computation, outside the byte range) and
    prints byte strings as templates: (L (B lit) (L (N k)) (B lit) ...). *)
Fixpoint tb_go (skip : nat) (s lit : bytes) : list xval :=
  match s with
  | [] => [XB (rev_append lit [])]
  | c :: r =>
      match skip with
      | S k => tb_go k r lit
      | O =>
          if c <? 256 then tb_go O r (c :: lit)
          else if beq (firstn 24 s) (sym_nonce (N.to_nat (c / 1000)))
               then XB (rev_append lit []) :: XL [XN (c / 1000)] :: tb_go 23 r []
               else XB (rev_append lit []) :: XN c :: tb_go O r []
      end
  end.
Definition x_tb (s : bytes) : xval := XL (tb_go O s []).

Definition d_values (x : xval) : option (list bytes) := d_list d_B x.
Definition d_named (x : xval) : option (nat * list bytes) :=
  match x with
  | XL [XN i; vs] => match d_values vs with Some v => Some (N.to_nat i, v) | None => None end
  | _ => None
  end.
Definition d_undef (x : xval) : option (bytes * list bytes) :=
  match x with
  | XL [XB n; vs] => match d_values vs with Some v => Some (n, v) | None => None end
  | _ => None
  end.
Definition d_rule (x : xval) : option csp_rule :=
  match x with
  | XL [ns; us] =>
      match d_list d_named ns, d_list d_undef us with
      | Some ns, Some us =>
          if forallb (fun d => Nat.ltb (fst d) 27) ns then
            Some (fold_left (fun l d => set_nth (fst d) (snd d) l) ns (fst csp_empty),
                  fold_left (fun m u => bt_insert (fst u) (snd u) m) us [])
          else None
      | _, _ => None
      end
  | _ => None
  end.
Definition d_csp_add (x : xval) : option (bytes * csp_rule) :=
  match x with
  | XL [XB p; r] => match d_rule r with Some r => Some (p, r) | None => None end
  | _ => None
  end.
Definition d_header (x : xval) : option (bytes * bytes) :=
  match x with XL [XB n; XB v] => Some (n, v) | _ => None end.

(** sorted by (name, value) as the harness prints them *)
Definition hdr_cmp (a b : bytes * bytes) : comparison :=
  match bcmp (fst a) (fst b) with Eq => bcmp (snd a) (snd b) | o => o end.
Definition sort_headers (h : headers) : headers := insertion_sort_by hdr_cmp h.
Definition x_headers (enc : bytes -> xval) (h : headers) : xval :=
  XL (map (fun e => XL [XB (fst e); enc (snd e)]) (sort_headers h)).

(** ---- directives and configurations from the interchange form ---- *)
Definition LOCAL_IP : bytes := Eval vm_compute in B "127.0.0.1".
Definition c_colon : N := 58.
Definition all_digits (s : bytes) : bool := negb (is_nil s) && forallb is_digit s.
(** [ServerCachePreference::from_str] on the vocabulary of the generator (no sign, no overflow) *)
Definition parse_server_pref (v : bytes) : option server_pref :=
  if beq v (B "full") then Some SFull
  else if beq v (B "query_matters") || beq v (B "query-matters") || beq v (B "QueryMatters") || beq v (B "queryMatters") then Some SQueryMatters
  else if beq v (B "none") then Some SNone
  else match rev v with
       | c :: r => if (c =? 115) && all_digits (rev r) && negb (forallb (N.eqb 48) r) then Some SMaxAge else None
       | [] => None
       end.
(** kvarn_extensions' [cache]: every argument [domain:value(:...)]; the last [server:<pref>] that parses wins *)
Definition cache_arg (acc : option server_pref) (arg : bytes) : option server_pref :=
  match split_byte c_colon arg with
  | domain :: value :: _ =>
      if beq domain (B "server") then match parse_server_pref value with Some s => Some s | None => acc end else acc
  | _ => acc
  end.
Definition directive_of (name : bytes) (args : list bytes) : directive :=
  if beq name (B "nonce") then DNonce
  else if beq name (B "cache") then DCache (fold_left cache_arg args None)
  else if beq name (B "allow-ips") then DAllowIps (existsb (beq LOCAL_IP) args)
  else if beq name (B "hide") then DHide
  else DNoop.
Definition d_directive (x : xval) : option directive :=
  match x with
  | XL [XB name; args] => match d_list d_B args with Some a => Some (directive_of name a) | None => None end
  | _ => None
  end.
(** [(N 0)] no line, [(N 1)] = [!> nonce], or a list of directives *)
Definition d_line (x : xval) : option (list directive) :=
  match x with
  | XN 0 => Some []
  | XN 1 => Some [DNonce]
  | XL _ => d_list d_directive x
  | _ => None
  end.

(** cfg = (L (N base) (N flags) (N platform) (N override) (N mount) [(N h2)]); absent = base 1, override.
    base 0: [Extensions::new()] as it is — the case carries new()'s own rule set and server value;
    base 1: new() + with_csp + with_server_header(server, platform, override);
    base 2: [Extensions::empty()] + flags (1 with_csp, 2 with_no_referrer, 4 with_server_header) *)
Definition d_cfg (x : option xval) : option (N * pkg_cfg) :=
  match x with
  | None => Some (1, cfg_new)
  | Some (XL (XN base :: XN flags :: XN pl :: XN ov :: XN _ :: rest)) =>
      match rest with
      | [] | [XN _] =>          (* the optional sixth element: HTTP/2 instead of HTTP/1.1 — the same send path *)
          match base with
          | 0 => Some (0, cfg_new)
          | 1 => Some (1, mkCfg true true true (N.eqb pl 1) (N.eqb ov 1))
          | _ => Some (2, mkCfg (N.testbit flags 0) (N.testbit flags 1) (N.testbit flags 2) (N.eqb pl 1) (N.eqb ov 1))
          end
      | _ => None
      end
  | _ => None
  end.
Definition cfg_complete (c : pkg_cfg) : bool := pc_csp c && pc_ref c && pc_server c.

(** csp.package — input: (L adds (B path) (L (L (B name) (B value)) ...) (B server) [cfg]) *)
Definition run_csp_package (add : ruleset csp_rule -> bytes -> csp_rule -> ruleset csp_rule)
    (csp : ruleset csp_rule -> bytes -> headers -> headers) (x : xval) : xval :=
  match x with
  | XL (adds :: XB path :: hs :: XB server :: rest) =>
      match d_list d_csp_add adds, d_list d_header hs, d_cfg (hd_error rest), rest with
      | Some hist, Some h, Some (_, cfg), ([] | [_]) =>
          let rules := rs_build add hist in
          let l := package_list_cfg cfg csp rules server path in
          x_outcome (fun v => v)
            (Ok (XL [ XL (map (fun e => x_Z (fst e)) l); x_headers XB (resolve_package l h) ]))
      | _, _, _, _ => bad_input
      end
  | _ => bad_input
  end.

Definition only_security_headers (h : headers) : headers :=
  filter (fun e => beq (fst e) H_CSP || beq (fst e) H_NONCE || beq (fst e) H_REFERRER || beq (fst e) H_SERVER) h.

Definition x_reply (p : page) : xval :=
  XL [ XN (pg_status p);
       XL (map (fun e => x_tb (snd e)) (filter (fun e => beq (fst e) H_NONCE) (pg_headers p)));
       x_tb (pg_body p); XN 1 ].
Definition pref_of (pref : N) : server_pref :=
  match pref with 0 => SNone | 1 => SFull | 2 => SQueryMatters | _ => SMaxAge end.
Definition handler_page (body : bytes) (pref : N) : page :=
  {| pg_status := 200; pg_body := body; pg_headers := []; pg_pref := pref_of pref; pg_marker := false |}.

(** nonce.page — input: (L (B body) (N ext_line) (N pref) adds (B server)):
    two requests for the page, then the Package chain on the head of the first reply. *)
Definition run_nonce_page (guard : bool) (rewrite : bytes -> bytes -> outcome bytes)
    (add : ruleset csp_rule -> bytes -> csp_rule -> ruleset csp_rule)
    (chain : ruleset csp_rule -> bytes -> bytes -> headers -> headers) (x : xval) : xval :=
  match x with
  | XL [XB body; XN line; XN pref; adds; XB server] =>
      match d_list d_csp_add adds with
      | Some hist =>
          let rules := rs_build add hist in
          x_outcome (fun v => v)
            (obind (page_history guard rewrite sym_nonce (if N.eqb line 1 then [DNonce] else []) (handler_page body pref) 2 pstate0)
               (fun r =>
                  match snd r with
                  | [r1; r2] =>
                      Ok (XL [ x_reply r1; x_reply r2; x_nat (st_calls (fst r));
                               x_bool (N.eqb line 1);
                               x_headers x_tb (only_security_headers (chain rules server (B "/p") (pg_headers r1))) ])
                  | _ => Err E_FUEL
                  end))
      | None => bad_input
      end
  | _ => bad_input
  end.

(** nonce.line — input: (L (B body) directives (N pref) (N requests) cfg (B server)):
    [requests] requests for a page whose first line is [!> directives]; host = [Extensions::new()] as it
    is (cfg base 0; [server] = its own server value) + kvarn_extensions.
    output: Ok (L (L reply ...) (N handler_calls) security-headers-of-reply-1-after-the-chain),
    reply = (L status (L csp-nonce values) body-of-a-200) *)
Definition x_line_reply (p : page) : xval :=
  XL [ XN (pg_status p);
       XL (map (fun e => x_tb (snd e)) (filter (fun e => beq (fst e) H_NONCE) (pg_headers p)));
       x_tb (if pg_status p =? 200 then pg_body p else []) ].
Definition run_nonce_line (guard : bool) (x : xval) : xval :=
  match x with
  | XL [XB body; ds; XN pref; XN nreq; cfg; XB server] =>
      match d_list d_directive ds, d_cfg (Some cfg) with
      | Some line, Some (_, cfg) =>
          let rules := rs_build rs_add csp_default_hist in
          x_outcome (fun v => v)
            (obind (page_history guard nonce_rewrite sym_nonce line (handler_page body pref) (N.to_nat nreq) pstate0)
               (fun r =>
                  match snd r with
                  | r1 :: _ =>
                      Ok (XL [ XL (map x_line_reply (snd r)); x_nat (st_calls (fst r));
                               x_headers x_tb (only_security_headers (package_chain_cfg cfg rules server (B "/p") (pg_headers r1))) ])
                  | [] => Err E_FUEL
                  end))
      | _, _ => bad_input
      end
  | _ => bad_input
  end.

(** specification outputs: the values of the four headers
    (L (L policy ...) (L referrer-policy values) (L server values) (L csp-nonce values)),
    policy = (L (L name (L source ...)) ...) — the content-security-policy as a parsed policy *)
Definition x_policy (enc : bytes -> xval) (pol : list (bytes * list bytes)) : xval :=
  XL (map (fun d => XL [XB (fst d); XL (map enc (snd d))]) pol).
Definition x_security_parsed (enc : bytes -> xval) (pols : list (list (bytes * list bytes))) (refs servers : list bytes) : xval :=
  XL [ XL (map (x_policy enc) pols); XL (map enc refs); XL (map enc servers); XL [] ].

(** nonce.spec — the specification on the input of nonce.page (oracle run):
    (L body headers): the demanded body of the first reply as a template ((L) when the page has
    no [!> nonce] line) and the demanded security headers after the Package chain *)
Definition run_nonce_spec (x : xval) : xval :=
  match x with
  | XL [XB body; XN line; _; adds; XB server] =>
      match d_list d_csp_add adds with
      | Some hist =>
          let h := if N.eqb line 1 then [(H_NONCE, sym_nonce 1)] else [] in
          XL [ if N.eqb line 1 then XL [x_tb (nonce_spec (sym_nonce 1) body)] else XL [];
               x_security_parsed x_tb (spec_csp_parsed hist (B "/p") h) (spec_referrer h) [server] ]
      | None => bad_input
      end
  | _ => bad_input
  end.

(** csp.package_spec — the demanded values of the four headers, on the input of csp.package
    (configurations with all three Package extensions) *)
Definition run_csp_package_spec (x : xval) : xval :=
  match x with
  | XL (adds :: XB path :: hs :: XB server :: rest) =>
      match d_list d_csp_add adds, d_list d_header hs, d_cfg (hd_error rest) with
      | Some hist, Some h, Some (_, cfg) =>
          if cfg_complete cfg then
            x_security_parsed XB (spec_csp_parsed hist path h) (spec_referrer h)
                              (spec_server (pc_platform cfg) (pc_override cfg) server h)
          else XL [XN 95]
      | _, _, _ => bad_input
      end
  | _ => bad_input
  end.

(** c14.conn — input: (L adds (B server) handlers requests [cfg])
    handler = (L (B path) (N status) headers (N cache) line (B body) [(N fs)]); request = (L (N method) (B path) (N range) (N ims) [(N enc)])
    output: Ok (L (L (N status) security-headers body) ...), values as templates *)
Definition d_chandler (x : xval) : option chandler :=
  match x with
  | XL (XB p :: XN st :: hs :: XN c :: ln :: XB b :: rest) =>
      match d_list d_header hs, d_line ln, rest with
      | Some h, Some line, [] => Some (mkCH p st h (N.eqb c 1) line b false)
      | Some h, Some line, [XN f] => Some (mkCH p st h (N.eqb c 1) line b (N.eqb f 1))
      | _, _, _ => None
      end
  | _ => None
  end.
Definition d_creq (x : xval) : option creq :=
  match x with
  | XL [XN m; XB p; XN r; XN i] => Some (mkCR m p r (N.eqb i 1) 0)
  | XL [XN m; XB p; XN r; XN i; XN e] => Some (mkCR m p r (N.eqb i 1) e)
  | _ => None
  end.
Definition x_conn_out (enc : headers -> xval) (out : list creply) : xval :=
  XL (map (fun r => XL [XN (rp_status r); enc (rp_headers r); x_tb (rp_body r)]) out).
Definition run_conn (guard : bool) (rewrite : bytes -> bytes -> outcome bytes)
    (chain : pkg_cfg -> list (bytes * csp_rule) -> bytes -> bytes -> headers -> headers) (x : xval) : xval :=
  match x with
  | XL (adds :: XB server :: hs :: rs :: rest) =>
      match d_list d_csp_add adds, d_list d_chandler hs, d_list d_creq rs, d_cfg (hd_error rest), rest with
      | Some hist, Some hs, Some rs, Some (_, cfg), ([] | [_]) =>
          x_outcome (x_conn_out (x_headers x_tb))
            (conn_run guard rewrite (chain cfg hist server) hs (mkCS [] O) rs)
      | _, _, _, _, _ => bad_input
      end
  | _ => bad_input
  end.
Definition chain_model (cfg : pkg_cfg) (hist : list (bytes * csp_rule)) (server path : bytes) (h : headers) : headers :=
  only_security_headers (package_chain_cfg cfg (rs_build rs_add hist) server path h).
Definition chain_model_v0 (_ : pkg_cfg) (hist : list (bytes * csp_rule)) (server path : bytes) (h : headers) : headers :=
  only_security_headers (package_chain_v0 (rs_build rs_add_v0 hist) server path h).

(** c14.conn_spec — the specification on the input of c14.conn: per request the status and body of the
    send-path model with the splice specification as rewriter, and the demanded security headers as
    parsed policies / values: (L (N status) (L policies referrers servers (L)) body) *)
Definition run_conn_spec (x : xval) : xval :=
  match x with
  | XL (adds :: XB server :: hs :: rs :: rest) =>
      match d_list d_csp_add adds, d_list d_chandler hs, d_list d_creq rs, d_cfg (hd_error rest), rest with
      | Some hist, Some hs, Some rs, Some (_, cfg), ([] | [_]) =>
          (* the chain argument only tags the head with the path; the headers are specified below *)
          x_outcome (fun out => XL (map (fun r =>
                       match rp_headers r with
                       | (p, _) :: h =>
                           XL [XN (rp_status r);
                               x_security_parsed x_tb (spec_csp_parsed hist p h) (spec_referrer h)
                                                 (spec_server (pc_platform cfg) (pc_override cfg) server h);
                               x_tb (rp_body r)]
                       | [] => XL [XN 95]
                       end) out))
            (conn_run true (fun n b => Ok (nonce_spec n b)) (fun p h => (p, []) :: h) hs (mkCS [] O) rs)
      | _, _, _, _, _ => bad_input
      end
  | _ => bad_input
  end.

Definition nonce_table : list (bytes * (xval -> xval)) :=
  [ (B "nonce.page", run_nonce_page true nonce_rewrite rs_add package_chain);
    (B "nonce.spec", run_nonce_spec);
    (B "nonce.line", run_nonce_line true);
    (B "csp.package", run_csp_package rs_add pkg_csp);
    (B "csp.package_spec", run_csp_package_spec);
    (B "c14.conn", run_conn true nonce_rewrite chain_model);
    (B "c14.conn_spec", run_conn_spec);
    (* the code as it was before the fix commits; model only (refutation witnesses, history) *)
    (B "c14.conn_v0", run_conn false nonce_rewrite_v0 chain_model_v0);
    (B "nonce.line_v0", run_nonce_line false);
    (B "nonce.page_v0", run_nonce_page false nonce_rewrite_v0 rs_add_v0 package_chain_v0);
    (B "csp.package_v0", run_csp_package rs_add_v0 pkg_csp_v0);
    (B "csp.package_raw", run_csp_package rs_add pkg_csp_raw) ].
