(** C01 — model of the path handling of a request:
    [kvarn_utils::percent_decode] (utils/src/lib.rs), [parse::sanitize_request] (path part),
    [parse::uri], [make_path] (utils/src/parse.rs, utils/src/lib.rs), the file path [get_response]
    builds (src/lib.rs), the "Expand . and /" Prime extension (src/extensions.rs), [http::Uri]'s
    parser, and a lexical / tree model of how the operating system resolves the resulting path
    when there are no symbolic links.  The request pipeline ([handle_cache] / [get_response] /
    [handle_request] / [error::default] / the file cache) is Model/PathSanServe.v.
    Definitions only; proofs live in Proofs/PathSanProofs.v. *)
From KV Require Export Bytes.
Open Scope N_scope.

Definition c_pct : N := 37.     (* % *)
Definition c_slash : N := 47.   (* / *)
Definition c_dot : N := 46.     (* . *)

(** ---------------------------------------------------------------------------
    percent_encoding::percent_decode (2.3.2): only '%' followed by two hex digits
    (either case, via [char::to_digit(16)]) decodes; anything else is literal. *)
Definition hex_val (c : N) : option N :=
  if (48 <=? c) && (c <=? 57) then Some (c - 48)
  else if (65 <=? c) && (c <=? 70) then Some (c - 55)
  else if (97 <=? c) && (c <=? 102) then Some (c - 87)
  else None.

Fixpoint percent_decode (s : bytes) : bytes :=
  match s with
  | [] => []
  | c :: r =>
      if c =? c_pct then
        match r with
        | h :: l :: r' =>
            match hex_val h, hex_val l with
            | Some a, Some b => (a * 16 + b) :: percent_decode r'
            | _, _ => c :: percent_decode r
            end
        | _ => c :: percent_decode r
        end
      else c :: percent_decode r
  end.

(** ---------------------------------------------------------------------------
    [core::str::from_utf8]: well-formed UTF-8 byte sequences (Unicode table 3-7):
    no surrogates, no overlong forms, at most U+10FFFF. *)
Definition cont (c : N) : bool := (128 <=? c) && (c <=? 191).
Definition lead2 (c : N) : bool := (194 <=? c) && (c <=? 223).
Definition lead3 (c : N) : bool := (224 <=? c) && (c <=? 239).
Definition lead4 (c : N) : bool := (240 <=? c) && (c <=? 244).
Definition second3 (c c1 : N) : bool :=
  if c =? 224 then (160 <=? c1) && (c1 <=? 191)
  else if c =? 237 then (128 <=? c1) && (c1 <=? 159)
  else cont c1.
Definition second4 (c c1 : N) : bool :=
  if c =? 240 then (144 <=? c1) && (c1 <=? 191)
  else if c =? 244 then (128 <=? c1) && (c1 <=? 143)
  else cont c1.

Fixpoint utf8_valid (s : bytes) : bool :=
  match s with
  | [] => true
  | c :: r =>
      if c <? 128 then utf8_valid r
      else if lead2 c then
        match r with
        | c1 :: r1 => cont c1 && utf8_valid r1
        | _ => false
        end
      else if lead3 c then
        match r with
        | c1 :: c2 :: r2 => second3 c c1 && cont c2 && utf8_valid r2
        | _ => false
        end
      else if lead4 c then
        match r with
        | c1 :: c2 :: c3 :: r3 => second4 c c1 && cont c2 && cont c3 && utf8_valid r3
        | _ => false
        end
      else false
  end.

(** [String::from_utf8_lossy] ([core::str::lossy::Utf8Chunks]): every maximal ill-formed
    part (a lead byte with the continuation bytes that were still acceptable, or a single
    byte that cannot start a sequence) becomes one U+FFFD = EF BF BD. *)
Definition fffd : bytes := [239; 191; 189].

Fixpoint utf8_lossy (s : bytes) : bytes :=
  match s with
  | [] => []
  | c :: r =>
      if c <? 128 then c :: utf8_lossy r
      else if lead2 c then
        match r with
        | c1 :: r1 => if cont c1 then c :: c1 :: utf8_lossy r1 else fffd ++ utf8_lossy r
        | [] => fffd
        end
      else if lead3 c then
        match r with
        | c1 :: r1 =>
            if second3 c c1 then
              match r1 with
              | c2 :: r2 => if cont c2 then c :: c1 :: c2 :: utf8_lossy r2 else fffd ++ utf8_lossy r1
              | [] => fffd
              end
            else fffd ++ utf8_lossy r
        | [] => fffd
        end
      else if lead4 c then
        match r with
        | c1 :: r1 =>
            if second4 c c1 then
              match r1 with
              | c2 :: r2 =>
                  if cont c2 then
                    match r2 with
                    | c3 :: r3 => if cont c3 then c :: c1 :: c2 :: c3 :: utf8_lossy r3 else fffd ++ utf8_lossy r2
                    | [] => fffd
                    end
                  else fffd ++ utf8_lossy r1
              | [] => fffd
              end
            else fffd ++ utf8_lossy r
        | [] => fffd
        end
      else fffd ++ utf8_lossy r
  end.

(** ---------------------------------------------------------------------------
    The decodings kvarn performs on the URI path [p] (= [request.uri().path()]). *)

(** [kvarn_utils::percent_decode]: [percent_decode_str(s).decode_utf8().unwrap_or(s)] —
    falls back to the UNDECODED text when the decoded bytes are not UTF-8. *)
Definition util_percent_decode (p : bytes) : bytes :=
  let d := percent_decode p in if utf8_valid d then d else p.

(** The string that [sanitize_request] tests:
    [percent_decode_str(request.uri().path()).decode_utf8_lossy()]
    (before the repair of this property it was [util_percent_decode p], see
    [old_check_accepts_hidden_dot_slash] in Proofs/PathSanProofs.v). *)
Definition decoded_for_check (p : bytes) : bytes := utf8_lossy (percent_decode p).

(** The string [get_response] builds the file path from:
    [percent_decode_str(path).decode_utf8()], [Err] => no path at all. *)
Definition decoded_for_use (p : bytes) : option bytes :=
  let d := percent_decode p in if utf8_valid d then Some d else None.

(** [parse::uri]: strips the leading '/', [None] if there is none. *)
Definition parse_uri (path : bytes) : option bytes :=
  match path with
  | c :: r => if c =? c_slash then Some r else None
  | [] => None
  end.

(** [Path::new(s).is_relative()] on Unix: does not start with '/'. *)
Definition path_is_relative (s : bytes) : bool := negb (starts_with [c_slash] s).

Definition dot_slash : bytes := [c_dot; c_slash].
Definition E_UNSAFE : N := 400.

(** Path part of [sanitize_request] (same order of tests as the code). *)
Definition path_ok_of (d : bytes) : bool :=
  if contains_sub dot_slash d || negb (starts_with [c_slash] d) then false
  else match parse_uri d with
       | Some s => path_is_relative s
       | None => false
       end.

Definition sanitize_path (p : bytes) : outcome unit :=
  if path_ok_of (decoded_for_check p) then Ok tt else Err E_UNSAFE.

(** [make_path]: [<base_path>/<dir>/<file>(.<extension>)]; with an extension, the text from
    the last '.' of the last segment on is removed first ([rfind] with the [folder] flag). *)
Fixpoint rscan (r : bytes) (k : nat) : option nat :=   (* r: reversed text, k: bytes passed *)
  match r with
  | [] => None
  | c :: r' => if c =? c_slash then None else if c =? c_dot then Some k else rscan r' (S k)
  end.
Definition rfind_ext_dot (s : bytes) : option nat :=
  option_map (fun k => (length s - 1 - k)%nat) (rscan (rev s) 0).

Definition make_path (base dir file : bytes) (ext : option bytes) : bytes :=
  let path := base ++ [c_slash] ++ dir ++ [c_slash] ++ file in
  match ext with
  | None => path
  | Some e =>
      let path := match rfind_ext_dot path with Some pos => firstn pos path | None => path end in
      path ++ [c_dot] ++ e
  end.

(** The file path of a request in [get_response] (sanitize result [Ok], fs enabled):
    [Ok None] = "Invalid percent encoding in path", no path;
    [Panic] = the [utils::parse::uri(&decoded).unwrap()]. *)
Definition request_fs_path (host public p : bytes) : outcome (option bytes) :=
  match decoded_for_use p with
  | None => Ok None
  | Some d =>
      match parse_uri d with
      | Some t => Ok (Some (make_path host public t None))
      | None => Panic
      end
  end.

(** ---------------------------------------------------------------------------
    How a path string is resolved (no symbolic links). *)
Fixpoint split_on (sep : N) (s : bytes) : list bytes :=
  match s with
  | [] => [[]]
  | c :: r =>
      if c =? sep then [] :: split_on sep r
      else match split_on sep r with
           | h :: t => (c :: h) :: t
           | [] => [[c]]
           end
  end.
Definition segments (s : bytes) : list bytes := split_on c_slash s.

Definition is_empty (s : bytes) : bool := match s with [] => true | _ => false end.
Definition is_dot (s : bytes) : bool := beq s [c_dot].
Definition is_dotdot (s : bytes) : bool := beq s [c_dot; c_dot].
(** a segment that names a directory entry *)
Definition proper_name (s : bytes) : bool := negb (is_empty s || is_dot s || is_dotdot s).

(** Lexical walk relative to a root: the stack holds the names below the root, innermost
    first; [None] = the walk would go above the root. *)
Fixpoint walk (st : list bytes) (segs : list bytes) : option (list bytes) :=
  match segs with
  | [] => Some st
  | s :: r =>
      if is_empty s || is_dot s then walk st r
      else if is_dotdot s then
        match st with
        | [] => None
        | _ :: st' => walk st' r
        end
      else walk (s :: st) r
  end.

(** A file tree and POSIX resolution over it (zipper: node + its ancestor directories,
    nearest first).  Every component is looked up in a directory (ENOTDIR otherwise), an empty
    component (doubled or trailing '/') and "." stay, ".." moves to the parent (the root is its
    own parent), a name moves to that child (ENOENT if absent). *)
Inductive node : Type :=
| File (content : bytes)
| Dir (children : list (bytes * node)).

Fixpoint assoc (k : bytes) (l : list (bytes * node)) : option node :=
  match l with
  | [] => None
  | (k', v) :: r => if beq k' k then Some v else assoc k r
  end.
Definition child (n : node) (name : bytes) : option node :=
  match n with
  | Dir ch => assoc name ch
  | File _ => None
  end.
Definition is_dir (n : node) : bool := match n with Dir _ => true | File _ => false end.

Definition pos : Type := (node * list node)%type.

Definition step (p : pos) (seg : bytes) : option pos :=
  let (n, ups) := p in
  if negb (is_dir n) then None
  else if is_empty seg || is_dot seg then Some p
  else if is_dotdot seg then
    match ups with
    | [] => Some p
    | u :: ups' => Some (u, ups')
    end
  else match child n seg with
       | Some c => Some (c, n :: ups)
       | None => None
       end.

Fixpoint resolve (p : pos) (segs : list bytes) : option pos :=
  match segs with
  | [] => Some p
  | s :: r => match step p s with Some p' => resolve p' r | None => None end
  end.

(** an absolute path starts at the root, any other at the working directory *)
Definition resolve_path (root cwd : pos) (path : bytes) : option pos :=
  resolve (if starts_with [c_slash] path then root else cwd) (segments path).

(** what [read_file] can return: the content of a regular file (reading a directory fails) *)
Definition content_at (p : option pos) : option bytes :=
  match p with
  | Some (File c, _) => Some c
  | _ => None
  end.
Definition read_path (root cwd : pos) (path : bytes) : option bytes :=
  content_at (resolve_path root cwd path).

(** descent through children only *)
Fixpoint descend (n : node) (names : list bytes) : option node :=
  match names with
  | [] => Some n
  | s :: r => match child n s with Some c => descend c r | None => None end
  end.

(** ---------------------------------------------------------------------------
    The "Expand . and /" Prime extension; the request pipeline itself ([serve]) is in Model/PathSanServe.v. *)
Definition ends_with_byte (c : N) (s : bytes) : bool :=
  match s with [] => false | _ => last s 0 =? c end.
Definition uri_redirect (ext_default folder_default p : bytes) : option bytes :=
  if ends_with_byte c_dot p then Some (p ++ ext_default)
  else if ends_with_byte c_slash p then Some (p ++ folder_default)
  else None.

(** ---------------------------------------------------------------------------
    Specification (independent of the code's structure). *)
Definition has_dot_slash (d : bytes) : Prop := exists a b, d = a ++ dot_slash ++ b.
Definition rooted (d : bytes) : Prop := exists r, d = c_slash :: r.
Definition absolute_after_strip (d : bytes) : Prop := exists r, d = c_slash :: c_slash :: r.
Definition unsafe (d : bytes) : Prop := has_dot_slash d \/ ~ rooted d \/ absolute_after_strip d.

(** executable form of [unsafe], written without the library functions the model uses *)
Fixpoint has_dot_slash_b (d : bytes) : bool :=
  match d with
  | a :: ((b :: _) as r) => ((a =? c_dot) && (b =? c_slash)) || has_dot_slash_b r
  | _ => false
  end.
Definition unsafe_b (d : bytes) : bool :=
  has_dot_slash_b d ||
  match d with
  | [] => true
  | a :: r => negb (a =? c_slash) || match r with b :: _ => b =? c_slash | [] => false end
  end.

(** the lexical walk stays at or below the root at every prefix *)
Definition confined (segs : list bytes) : Prop := forall k, walk [] (firstn k segs) <> None.

(** ---------------------------------------------------------------------------
    [http::Uri] (1.5.0), [Uri::from_shared] / [Uri::try_from(&[u8])]: which byte strings are accepted
    and what [Uri::path()] and [Uri::query()] return — for every form of request target (origin
    form, "*", authority form, absolute form with any scheme). *)
Definition path_byte_valid (c : N) : bool :=
  (c =? 33) || ((36 <=? c) && (c <=? 59)) || (c =? 61) || ((64 <=? c) && (c <=? 95)) ||
  ((97 <=? c) && (c <=? 122)) || (c =? 124) || (c =? 126) || (c =? 34) || (c =? 123) || (c =? 125) ||
  ((128 <=? c) && (c <=? 255)).
Definition query_byte_valid (c : N) : bool :=
  (c =? 33) || ((36 <=? c) && (c <=? 59)) || (c =? 61) || ((63 <=? c) && (c <=? 126)) ||
  ((128 <=? c) && (c <=? 255)).

Fixpoint take_until_hash (s : bytes) : bytes :=
  match s with
  | [] => []
  | c :: r => if c =? 35 then [] else c :: take_until_hash r
  end.
Fixpoint take_path (s : bytes) : bytes * option bytes :=   (* path, text after '?' *)
  match s with
  | [] => ([], None)
  | c :: r => if c =? 63 then ([], Some r)
              else let (p, q) := take_path r in (c :: p, q)
  end.

(** [PathAndQuery::from_shared] with [path()] (an empty path reads "/") and [query()]: the text must
    be "*" or start with '/', '?' or '#'; the fragment is cut off; UTF-8 is checked on what is left *)
Definition pq_parse (s : bytes) : option (bytes * option bytes) :=
  match s with
  | [] => None
  | [42] => Some ([42], None)
  | c :: _ =>
      if (c =? 47) || (c =? 63) || (c =? 35) then
        let t := take_until_hash s in
        let (p, q) := take_path t in
        if forallb path_byte_valid p && match q with Some q => forallb query_byte_valid q | None => true end
           && utf8_valid t
        then Some (match p with [] => [c_slash] | _ => p end, q) else None
      else None
  end.

(** [URI_CHARS] (non-zero entries) and [SCHEME_CHARS] (non-zero entries other than ':') *)
Definition uri_char (c : N) : bool :=
  (c =? 33) || (c =? 35) || (c =? 36) || ((38 <=? c) && (c <=? 59)) || (c =? 61) || ((63 <=? c) && (c <=? 91)) ||
  (c =? 93) || (c =? 95) || ((97 <=? c) && (c <=? 122)) || (c =? 126).
Definition scheme_char (c : N) : bool :=
  (c =? 43) || (c =? 45) || (c =? 46) || ((48 <=? c) && (c <=? 57)) || ((65 <=? c) && (c <=? 90)) ||
  ((97 <=? c) && (c <=? 122)) || (c =? 126).

(** [Scheme2::parse] after the two standard schemes: [None] = SchemeTooLong, [Some None] = no scheme,
    [Some (Some rest)] = the text after "<scheme>://" *)
Fixpoint scheme_scan (s : bytes) (i : nat) : option (option bytes) :=
  match s with
  | [] => Some None
  | c :: r =>
      if c =? 58 then
        match r with
        | 47 :: 47 :: rest => if (64 <? i)%nat then None else Some (Some rest)
        | _ => Some None
        end
      else if scheme_char c then scheme_scan r (S i) else Some None
  end.
Definition scheme_parse (s : bytes) : option (option bytes) :=
  if beq (lower (firstn 7 s)) (B "http://") then Some (Some (skipn 7 s))
  else if beq (lower (firstn 8 s)) (B "https://") then Some (Some (skipn 8 s))
  else if (3 <? length s)%nat then scheme_scan s 0 else Some None.

(** [validate_authority_bytes]: the index where the authority ends (first '/', '?' or '#') *)
Record auth_st := { a_colon : nat; a_sb : bool; a_eb : bool; a_pct : bool; a_at : option nat }.
Fixpoint auth_scan (s : bytes) (i : nat) (st : auth_st) : option (nat * auth_st) :=
  match s with
  | [] => Some (i, st)
  | c :: r =>
      if (c =? 47) || (c =? 63) || (c =? 35) then Some (i, st)
      else if negb (uri_char c) then
        if c =? 37 then
          auth_scan r (S i) {| a_colon := a_colon st; a_sb := a_sb st; a_eb := a_eb st; a_pct := true; a_at := a_at st |}
        else None
      else if c =? 58 then
        if (8 <=? a_colon st)%nat then None
        else auth_scan r (S i) {| a_colon := S (a_colon st); a_sb := a_sb st; a_eb := a_eb st; a_pct := a_pct st; a_at := a_at st |}
      else if c =? 91 then
        if a_pct st || a_sb st then None
        else auth_scan r (S i) {| a_colon := a_colon st; a_sb := true; a_eb := a_eb st; a_pct := a_pct st; a_at := a_at st |}
      else if c =? 93 then
        if negb (a_sb st) || a_eb st then None
        else auth_scan r (S i) {| a_colon := O; a_sb := a_sb st; a_eb := true; a_pct := false; a_at := a_at st |}
      else if c =? 64 then
        auth_scan r (S i) {| a_colon := O; a_sb := a_sb st; a_eb := a_eb st; a_pct := false; a_at := Some i |}
      else auth_scan r (S i) st
  end.
Definition authority_end (s : bytes) : option nat :=
  match s with
  | [] => None
  | _ =>
      match auth_scan s 0 {| a_colon := O; a_sb := false; a_eb := false; a_pct := false; a_at := None |} with
      | None => None
      | Some (e, st) =>
          if xorb (a_sb st) (a_eb st) then None
          else if (1 <? a_colon st)%nat then None
          else if (0 <? e)%nat && match a_at st with Some k => (k =? e - 1)%nat | None => false end then None
          else if a_pct st then None
          else Some e
      end
  end.

(** [parse_full]: [path()] is "" for the authority form (no scheme, no path) *)
Definition parse_full (s : bytes) : option (bytes * option bytes) :=
  match scheme_parse s with
  | None => None
  | Some None =>
      match authority_end s with
      | Some e => if (e =? length s)%nat then Some ([], None) else None
      | None => None
      end
  | Some (Some rest) =>
      match authority_end rest with
      | Some e =>
          if (e =? 0)%nat then None
          else match skipn e rest with
               | [] => Some ([c_slash], None)
               | pq => pq_parse pq
               end
      | None => None
      end
  end.

(** ([Uri::path()], [Uri::query()]) of [Uri::try_from(t)] *)
Definition uri_parse (t : bytes) : option (bytes * option bytes) :=
  if 65534 <? N.of_nat (length t) then None else
  match t with
  | [] => None
  | [c] =>
      if c =? c_slash then Some ([c_slash], None)
      else if c =? 42 then Some ([42], None)
      else match authority_end [c] with
           | Some e => if (e =? 1)%nat then Some ([], None) else None
           | None => None
           end
  | c :: _ => if c =? c_slash then pq_parse t else parse_full t
  end.
Definition uri_path (t : bytes) : option bytes := option_map fst (uri_parse t).

(** the URI kvarn's HTTP/1 reader ([kvarn_async::read::request]: scheme "://" Host-header target) and
    the in-process harness build for a request target: what the client writes into the Host header is part of
    the text that is parsed, so a Host header "localhost/.." puts "/.." in front of the target's path *)
Definition uri_of (host_header t : bytes) : option (bytes * option bytes) := uri_parse (B "http://" ++ host_header ++ t).
Definition target_uri (t : bytes) : option (bytes * option bytes) := uri_of (B "localhost") t.

(** ---------------------------------------------------------------------------
    xval interface *)
Definition x_unit_outcome (o : outcome unit) : xval :=
  match o with Ok _ => XN 0 | Err e => XN e | Panic => XL [XN 2] end.

Definition bench_host : bytes := B "h".
Definition bench_public : bytes := B "public".

Definition direct_of_path (p : bytes) : xval :=
  XL [XB p; XB (util_percent_decode p); x_unit_outcome (sanitize_path p);
      x_option XB (decoded_for_use p);
      match sanitize_path p with
      | Ok _ => x_outcome (x_option XB) (request_fs_path bench_host bench_public p)
      | _ => XL []
      end].

(** input: (B target).  Output: [path; kvarn_utils::percent_decode(path); sanitize; decode_utf8;
    fs path as get_response builds it (only when sanitize is Ok)] *)
Definition run_direct (x : xval) : xval :=
  match x with
  | XB t => match uri_path t with Some p => direct_of_path p | None => XL [XN 96] end
  | _ => bad_input
  end.

(** one byte per target: 255 = refused by http::Uri, else bit0 = sanitize Ok, bit1 = decode_utf8 Ok *)
Definition code_of_target (t : bytes) : N :=
  match uri_path t with
  | None => 255
  | Some p =>
      (match sanitize_path p with Ok _ => 1 | _ => 0 end) +
      (match decoded_for_use p with Some _ => 2 | None => 0 end)
  end.
Definition spec_code_of_target (t : bytes) : N :=
  match uri_path t with
  | None => 255
  | Some p =>
      (if unsafe_b (percent_decode p) then 0 else 1) +
      (if utf8_valid (percent_decode p) then 2 else 0)
  end.

(** all concatenations of [n] tokens appended to [prefix], in the order of [toks] *)
Fixpoint enum_targets (toks : list bytes) (n : nat) (prefix : bytes) : list bytes :=
  match n with
  | O => [prefix]
  | S n' => flat_map (fun t => enum_targets toks n' (prefix ++ t)) toks
  end.

Definition run_batch_with (f : bytes -> N) (x : xval) : xval :=
  match x with
  | XL [toks; XB prefix; XN n] =>
      match d_list d_B toks with
      | Some toks => if 6 <? n then bad_input else XB (map f (enum_targets toks (N.to_nat n) prefix))
      | None => bad_input
      end
  | _ => bad_input
  end.
Definition run_batch := run_batch_with code_of_target.
Definition run_batch_spec := run_batch_with spec_code_of_target.

(** spec component for [pathsan.direct]: (sanitize must be Ok?, decode_utf8 must succeed?) *)
Definition run_direct_spec (x : xval) : xval :=
  match x with
  | XB t =>
      match uri_path t with
      | Some p => XL [x_bool (negb (unsafe_b (percent_decode p))); x_bool (utf8_valid (percent_decode p))]
      | None => XL [XN 96]
      end
  | _ => bad_input
  end.

(** input: (L base dir file (L [ext])) *)
Definition run_make_path (x : xval) : xval :=
  match x with
  | XL [XB base; XB dir; XB file; e] =>
      match d_option d_B e with
      | Some ext => XB (make_path base dir file ext)
      | None => bad_input
      end
  | _ => bad_input
  end.

(** input: (B s), any UTF-8 text: kvarn_utils::percent_decode and String::from_utf8_lossy of the
    raw percent-decoding *)
Definition run_decode (x : xval) : xval :=
  match x with
  | XB s => if utf8_valid s then XL [XB (util_percent_decode s); XB (utf8_lossy (percent_decode s))] else XL [XN 96]
  | _ => bad_input
  end.

(** input: (B bytes): core::str::from_utf8 validity and String::from_utf8_lossy *)
Definition run_utf8 (x : xval) : xval :=
  match x with
  | XB s => XL [x_bool (utf8_valid s); XB (utf8_lossy s)]
  | _ => bad_input
  end.

Definition pathsan_table : list (bytes * (xval -> xval)) :=
  [ (B "pathsan.direct", run_direct);
    (B "pathsan.direct_spec", run_direct_spec);
    (B "pathsan.batch", run_batch);
    (B "pathsan.batch_spec", run_batch_spec);
    (B "pathsan.make_path", run_make_path);
    (B "pathsan.decode", run_decode);
    (B "pathsan.utf8", run_utf8) ].
