(** C11 — handover: an executable labelled transition system of a chain of kvarn instances that
    are started one after the other on the same ports and the same control-socket path
    (src/lib.rs [RunConfig::execute], [accept], the request loop of [handle_connection]; src/ctl.rs [listen]
    and the [shutdown] plugin; signal/src/lib.rs [send_to] / [start_at]; src/shutdown.rs
    [Manager::shutdown], [Manager::wait]).
    Definitions only; proofs are in Proofs/HandoverProofs.v.

    Every instance carries one copy of C10's machine (Model/Shutdown.v, variant [repaired] = the
    code after C10's three fixes) for its shutdown manager, accept loops and connection tasks:
    [np] listeners (sockets; with both address families two per port), ONE shutdown caller (the control
    socket's [shutdown] plugin; it may run only after the message "shutdown no-wait" has been received), no
    pre-shutdown hook ("no-wait"), one task in [wait()] from the start (the process exits when it
    resolves) and any number of further calls of [wait()] made at any time ([HWaitNew]).

    The start-up program of an instance ([execute]):
      for each socket j:  take the accept loop's count; create the socket and bind it   [PSpawn j  -> PListen j]
                          put it into listening state; spawn accept task j              [PListen j -> PSpawn (S j)]
      ctl::listen:        connect to the socket at the path and write "shutdown no-wait"
                          (NotFound: go on) ; wait for the reply ;                      [PSpawn np -> PWait k -> PRm]
                          start_at: remove the file at the path ;                       [PRm -> PBindCtl]
                                    bind the path ; spawn the control-socket task ; return  [PBindCtl -> PRunning]
    [fixD = false] (kvarn 0.6.3 as found): the listener of socket j is created, bound and put into
    listening state by the SPAWNED accept task (label [HBind]), concurrently with the rest of the
    start-up program.  [fixD = true] (after the fix): by [execute] itself, before the task is
    spawned, hence before the predecessor is contacted.
    [fixE = false] (as found): [start_at] removes the file and returns; the path is bound by the spawned
    control-socket task ([HCtl], [TSpawned -> TBound]) — [execute] has returned while nobody listens at
    the path.  [fixE = true] (after the fix): [start_at] binds the path before it returns.

    The predecessor: control-socket task accepts the message and enters the plugin ([HRecv]); the
    plugin calls [Manager::shutdown] (C10's caller program; its second access also removes whatever
    file is at the path); then the reply is written ([HReply]).  The control-socket listener is closed
    once the initiate-shutdown channel has fired.

    A connection task runs the request loop of [handle_connection]: read a request ([HReq], the client's
    doing), answer it, then ask [continue_accepting()] — the manager's shutdown flag, read anew every time
    ([HResp]): flag set -> leave the loop, else wait for the next request.  The loop also ends when the
    client closes, when no request head arrives within 5 s, or on an I/O error ([HKaEnd]).  Only then
    does the task end (C10's step from [CRunning], which releases the connection's count).

    The operator ([HStart]) starts a new instance only when the newest one's [execute] has returned.

    What is NOT in the model (see LEVEL_TEXT): which of two SO_REUSEPORT listeners the kernel gives a
    connection to, and what it does with connections queued on a listener that is closed. *)
From KV Require Export Bytes Shutdown.
Open Scope nat_scope.

Record hvariant : Type := { fixD : bool; fixE : bool }.
Definition htoday : hvariant := {| fixD := false; fixE := false |}.
(** after the first repair only: listeners bound by [execute]; the control socket still bound by its task *)
Definition hbound : hvariant := {| fixD := true; fixE := false |}.
Definition hrepaired : hvariant := {| fixD := true; fixE := true |}.

(** program counter of [execute] *)
Inductive ipc : Type :=
| PSpawn (j : nat)   (* about to create and bind socket j; with j >= np: about to send "shutdown no-wait" *)
| PListen (j : nat)  (* (fixD) socket j is bound; about to call listen() and to spawn its accept task *)
| PWait (k : nat)    (* message delivered to instance k; waiting for its reply *)
| PRm                (* reply (or NotFound) seen; start_at: about to remove the socket file *)
| PBindCtl           (* (fixE) file removed; about to bind the path *)
| PRunning.          (* [execute] has returned *)

(** a listening socket of [execute] *)
Inductive bst : Type := BNone | BBound | BListening.
Definition is_listening (b : bst) : bool := match b with BListening => true | _ => false end.

(** the control-socket task of an instance ([kvarn_signal::unix::start_at]) *)
Inductive tpc : Type := TNone | TSpawned | TBound | TClosed.

(** the request loop of a connection task *)
Inductive kst : Type := KIdle | KServing | KExit.
Record kconn : Type := {
  k_st : kst;
  k_after : nat   (* requests read on this connection while the shutdown flag was already set *)
}.
Definition kc0 : kconn := {| k_st := KIdle; k_after := 0 |}.
Definition kget (c : nat) (l : list kconn) : kconn := nth c l kc0.
Fixpoint kset (c : nat) (v : kconn) (l : list kconn) : list kconn :=
  match c, l with
  | O, [] => [v]
  | O, _ :: r => v :: r
  | S c', [] => kc0 :: kset c' v []
  | S c', a :: r => a :: kset c' v r
  end.

Record inst : Type := {
  i_pc : ipc;
  i_bnd : list bst;    (* socket j *)
  i_ctl : tpc;
  i_msg : bool;        (* a "shutdown no-wait" message is waiting on this instance's control socket *)
  i_recv : bool;       (* the shutdown plugin has been entered *)
  i_replied : bool;    (* the plugin has returned and the reply has been written *)
  i_sd : state;        (* C10's machine *)
  i_ka : list kconn;   (* connection task c: its request loop (absent: waiting for the first request) *)
  i_lw : list bool     (* calls of wait() made after the start: resolved? *)
}.

Record hstate : Type := {
  np : nat;               (* number of listening sockets of an instance *)
  insts : list inst;      (* oldest first; an instance's number is its position *)
  path : option nat       (* whose socket file is at the control-socket path *)
}.

Inductive hlabel : Type :=
| HStart                      (* environment: the operator starts a new instance *)
| HMain (i : nat)             (* instance i: next step of [execute] *)
| HBind (i j : nat)           (* (fixD = false) accept task j of instance i binds its listener *)
| HCtl (i : nat)              (* instance i's control-socket task: (fixE = false) bind the path / close *)
| HRecv (i : nat)             (* instance i: message accepted and read, plugin entered *)
| HReply (i : nat)            (* instance i: plugin returned, reply written *)
| HSd (i : nat) (lb : label)  (* a step of instance i's shutdown machine *)
| HReq (i c : nat)            (* environment: a request arrives on connection c of instance i and is read *)
| HResp (i c : nat)           (* connection c of instance i: the answer is written; continue_accepting() reads the flag *)
| HKaEnd (i c : nat)          (* connection c of instance i: the client closed / 5 s without a request head / I/O error *)
| HWaitNew (i : nat)          (* environment: somebody calls wait() on instance i's manager *)
| HWaitPoll (i w : nat).      (* that future is polled *)

Definition h_is_env (lb : hlabel) : bool :=
  match lb with HStart | HReq _ _ | HWaitNew _ => true | HSd _ lb => is_env lb | _ => false end.

Definition with_pc (x : inst) (p : ipc) : inst :=
  {| i_pc := p; i_bnd := i_bnd x; i_ctl := i_ctl x; i_msg := i_msg x; i_recv := i_recv x; i_replied := i_replied x; i_sd := i_sd x;
     i_ka := i_ka x; i_lw := i_lw x |}.
Definition with_bnd (x : inst) (b : list bst) : inst :=
  {| i_pc := i_pc x; i_bnd := b; i_ctl := i_ctl x; i_msg := i_msg x; i_recv := i_recv x; i_replied := i_replied x; i_sd := i_sd x;
     i_ka := i_ka x; i_lw := i_lw x |}.
Definition with_ctl (x : inst) (t : tpc) : inst :=
  {| i_pc := i_pc x; i_bnd := i_bnd x; i_ctl := t; i_msg := i_msg x; i_recv := i_recv x; i_replied := i_replied x; i_sd := i_sd x;
     i_ka := i_ka x; i_lw := i_lw x |}.
Definition with_msg (x : inst) (m r p : bool) : inst :=
  {| i_pc := i_pc x; i_bnd := i_bnd x; i_ctl := i_ctl x; i_msg := m; i_recv := r; i_replied := p; i_sd := i_sd x;
     i_ka := i_ka x; i_lw := i_lw x |}.
Definition with_sd (x : inst) (s : state) : inst :=
  {| i_pc := i_pc x; i_bnd := i_bnd x; i_ctl := i_ctl x; i_msg := i_msg x; i_recv := i_recv x; i_replied := i_replied x; i_sd := s;
     i_ka := i_ka x; i_lw := i_lw x |}.
Definition with_ka (x : inst) (k : list kconn) : inst :=
  {| i_pc := i_pc x; i_bnd := i_bnd x; i_ctl := i_ctl x; i_msg := i_msg x; i_recv := i_recv x; i_replied := i_replied x; i_sd := i_sd x;
     i_ka := k; i_lw := i_lw x |}.
Definition with_lw (x : inst) (w : list bool) : inst :=
  {| i_pc := i_pc x; i_bnd := i_bnd x; i_ctl := i_ctl x; i_msg := i_msg x; i_recv := i_recv x; i_replied := i_replied x; i_sd := i_sd x;
     i_ka := i_ka x; i_lw := w |}.

Definition with_insts (s : hstate) (l : list inst) : hstate := {| np := np s; insts := l; path := path s |}.
Definition with_path (s : hstate) (p : option nat) : hstate := {| np := np s; insts := insts s; path := p |}.
Definition set_inst (s : hstate) (i : nat) (x : inst) : hstate := with_insts s (upd i x (insts s)).

(** a fresh instance, and the first instance of a chain (already up: every socket listening, control socket bound) *)
Definition new_inst (n : nat) : inst :=
  {| i_pc := PSpawn 0; i_bnd := repeat BNone n; i_ctl := TNone; i_msg := false; i_recv := false; i_replied := false;
     i_sd := init repaired n 1 0 1; i_ka := []; i_lw := [] |}.
Definition up_inst (n : nat) : inst :=
  {| i_pc := PRunning; i_bnd := repeat BListening n; i_ctl := TBound; i_msg := false; i_recv := false; i_replied := false;
     i_sd := init repaired n 1 0 1; i_ka := []; i_lw := [] |}.
Definition hinit (n : nat) : hstate := {| np := n; insts := [up_inst n]; path := Some 0 |}.

Definition is_running (x : inst) : bool := match i_pc x with PRunning => true | _ => false end.

(** who answers a connect to the path *)
Definition serves (s : hstate) (i : nat) : bool :=
  match path s, nth_error (insts s) i with
  | Some k, Some x => Nat.eqb k i && match i_ctl x with TBound => true | _ => false end
  | _, _ => false
  end.

Definition caller_pc (x : inst) : option spc := nth_error (callers (i_sd x)) 0.

(** ---- the transition function ------------------------------------------------------------ *)
Definition step_main (v : hvariant) (s : hstate) (i : nat) (x : inst) : option hstate :=
  match i_pc x with
  | PSpawn j =>
      if Nat.ltb j (np s)
      then Some (set_inst s i (if fixD v then with_pc (with_bnd x (upd j BBound (i_bnd x))) (PListen j) else with_pc x (PSpawn (S j))))
      else
        match path s with
        | Some k =>
            match nth_error (insts s) k with
            | Some y =>
                match i_ctl y with
                | TBound =>
                    if Nat.eqb k i then None
                    else Some (set_inst (set_inst s i (with_pc x (PWait k))) k (with_msg y true (i_recv y) (i_replied y)))
                | _ => Some (set_inst s i (with_pc x PRm))
                end
            | None => Some (set_inst s i (with_pc x PRm))
            end
        | None => Some (set_inst s i (with_pc x PRm))
        end
  | PListen j => Some (set_inst s i (with_pc (with_bnd x (upd j BListening (i_bnd x))) (PSpawn (S j))))
  | PWait k =>
      match nth_error (insts s) k with
      | Some y => if i_replied y then Some (set_inst s i (with_pc x PRm)) else None
      | None => None
      end
  | PRm =>
      if fixE v then Some (with_path (set_inst s i (with_pc x PBindCtl)) None)
      else Some (with_path (set_inst s i (with_pc (with_ctl x TSpawned) PRunning)) None)
  | PBindCtl =>
      match path s with
      | None => Some (with_path (set_inst s i (with_pc (with_ctl x TBound) PRunning)) (Some i))
      | Some _ => Some (set_inst s i (with_pc (with_ctl x TClosed) PRunning))     (* AddrInUse *)
      end
  | PRunning => None
  end.

(** accept task j has been spawned *)
Definition spawned (n : nat) (p : ipc) (j : nat) : bool :=
  match p with PSpawn j' | PListen j' => Nat.ltb j j' | _ => Nat.ltb j n end.

Definition step_bind (v : hvariant) (s : hstate) (i j : nat) (x : inst) : option hstate :=
  if fixD v then None
  else if spawned (np s) (i_pc x) j && negb (is_listening (nth j (i_bnd x) BListening))
  then Some (set_inst s i (with_bnd x (upd j BListening (i_bnd x))))
  else None.

Definition step_ctl (s : hstate) (i : nat) (x : inst) : option hstate :=
  match i_ctl x with
  | TSpawned =>
      match path s with
      | None => Some (with_path (set_inst s i (with_ctl x TBound)) (Some i))
      | Some _ => Some (set_inst s i (with_ctl x TClosed))     (* AddrInUse: the task gives up *)
      end
  | TBound => if init_sent (i_sd x) then Some (set_inst s i (with_ctl x TClosed)) else None
  | _ => None
  end.

Definition step_recv (s : hstate) (i : nat) (x : inst) : option hstate :=
  match i_ctl x with
  | TBound => if i_msg x && negb (i_recv x) then Some (set_inst s i (with_msg x false true (i_replied x))) else None
  | _ => None
  end.

Definition step_reply (s : hstate) (i : nat) (x : inst) : option hstate :=
  if i_recv x && negb (i_replied x)
  then match caller_pc x with
       | Some SDone => Some (set_inst s i (with_msg x (i_msg x) true true))
       | _ => None
       end
  else None.

Definition conn_running (x : inst) (c : nat) : bool :=
  match nth_error (cs (i_sd x)) c with Some CRunning => true | _ => false end.
Definition k_exited (k : kconn) : bool := match k_st k with KExit => true | _ => false end.

(** may instance [x] take the step [lb] of its shutdown machine? *)
Definition sd_gate (x : inst) (lb : label) : bool :=
  match lb with
  | LStep j | LTake j | EConn j => is_listening (nth j (i_bnd x) BNone)
  | SStep _ => i_recv x
  | CStep c => if conn_running x c then k_exited (kget c (i_ka x)) else true   (* the handler returns when its request loop has ended *)
  | _ => true
  end.

(** [Manager::shutdown] removes the file at the path together with the send on the initiate channel *)
Definition removes_path (x : inst) (lb : label) : bool :=
  match lb with
  | SStep k => match nth_error (callers (i_sd x)) k with Some SSet => true | _ => false end
  | _ => false
  end.

Definition step_sd (s : hstate) (i : nat) (x : inst) (lb : label) : option hstate :=
  if sd_gate x lb
  then match step repaired (i_sd x) lb with
       | Some sd' =>
           let s' := set_inst s i (with_sd x sd') in
           Some (if removes_path x lb then with_path s' None else s')
       | None => None
       end
  else None.

Definition k_read (x : inst) (c : nat) : kconn :=
  {| k_st := KServing; k_after := if gS (i_sd x) then S (k_after (kget c (i_ka x))) else k_after (kget c (i_ka x)) |}.
Definition k_answered (x : inst) (c : nat) : kconn :=
  {| k_st := if gS (i_sd x) then KExit else KIdle; k_after := k_after (kget c (i_ka x)) |}.
Definition k_ended (x : inst) (c : nat) : kconn := {| k_st := KExit; k_after := k_after (kget c (i_ka x)) |}.

Definition step_req (s : hstate) (i c : nat) (x : inst) : option hstate :=
  if conn_running x c
  then match k_st (kget c (i_ka x)) with
       | KIdle => Some (set_inst s i (with_ka x (kset c (k_read x c) (i_ka x))))
       | _ => None
       end
  else None.

Definition step_resp (s : hstate) (i c : nat) (x : inst) : option hstate :=
  if conn_running x c
  then match k_st (kget c (i_ka x)) with
       | KServing => Some (set_inst s i (with_ka x (kset c (k_answered x c) (i_ka x))))
       | _ => None
       end
  else None.

Definition step_kaend (s : hstate) (i c : nat) (x : inst) : option hstate :=
  if conn_running x c
  then match k_st (kget c (i_ka x)) with
       | KExit => None
       | _ => Some (set_inst s i (with_ka x (kset c (k_ended x c) (i_ka x))))
       end
  else None.

Definition step_wpoll (s : hstate) (i w : nat) (x : inst) : option hstate :=
  match nth_error (i_lw x) w with
  | Some false => if finished (i_sd x) then Some (set_inst s i (with_lw x (upd w true (i_lw x)))) else None
  | _ => None
  end.

Definition hstep (v : hvariant) (s : hstate) (lb : hlabel) : option hstate :=
  match lb with
  | HStart =>
      match nth_error (insts s) (pred (length (insts s))) with
      | Some x => if is_running x then Some (with_insts s (insts s ++ [new_inst (np s)])) else None
      | None => None
      end
  | HMain i => match nth_error (insts s) i with Some x => step_main v s i x | None => None end
  | HBind i j => match nth_error (insts s) i with Some x => step_bind v s i j x | None => None end
  | HCtl i => match nth_error (insts s) i with Some x => step_ctl s i x | None => None end
  | HRecv i => match nth_error (insts s) i with Some x => step_recv s i x | None => None end
  | HReply i => match nth_error (insts s) i with Some x => step_reply s i x | None => None end
  | HSd i lb => match nth_error (insts s) i with Some x => step_sd s i x lb | None => None end
  | HReq i c => match nth_error (insts s) i with Some x => step_req s i c x | None => None end
  | HResp i c => match nth_error (insts s) i with Some x => step_resp s i c x | None => None end
  | HKaEnd i c => match nth_error (insts s) i with Some x => step_kaend s i c x | None => None end
  | HWaitNew i => match nth_error (insts s) i with Some x => Some (set_inst s i (with_lw x (i_lw x ++ [false]))) | None => None end
  | HWaitPoll i w => match nth_error (insts s) i with Some x => step_wpoll s i w x | None => None end
  end.

Fixpoint hrun (v : hvariant) (s : hstate) (sched : list hlabel) : option hstate :=
  match sched with
  | [] => Some s
  | lb :: r => match hstep v s lb with Some s' => hrun v s' r | None => None end
  end.

Inductive hreachable (v : hvariant) (n : nat) : hstate -> Prop :=
| hreach_init : hreachable v n (hinit n)
| hreach_step s lb s' : hreachable v n s -> hstep v s lb = Some s' -> hreachable v n s'.

(** ---- the property's vocabulary ---------------------------------------------------------- *)
(** instance [x] has socket [j] bound and listening *)
Definition listening (x : inst) (j : nat) : bool :=
  is_listening (nth j (i_bnd x) BNone) && match nth_error (ls (i_sd x)) j with Some l => l_bound l | None => false end.
Definition port_served (s : hstate) (j : nat) : bool := existsb (fun x => listening x j) (insts s).
Definition all_served (s : hstate) : bool := forallb (port_served s) (seq 0 (np s)).

(** every socket of [x] has been bound and put into listening state by its start-up *)
Definition all_bnd (n : nat) (x : inst) : Prop := forall j, j < n -> nth j (i_bnd x) BNone = BListening.
Definition all_bndb (n : nat) (x : inst) : bool := forallb (fun j => is_listening (nth j (i_bnd x) BNone)) (seq 0 n).

(** listener [j] of [x] has been closed *)
Definition closed (x : inst) (j : nat) : Prop :=
  exists l, nth_error (ls (i_sd x)) j = Some l /\ l_bound l = false.

(** no thread of any instance can move (the environment — new instances, arriving connections and requests, new
    calls of wait() — still may) *)
Definition hquiescent (v : hvariant) (s : hstate) : Prop := forall lb, h_is_env lb = false -> hstep v s lb = None.

(** ---- executable scheduler (used for the model's prediction and the non-vacuity examples) ---- *)
Definition inst_labels (i : nat) (x : inst) : list hlabel :=
  [HMain i; HCtl i; HRecv i; HReply i] ++ map (HBind i) (seq 0 (length (i_bnd x))) ++ map (HSd i) (thread_labels (i_sd x))
  ++ map (HResp i) (seq 0 (length (cs (i_sd x)))) ++ map (HKaEnd i) (seq 0 (length (cs (i_sd x))))
  ++ map (HWaitPoll i) (seq 0 (length (i_lw x))).
Fixpoint all_labels (i : nat) (l : list inst) : list hlabel :=
  match l with [] => [] | x :: r => inst_labels i x ++ all_labels (S i) r end.
Definition henabledb (v : hvariant) (s : hstate) (lb : hlabel) : bool :=
  match hstep v s lb with Some _ => true | None => false end.
Definition hquiescentb (v : hvariant) (s : hstate) : bool := negb (existsb (henabledb v s) (all_labels 0 (insts s))).
(** run the first enabled non-environment label, repeatedly; [ok] accumulates [all_served] *)
Fixpoint hdrain (v : hvariant) (fuel : nat) (s : hstate) (ok : bool) : hstate * bool :=
  match fuel with
  | O => (s, ok)
  | S f => match find (henabledb v s) (all_labels 0 (insts s)) with
           | Some lb => match hstep v s lb with Some s' => hdrain v f s' (ok && all_served s') | None => (s, ok) end
           | None => (s, ok)
           end
  end.

(** ---- xval interface ----------------------------------------------------------------------- *)
Definition x_ipc (p : ipc) : N :=
  match p with PSpawn j => N.of_nat j | PListen j => 200 + N.of_nat j | PWait _ => 100 | PRm => 101 | PRunning => 102 | PBindCtl => 103 end%N.
Definition x_tpc (t : tpc) : N := match t with TNone => 0 | TSpawned => 1 | TBound => 2 | TClosed => 3 end%N.
Definition x_kst (k : kst) : N := match k with KIdle => 0 | KServing => 1 | KExit => 2 end%N.

Definition d_hlabel (x : xval) : option hlabel :=
  match x with
  | XL [XN 0] => Some HStart
  | XL [XN 1; XN i] => Some (HMain (N.to_nat i))
  | XL [XN 2; XN i; XN j] => Some (HBind (N.to_nat i) (N.to_nat j))
  | XL [XN 3; XN i] => Some (HCtl (N.to_nat i))
  | XL [XN 4; XN i] => Some (HRecv (N.to_nat i))
  | XL [XN 5; XN i] => Some (HReply (N.to_nat i))
  | XL [XN 6; XN i; l] => option_map (HSd (N.to_nat i)) (d_label l)
  | XL [XN 7; XN i; XN c] => Some (HReq (N.to_nat i) (N.to_nat c))
  | XL [XN 8; XN i; XN c] => Some (HResp (N.to_nat i) (N.to_nat c))
  | XL [XN 10; XN i; XN c] => Some (HKaEnd (N.to_nat i) (N.to_nat c))
  | XL [XN 11; XN i] => Some (HWaitNew (N.to_nat i))
  | XL [XN 12; XN i; XN w] => Some (HWaitPoll (N.to_nat i) (N.to_nat w))
  | _ => None
  end%N.

(** what the acting thread looks like after its step: compared with what the hook point reported *)
Definition obs_after (s : hstate) (lb : hlabel) : N :=
  match lb with
  | HStart => N.of_nat (length (insts s))
  | HMain i | HBind i _ => match nth_error (insts s) i with Some x => x_ipc (i_pc x) | None => 999 end
  | HCtl i => match nth_error (insts s) i with Some x => x_tpc (i_ctl x) | None => 999 end
  | HRecv i | HReply i =>
      match nth_error (insts s) i with
      | Some x => (if i_msg x then 4 else 0) + (if i_recv x then 2 else 0) + (if i_replied x then 1 else 0)
      | None => 999 end
  | HSd i lb =>
      match nth_error (insts s) i with
      | Some x =>
          let sd := i_sd x in
          match lb with
          | LStep j | LTake j | EConn j => match nth_error (ls sd) j with Some l => x_lpc (l_pc l) | None => 999 end
          | CStep c | CPanic c => match nth_error (cs sd) c with Some p => x_cpc p | None => 999 end
          | SStep k => match nth_error (callers sd) k with Some p => x_spc p | None => 999 end
          | KStep => x_kpc (comp sd)
          | HStep _ => 0
          | WStep w => match nth_error (waiters sd) w with Some true => 1 | _ => 0 end
          end
      | None => 999
      end
  | HReq i c | HResp i c | HKaEnd i c =>
      match nth_error (insts s) i with Some x => x_kst (k_st (kget c (i_ka x))) | None => 999 end
  | HWaitNew i => match nth_error (insts s) i with Some x => N.of_nat (length (i_lw x)) | None => 999 end
  | HWaitPoll i w =>
      match nth_error (insts s) i with
      | Some x => match nth_error (i_lw x) w with Some true => 1 | _ => 0 end
      | None => 999
      end
  end%N.

(** Trace acceptance.  A log entry is a label together with the observation the harness made at the
    hook point.  Result: (L (N accepted-entries) (N first-entry-where-some-port-was-unserved-or-0)
    (L mismatch...)) where mismatch = (L (N index) (N model-observation)) or (L (N index) (N 777)) for a label that
    is not enabled.  [unserved] counts from 1. *)
Fixpoint hcheck (v : hvariant) (s : hstate) (log : list (hlabel * N)) (idx : nat) (unserved : nat) : nat * nat * list xval :=
  match log with
  | [] => (idx, unserved, [])
  | (lb, o) :: r =>
      match hstep v s lb with
      | Some s' =>
          let u := if Nat.eqb unserved 0 && negb (all_served s') then S idx else unserved in
          if N.eqb (obs_after s' lb) o then hcheck v s' r (S idx) u
          else (idx, u, [XL [x_nat idx; XN (obs_after s' lb)]])
      | None => (idx, unserved, [XL [x_nat idx; XN 777]])
      end
  end.

Definition d_entry (x : xval) : option (hlabel * N) :=
  match x with
  | XL [l; XN o] => option_map (fun lb => (lb, o)) (d_hlabel l)
  | _ => None
  end.

(** input (L (N variant: 0 as found, 1 first repair only, 2 both repairs) (N sockets) (L entry ...)) *)
Definition d_hvariant (d : N) : hvariant :=
  if N.eqb d 0 then htoday else if N.eqb d 1 then hbound else hrepaired.
Definition run_check (x : xval) : xval :=
  match x with
  | XL [XN d; XN n; xs] =>
      match d_list d_entry xs with
      | Some log =>
          if (n <=? 8)%N && (d <=? 2)%N then
            let '(k, u, bad) := hcheck (d_hvariant d) (hinit (N.to_nat n)) log 0 0 in
            XL [x_nat k; x_nat u; XL bad]
          else bad_input
      | None => bad_input
      end
  | _ => bad_input
  end.

(** The model's prediction for a scenario of [k] handovers on [n] sockets with [c] connections per
    instance accepted before its successor starts: every instance is started when its predecessor's [execute]
    has returned, everything is run to rest by [hdrain]; then [wait()] is called once more on every predecessor.
    Output (L (N every-socket-served-throughout) (L wait-resolved-per-predecessor ...) (N who-serves-the-path + 1)
              (N quiescent) (L connections-over-per-instance ...) (L late-wait-resolved-per-predecessor ...)). *)
Fixpoint conns (i : nat) (n c : nat) : list hlabel :=
  match c with
  | O => []
  | S c' => HSd i (EConn (c' mod (Nat.max n 1))) :: conns i n c'
  end.
Fixpoint scenario (v : hvariant) (fuel : nat) (k n c : nat) (i : nat) (s : hstate) (ok : bool) : hstate * bool :=
  match k with
  | O => hdrain v fuel s ok
  | S k' =>
      let '(s1, ok1) := hdrain v fuel s ok in
      match hrun v s1 (conns i n c ++ [HStart]) with
      | Some s2 => scenario v fuel k' n c (S i) s2 (ok1 && all_served s2)
      | None => (s1, false)
      end
  end.
Definition who_serves (s : hstate) : nat :=
  match find (fun i => serves s i) (seq 0 (length (insts s))) with Some i => S i | None => 0 end.
Definition waiter_done (x : inst) : bool := forallb (fun w => w) (waiters (i_sd x)) && finished (i_sd x).
Definition late_wait (v : hvariant) (fuel : nat) (s : hstate) : hstate :=
  match hrun v s (map HWaitNew (seq 0 (pred (length (insts s))))) with
  | Some s' => fst (hdrain v fuel s' true)
  | None => s
  end.
Definition late_done (x : inst) : bool := negb (Nat.eqb (length (i_lw x)) 0) && forallb (fun w => w) (i_lw x).
Definition run_predict (x : xval) : xval :=
  match x with
  | XL [XN d; XN n; XN k; XN c] =>
      if (n <=? 8)%N && (d <=? 2)%N && (k <=? 6)%N && (c <=? 8)%N && (1 <=? n)%N then
        let v := d_hvariant d in
        let fuel := 400 * (1 + N.to_nat n) * (1 + N.to_nat c) in
        let '(s0, ok) := scenario v fuel (N.to_nat k) (N.to_nat n) (N.to_nat c) 0 (hinit (N.to_nat n)) true in
        let s := late_wait v fuel s0 in
        XL [x_bool ok; XL (map (fun x => x_bool (waiter_done x)) (removelast (insts s))); x_nat (who_serves s);
            x_bool (hquiescentb v s); XL (map (fun x => x_bool (forallb c_over (cs (i_sd x)))) (insts s));
            XL (map (fun x => x_bool (late_done x)) (removelast (insts s)))]
      else bad_input
  | _ => bad_input
  end.

(** the harness' scenario (L ports handovers runtime seed jitter (L delay ...) slow_ms nslow gap_ms eager keep-alive both-families
    stale-file block_ms): the prediction depends only on the number of listening sockets (two per port with both address
    families), of handovers and of slow requests in flight *)
Definition run_run (x : xval) : xval :=
  match x with
  | XL [XN n; XN k; XN _; XN _; XN _; XL _; XN _; XN c; XN _; XN _; XN _; XN dual; XN _; XN _] =>
      run_predict (XL [XN 2; XN (if N.eqb dual 0 then n else 2 * n); XN k; XN c])
  | _ => bad_input
  end.

Definition handover_table : list (bytes * (xval -> xval)) :=
  [ (B "handover.check", run_check);
    (B "handover.predict", run_predict);
    (B "handover.run", run_run) ].
