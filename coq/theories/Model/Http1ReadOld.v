(** C07 — the code BEFORE the repairs of this round, as far as the refutation witnesses need it (Properties/C07.v
    [.._refuted]); nothing else uses these definitions.  Transcribed from the repo at 76d8d4f:
    [parse::headers] (optional whitespace = the spaces after the colon only), [utils::valid_method] (a closed list),
    [Http1Body::poll_read] (no cap at content-length), [Http1Body::read_to_bytes] (starts over at the early bytes). *)
From KV Require Export Bytes RustInt Http1Read.
Open Scope N_scope.

(** ** [kvarn_utils::parse::headers] before aca6293 *)

Fixpoint position_non_space_old (l : bytes) : option nat :=
  match l with
  | [] => None
  | c :: r => if c =? SP then option_map S (position_non_space_old r) else Some O
  end.
(** [rest.iter().position(|b| b != ' ').unwrap_or(0) + pos] with [rest = &bytes[pos..]] *)
Definition value_start_from_old (all : bytes) (pos : nat) : nat :=
  match position_non_space_old (skipn pos all) with Some i => (i + pos)%nat | None => pos end.
(** [bytes.get(pos + 1) == Some(&SPACE)] *)
Definition next_is_space_old (all : bytes) (pos : nat) : bool :=
  match nth_error all (S pos) with Some c => c =? SP | None => false end.
(** The loop of [parse::headers]; [inval] = stage is [HeaderValue]; [lf ns ne vs] =
    [lf_in_row header_name_start name_end value_start]; result [(headers, header_end)]. *)
Fixpoint hdr_loop_old (all rest : bytes) (pos : nat) (inval : bool) (lf ns ne vs : nat) (m : hmap)
  {struct rest} : outcome (hmap * nat) :=
  match rest with
  | [] => Ok (m, pos)
  | byte :: rest' =>
      if byte =? CR then hdr_loop_old all rest' (S pos) inval lf ns ne vs m
      else if (byte =? LF) && (S lf =? 2)%nat then Ok (m, S pos)
      else
        let lf' := if byte =? LF then S lf else O in
        if inval then
          if byte =? LF then
            match slice_get ns ne all with
            | None => Err E_ILLEGAL_NAME
            | Some raw =>
                match header_name raw with
                | None => Err E_ILLEGAL_NAME
                | Some name =>
                    let value_end := if prev_is_cr all pos then (pos - 1)%nat else pos in
                    match slice_chk vs value_end all with
                    | Ok v =>
                        if hvalue_ok v
                        then hdr_loop_old all rest' (S pos) false lf' (S pos) ne vs (hm_insert name v m)
                        else Err E_ILLEGAL_VALUE
                    | Err e => Err e
                    | Panic => Panic
                    end
                end
            end
          else hdr_loop_old all rest' (S pos) true lf' ns ne vs m
        else if byte =? COLON then
          if next_is_space_old all pos
          then hdr_loop_old all rest' (S pos) false lf' ns pos vs m
          else hdr_loop_old all rest' (S pos) true lf' ns pos (S pos) m
        else if byte =? SP then
          hdr_loop_old all rest' (S pos) true lf' ns ne (value_start_from_old all pos) m
        else hdr_loop_old all rest' (S pos) false lf' ns ne vs m
  end.
Definition parse_headers_old (b : bytes) : outcome (hmap * nat) := hdr_loop_old b b 0 false 0 0 0 0 [].

(** [utils::valid_method(b) || utils::valid_version(b)] before 2dbf4ed: the closed list *)
Definition valid_start_old (b : bytes) : bool := existsb (fun t => starts_with t b) start_tokens.

(** [Http1Body::poll_read] before 9c56fae *)
Definition hb_read_old (mode : N) (b : hbody) (r : reader) (window : nat) : outcome (bytes * hbody * reader) :=
  if (hb_offset b <? length (hb_bytes b))%nat then
    let n := Nat.min window (length (hb_bytes b) - hb_offset b) in
    Ok (firstn n (skipn (hb_offset b) (hb_bytes b)), mk_hbody (hb_bytes b) (hb_offset b + n) (hb_cl b) (hb_unread b), r)
  else
    match rd_read mode r window with
    | RdStall => Err E_TIMEDOUT
    | RdErr => Err E_IO
    | RdOk got r' =>
        Ok (got, mk_hbody (hb_bytes b) (hb_offset b + length got) (hb_cl b) (hb_unread b - length got), r')
    end.

(** [Http1Body::read_to_bytes] before 2820a60: whatever [offset] says, it starts at the first early byte *)
Definition hb_read_to_bytes_old (grow : nat -> nat -> nat -> nat) (mode : N) (b : hbody) (r : reader) (limit : N)
  : outcome (bytes * reader) :=
  read_to_bytes grow mode (hb_bytes b) (N.of_nat (hb_cl b)) limit r.
