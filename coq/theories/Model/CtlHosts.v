(** C19 — the [clear] plugin (src/ctl.rs [with_clear]) on an instance WITH ports: the host collections
    of the ports ([HostCollection], src/host.rs: [clear_file], [clear_page], [clear_file_caches],
    [clear_response_caches]), their file caches (keys: strings) and response caches (keys:
    [UriKey::Path(path)] / [UriKey::PathQuery { path ++ query, query_start }], src/comprash.rs), and
    http's parser for the argument of [clear response] ([Uri::builder().path_and_query(..).build()],
    http-1.5.0 src/uri/path.rs [scan_path_and_query], [PathAndQuery::path]/[query], [Uri::path]).
    What is observable of "the plugin saw the host and the path the operator typed" is which cache
    entry of which host disappears, and the class of the reply.
    Definitions only; proofs live in Proofs/CtlHostsProofs.v. *)
From KV Require Export Bytes Quoted Ctl.
Open Scope N_scope.

(** ---- the caches ----------------------------------------------------------------------------------------- *)

Inductive rkey :=
| RPath (path : bytes)
| RPathQuery (path query : bytes).   (* [PathQuery]: equal iff the string and [query_start] are equal *)

Definition rkey_eqb (a c : rkey) : bool :=
  match a, c with
  | RPath p, RPath q => beq p q
  | RPathQuery p1 q1, RPathQuery p2 q2 => beq p1 p2 && beq q1 q2
  | _, _ => false
  end.

(** a [Host]: its name and its two caches ([None]: the cache is disabled) *)
Record hostrec := { h_name : str; h_files : option (list str); h_pages : option (list rkey) }.
(** a [HostCollection]: [by_name] (the run has no alternative names; [get_host] is the first entry of
    that name) and the name of the default host *)
Record collection := { c_hosts : list hostrec; c_default : option str }.

Fixpoint get_host (name : str) (hs : list hostrec) : option hostrec :=
  match hs with
  | [] => None
  | h :: r => if beq (h_name h) name then Some h else get_host name r
  end.
Definition get_default (c : collection) : option hostrec :=
  match c_default c with Some n => get_host n (c_hosts c) | None => None end.

Definition mem_str (k : str) (l : list str) : bool := existsb (beq k) l.
Definition remove_str (k : str) (l : list str) : list str := filter (fun x => negb (beq k x)) l.
Definition mem_rkey (k : rkey) (l : list rkey) : bool := existsb (rkey_eqb k) l.
Definition remove_rkey (k : rkey) (l : list rkey) : list rkey := filter (fun x => negb (rkey_eqb k x)) l.

(** every host of that name gets [f] applied (one host: names are keys of a map) *)
Definition update_host (name : str) (f : hostrec -> hostrec) (c : collection) : collection :=
  {| c_hosts := map (fun h => if beq (h_name h) name then f h else h) (c_hosts c); c_default := c_default c |}.

(** the name of the host that the argument [host] of [clear file] / [clear response] designates:
    [""] and ["default"] are the default host, anything else is looked up by name *)
Definition target_name (c : collection) (host : str) : option str :=
  if is_empty host || beq host (B "default")
  then match get_default c with Some h => Some (h_name h) | None => None end
  else match get_host host (c_hosts c) with Some h => Some (h_name h) | None => None end.

(** [Collection::clear_file(host, path)] -> (found, cleared) and the collection afterwards *)
Definition clear_file_coll (host path : str) (c : collection) : (bool * bool) * collection :=
  let go (h : hostrec) (need_cache : bool) :=
    match h_files h with
    | Some fs =>
        ((true, mem_str path fs),
         update_host (h_name h) (fun h' => {| h_name := h_name h'; h_files := option_map (remove_str path) (h_files h');
                                               h_pages := h_pages h' |}) c)
    | None => ((negb need_cache, false), c)
    end in
  if is_empty host || beq host (B "default") then
    (* [get_default().and_then(|h| h.file_cache.as_ref())]: found only with a cache *)
    match get_default c with Some h => go h true | None => ((false, false), c) end
  else
    match get_host host (c_hosts c) with Some h => go h false | None => ((false, false), c) end.

(** [Collection::clear_page(host, uri)] with [key = UriKey::path_and_query(uri)]:
    [cleared ^= contains(PathQuery); invalidate; cleared |= contains(Path); invalidate] *)
Definition clear_page_coll (host : str) (path query : bytes) (c : collection) : (bool * bool) * collection :=
  let k1 := RPathQuery path query in
  let k2 := RPath path in
  let go (h : hostrec) (need_cache : bool) :=
    match h_pages h with
    | Some ps =>
        ((true, mem_rkey k1 ps || mem_rkey k2 ps),
         update_host (h_name h) (fun h' => {| h_name := h_name h'; h_files := h_files h';
                                               h_pages := option_map (fun l => remove_rkey k2 (remove_rkey k1 l)) (h_pages h') |}) c)
    | None => ((negb need_cache, false), c)
    end in
  if is_empty host || beq host (B "default") then
    match get_default c with Some h => go h true | None => ((false, false), c) end
  else
    match get_host host (c_hosts c) with Some h => go h false | None => ((false, false), c) end.

(** [clear_file_caches(filter)] / [clear_response_caches(filter)]: every host whose NAME is the
    filter (all hosts without a filter); ["default"] is not special here *)
Definition clear_caches_coll (files pages : bool) (filter : option str) (c : collection) : collection :=
  {| c_hosts := map (fun h =>
       if match filter with Some f => beq f (h_name h) | None => true end
       then {| h_name := h_name h;
               h_files := if files then option_map (fun _ => []) (h_files h) else h_files h;
               h_pages := if pages then option_map (fun _ => []) (h_pages h) else h_pages h |}
       else h) (c_hosts c);
     c_default := c_default c |}.

(** ---- http: the argument of [clear response] ------------------------------------------------------------- *)

(** [PATH_MAP] / [QUERY_MAP]: 0 valid, 1 [?], 2 [#], 3 not ASCII, 4 invalid *)
Definition in_range (lo hi b : N) : bool := (lo <=? b) && (b <=? hi).
Definition path_class (b : N) : N :=
  if b =? 63 then 1
  else if b =? 35 then 2
  else if (b =? 33) || in_range 36 59 b || (b =? 61) || in_range 64 95 b || in_range 97 122 b || (b =? 124) || (b =? 126)
  then 0
  else if 128 <=? b then 3
  else if (b =? 34) || (b =? 123) || (b =? 125) then 0
  else 4.
Definition query_class (b : N) : N :=
  if b =? 35 then 2
  else if (b =? 33) || in_range 36 59 b || (b =? 61) || in_range 63 126 b then 0
  else if 128 <=? b then 3
  else 4.

(** the query up to a fragment; [None]: an invalid byte *)
Fixpoint scan_query (s : bytes) : option bytes :=
  match s with
  | [] => Some []
  | b :: r =>
      let c := query_class b in
      if c =? 2 then Some []
      else if (c =? 0) || (c =? 3) then option_map (cons b) (scan_query r)
      else None
  end.
(** the path up to [?] or a fragment, and the query if there is a [?] *)
Fixpoint scan_path (s : bytes) : option (bytes * option bytes) :=
  match s with
  | [] => Some ([], None)
  | b :: r =>
      let c := path_class b in
      if c =? 1 then option_map (fun q => ([], Some q)) (scan_query r)
      else if c =? 2 then Some ([], None)
      else if (c =? 0) || (c =? 3) then option_map (fun pq => (b :: fst pq, snd pq)) (scan_path r)
      else None
  end.

(** [Uri::builder().path_and_query(s).build()] and then [(uri.path(), uri.query())]; [None]: [Err].
    [data] is the source cut at the fragment; it is checked to be UTF-8 when a byte above 0x7f occurred
    (always true for the bytes of a [&str] cut at an ASCII byte). *)
Definition uri_parts (s : bytes) : option (bytes * option bytes) :=
  match s with
  | [] => Some ([], None)     (* ErrorKind::Empty, which [Builder::path_and_query] turns into [PathAndQuery::empty()] *)
  | b0 :: _ =>
      if 65534 <? N.of_nat (length s) then None                (* MAX_LEN = u16::MAX - 1 *)
      else if beq s (B "*") then Some (B "*", None)
      else if negb ((b0 =? 47) || (b0 =? 63) || (b0 =? 35)) then None   (* PathDoesNotStartWithSlash *)
      else
        match scan_path s with
        | None => None
        | Some (p, q) =>
            let data := p ++ match q with Some q' => 63 :: q' | None => [] end in
            match utf8_decode data with
            | None => None
            | Some _ =>
                (* [Uri::path]: [""] when there is no path at all, [PathAndQuery::path]: ["/"] for an empty path *)
                let path := if is_empty data then [] else if is_empty p then B "/" else p in
                Some (path, q)
            end
        end
  end.

(** ---- the plugin ------------------------------------------------------------------------------------------- *)

Section ClearHosts.
  (** [{:?}] of a string ([format!("cleared {path:?} from {host:?}")]): a parameter; the run
      instantiates it with [debug_str], which is [str]'s Debug for strings of printable characters. *)
  Variable dbg : str -> str.

  (** the [for hosts in ports.iter().map(PortDescriptor::hosts)] loops: (found, cleared) are or-ed *)
  Fixpoint over_ports (f : collection -> (bool * bool) * collection) (ports : list collection)
      : (bool * bool) * list collection :=
    match ports with
    | [] => ((false, false), [])
    | c :: r =>
        let '((f1, c1), c') := f c in
        let '((f2, c2), r') := over_ports f r in
        ((f1 || f2, c1 || c2), c' :: r')
    end.

  Definition clear_hosts_plugin : plugin (list collection) := fun args ports =>
    (* [if args.next().is_some() { return error("unexpected argument") }] comes AFTER the caches were cleared *)
    let finish (msg : bytes) (rest : list str) (ports' : list collection) :=
      match rest with
      | _ :: _ => (pr_error (B "unexpected argument"), ports')
      | [] => (pr_ok msg, ports')
      end in
    let with_host (files pages : bool) (all one : bytes) (rest : list str) :=
      match rest with
      | host :: rest' => finish (one ++ utf8_encode host) rest' (map (clear_caches_coll files pages (Some host)) ports)
      | [] => finish all [] (map (clear_caches_coll files pages None) ports)
      end in
    match args with
    | [] => (pr_error (B "you must specify what to clear"), ports)
    | m :: rest =>
        if beq m (B "all") then with_host true true (B "cleared all caches") (B "cleared the caches on ") rest
        else if beq m (B "files") then with_host true false (B "cleared all file caches") (B "cleared the file cache on ") rest
        else if beq m (B "responses") then
          with_host false true (B "cleared all response caches") (B "cleared the response cache on ") rest
        else if beq m (B "file") then
          match rest with
          | [] => (pr_error (B "please supply the host you want to clear the response from"), ports)
          | [_] => (pr_error (B "please supply response you want to clear after the host"), ports)
          | host :: path :: rest' =>
              let '((found, cleared), ports') := over_ports (clear_file_coll host path) ports in
              if negb found then (pr_error (B "didn't find the target host. Use \'default\' for the default host"), ports')
              else if negb cleared then (pr_error (B "target file isn\'t in the cache"), ports')
              else finish (B "cleared " ++ utf8_encode (dbg path) ++ B " from " ++ utf8_encode (dbg host)) rest' ports'
          end
        else if beq m (B "response") then
          match rest with
          | [] => (pr_error (B "please supply the host you want to clear the response from"), ports)
          | [_] => (pr_error (B "please supply response you want to clear after the host"), ports)
          | host :: response :: rest' =>
              match uri_parts (utf8_encode response) with
              | None => (pr_error (B "failed to format target response"), ports)
              | Some (p, q) =>
                  let query := match q with Some q' => q' | None => [] end in
                  let '((found, cleared), ports') := over_ports (clear_page_coll host p query) ports in
                  if negb found then (pr_error (B "didn't find the target host. Use 'default' for the default host"), ports')
                  else if negb cleared then (pr_error (B "target response isn't in the cache"), ports')
                  else finish (B "cleared " ++ utf8_encode (dbg response) ++ B " from " ++ utf8_encode (dbg host)) rest' ports'
              end
          end
        else (pr_error (B "clear method invalid"), ports)
    end.
End ClearHosts.

(** ---- what a session can observe --------------------------------------------------------------------------- *)

(** is [key] in the file cache / [k] in the response cache of the host called [name]? *)
Definition file_cached (c : collection) (name key : str) : bool :=
  existsb (fun h => beq (h_name h) name && match h_files h with Some fs => mem_str key fs | None => false end) (c_hosts c).
Definition page_cached (c : collection) (name : str) (k : rkey) : bool :=
  existsb (fun h => beq (h_name h) name && match h_pages h with Some ps => mem_rkey k ps | None => false end) (c_hosts c).

(** ---- the fixture of the run (ctl.hosts) ------------------------------------------------------------------- *)

(** one port; the instance has kvarn's own [clear], [ping] and [shutdown] *)
Definition hx_plugins : plugins (list collection) :=
  [ (B "clear", clear_hosts_plugin debug_str);
    (B "ping", ping_plugin);
    (B "shutdown", shutdown_plugin (fun _ s => s)) ].

Definition slash_q (p : str) : bool := match p with 47 :: 113 :: _ => true | _ => false end.
(** the key under which the harness's handler caches the page [path?query]: with the query for a path
    that starts with [/q] ([ServerCachePreference::QueryMatters]), else without ([Full]) *)
Definition page_key (p : str) (q : option str) : rkey :=
  if slash_q p then RPathQuery (utf8_encode p) (match q with Some q' => utf8_encode q' | None => [] end)
  else RPath (utf8_encode p).

Definition d_page (x : xval) : option (str * option str) :=
  match x with
  | XL [p; q] => match d_str p, d_option d_str q with Some p, Some q => Some (p, q) | _, _ => None end
  | _ => None
  end.
Record hostspec := { hs_default : bool; hs_name : str; hs_files : list str; hs_pages : list (str * option str) }.
Definition d_hostspec (x : xval) : option hostspec :=
  match x with
  | XL [d; n; f; p] =>
      match d_bool d, d_str n, d_list d_str f, d_list d_page p with
      | Some d, Some n, Some f, Some p => Some {| hs_default := d; hs_name := n; hs_files := f; hs_pages := p |}
      | _, _, _, _ => None
      end
  | _ => None
  end.
(** [HashMap::insert]: a later host of the same name replaces the earlier one (the run uses distinct
    names); the default is the host given to [CollectionBuilder::default] *)
Definition build_collection (specs : list hostspec) : collection :=
  {| c_hosts := map (fun s => {| h_name := hs_name s; h_files := Some (hs_files s);
                                 h_pages := Some (map (fun pq => page_key (fst pq) (snd pq)) (hs_pages s)) |}) (rev specs);
     c_default := match filter hs_default specs with s :: _ => Some (hs_name s) | [] => None end |}.

Definition snapshot (specs : list hostspec) (c : collection) : xval :=
  x_list (fun s => XL [x_list (fun k => x_bool (file_cached c (hs_name s) k)) (hs_files s);
                       x_list (fun pq => x_bool (page_cached c (hs_name s) (page_key (fst pq) (snd pq)))) (hs_pages s)]) specs.
(** how often the handler of each host runs when every page is requested once more: once per page
    that is no longer cached *)
Definition refetch_calls (specs : list hostspec) (c : collection) : xval :=
  x_list (fun s => XN (N.of_nat (length (filter (fun pq => negb (page_cached c (hs_name s) (page_key (fst pq) (snd pq)))) (hs_pages s))))) specs.

Fixpoint hosts_run (specs : list hostspec) (ls : listener * list collection) (reqs : list bytes) : list xval * list collection :=
  match reqs with
  | [] => ([], snd ls)
  | req :: r =>
      let (ls', rep) := serve hx_plugins ls req in
      let (out, fin) := hosts_run specs ls' r in
      (XL [x_reply rep; snapshot specs (match snd ls' with c :: _ => c | [] => build_collection [] end)] :: out, fin)
  end.

(** ctl.hosts : (hosts, requests) -> per request (reply, snapshot), then the handler calls of the re-fetch *)
Definition run_hosts (x : xval) : xval :=
  match x with
  | XL [hs; rs] =>
      match d_list d_hostspec hs, d_list d_B rs with
      | Some specs, Some reqs =>
          let (out, fin) := hosts_run specs (Listening, [build_collection specs]) reqs in
          XL (out ++ [refetch_calls specs (match fin with c :: _ => c | [] => build_collection [] end)])
      | _, _ => bad_input
      end
  | _ => bad_input
  end.

(** ctl.uri : bytes -> option (path, option query), the argument parser of [clear response] alone *)
Definition run_uri (x : xval) : xval :=
  match x with
  | XB b => x_option (fun pq => XL [XB (fst pq); x_option XB (snd pq)]) (uri_parts b)
  | _ => bad_input
  end.

Definition ctlhosts_table : list (bytes * (xval -> xval)) :=
  [ (B "ctl.hosts", run_hosts);
    (B "ctl.uri", run_uri) ].
