(** C05 — which vary rules a page gets ([Vary::rules_from_path] = [extensions::RuleSet::get] on [Host::vary]): the
    instantiation [rules_fix] of Model/Vary.v reads the host's rule set through the rule-set model of Model/RuleSet.v
    (C14).  Here: the comparator of the seeded change C05-9 ([sort_by_key(|rule| Reverse(rule.0.len()))]: a STABLE sort by
    descending length of the pattern text alone), for the witness that "exact before wildcard" cannot be dropped from
    [add_mut]'s comparator: the text of "<path>*" is one byte longer than the exact path, that of
    "<path minus its last byte>*" exactly as long.  Definitions only. *)
From KV Require Export Bytes RustInt Range CacheControl Cache Fixture CacheX RuleSet RustStd Vary.
From KV Require Import RuleSetStd.
Open Scope N_scope.

Definition conv_rule (v : vrule) : rule := let '(n, xf, d) := v in mkRule n (xform xf) d.

(** [insertion_sort_by] moves an element left only past elements it is strictly less than: a stable sort, as [sort_by_key] *)
Definition rule_cmp_len_only {R : Type} (a b : bytes * R) : comparison :=
  Nat.compare (length (fst b)) (length (fst a)).
Definition rs_add_len_only {R : Type} (rules : ruleset R) (path : bytes) (rule : R) : ruleset R :=
  insertion_sort_by rule_cmp_len_only (rs_unsorted_add rules path rule).
Definition rules_fix_len_only (vr : list (bytes * list vrule)) (p : bytes) : list rule :=
  map conv_rule (match rs_get (rs_build rs_add_len_only vr) p with Some rs => rs | None => [] end).

(** the page "/docs" varies on accept-language (exact rule); the wildcards vary on x-b *)
Definition w9_star : list (bytes * list vrule) :=
  [(B "/docs", [(B "accept-language", 0, B "sv")]); (B "/docs*", [(B "x-b", 0, B "k")])].
Definition w9_tie : list (bytes * list vrule) :=
  [(B "/doc*", [(B "x-b", 0, B "k")]); (B "/docs", [(B "accept-language", 0, B "sv")])].
Definition w9_req (lang : bytes) : request := mkReq M_GET (B "/docs") None [(B "accept-language", lang)] 1.

(** ---- the seeded change C03-11: [get_headers_for_request] with [.filter(|header| !header.is_empty())] — a header that is
    present with an EMPTY value gets the rule's default, like a missing one, instead of the transformation of "" ---- *)
Definition header_for_skip_empty (ref : rule) (r : request) : vheader :=
  match header_get (ru_name ref) r with
  | Some v => if to_str_ok v && negb (match v with [] => true | _ => false end)
              then (ru_name ref, ru_xf ref v) else (ru_name ref, ru_default ref)
  | None => (ru_name ref, ru_default ref)
  end.
(** accept-language, transformation "first-byte class" (the empty value is its own class "none"), default "lo" *)
Definition w10_rule : rule := mkRule (B "accept-language") (xform 1) (B "lo").
Definition w10_empty : request := mkReq M_GET (B "/greet") None [(B "accept-language", [])] 1.
Definition w10_absent : request := mkReq M_GET (B "/greet") None [] 1.
