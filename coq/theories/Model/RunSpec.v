(** C16 — the run order of the property as a DECLARATIVE predicate on the trace of one request.
    Nothing here mentions the drivers [resolve_*] / [serve] of Model/RunOrder.v or the order of the
    extension vectors: the registry is read as a MAP from priority to extension ([ref_get]) and from
    key to extension ([assoc]), and the clauses of the property are stated on the trace:

      - Prime: every registered Prime extension runs, each once, highest priority first, and each
        sees the URI as the earlier ones left it ([prime_spec]);
      - Prepare: the path-bound extension of the (override or request) path if there is one —
        no predicate-bound extension runs then —, else the predicate-bound extension of the
        highest priority whose predicate holds, else none ([prepare_spec]);
      - Present: the predicate-bound ones whose predicate holds (each once, highest priority first),
        the one bound to the path's file extension, then the registered extensions named on the
        body's first [!> ] line, in the order of the line with exactly its arguments; the body
        handed on is what follows the line ([present_spec], parametrised by the reading of the
        line — the token-level [spec_present] or what [PresentExtensions::new] returns);
      - Package, Post: every registered extension, each once, highest priority first, for EVERY
        response: also one served from the response cache, one to HEAD or another method, and
        an error response ([stage_spec] in [serve_spec]).

    From RunOrder.v only vocabulary is used: [event], the effect of one Prime answer
    ([prime_apply]), [prepare_key], [path_extension], the records, and the cache / sanitize /
    range functions (properties C03, C05, C09 are about those).
    Proofs/RunSpecProofs.v proves that the model satisfies this predicate ([serve_meets_spec])
    and that the predicate determines the answer and the trace ([serve_spec_unique]). *)
From KV Require Export Bytes Registry PresentLine RunOrder.
Open Scope N_scope.

Definition event_prio (e : event) : option Z :=
  match e with
  | EPrime i _ | EPrepareFn i _ | EPresentFn i | EPackage i | EPost i => Some i
  | _ => None
  end.

(** "all of them, each once, highest priority first": [ps] lists exactly the priorities bound
    in the map [l], in strictly descending order *)
Definition all_once_desc {X} (l : list (Z * X)) (ps : list Z) : Prop :=
  StronglySorted (fun a c => (c < a)%Z) ps /\ forall p, In p ps <-> ref_mem l p = true.

Definition stage_spec {X} (mk : Z -> event) (l : list (Z * X)) (tr : list event) : Prop :=
  exists ps, tr = map mk ps /\ all_once_desc l ps.

Section Spec.
Variable line : bytes -> option parsed.      (* the reading of a body's first line *)
Variable b : behaviours.

Inductive prime_chain : bytes * option bytes -> list event -> bytes * option bytes -> Prop :=
| PC_nil st : prime_chain st [] st
| PC_step st i pr tr st' :
    ref_get (b_prime b) i = Some pr ->
    prime_chain (prime_apply pr st) tr st' ->
    prime_chain st (EPrime i (fst st) :: tr) st'.
Definition prime_spec (st : bytes * option bytes) (tr : list event) (st' : bytes * option bytes) : Prop :=
  prime_chain st tr st' /\ exists ps, map event_prio tr = map Some ps /\ all_once_desc (b_prime b) ps.

Definition prepare_spec (st : bytes * option bytes) (resp : option presp) (tr : list event) : Prop :=
  let uri := fst st in
  match assoc (prepare_key st) (b_single b) with
  | Some h => resp = Some (h uri) /\ tr = [EPrepareSingle (prepare_key st) uri]
  | None =>
      (exists i pred h,
         ref_get (b_prepare_fn b) i = Some (pred, h) /\ pred uri = true /\
         (forall j pred' h', ref_get (b_prepare_fn b) j = Some (pred', h') -> pred' uri = true -> (j <= i)%Z) /\
         resp = Some (h uri) /\ tr = [EPrepareFn i uri])
      \/ ((forall j pred' h', ref_get (b_prepare_fn b) j = Some (pred', h') -> pred' uri = false) /\
          resp = None /\ tr = [])
  end.

Definition present_spec (uri body : bytes) (body' : bytes) (tr : list event) : Prop :=
  exists ps,
    StronglySorted (fun a c => (c < a)%Z) ps /\
    (forall p, In p ps <-> exists pred, ref_get (b_present_fn b) p = Some pred /\ pred uri = true) /\
    tr = map EPresentFn ps
         ++ (match path_extension (uri_path uri) with
             | Some e => if bmem e (b_present_file b) then [EPresentFile e] else []
             | None => []
             end)
         ++ map (fun e => EPresentInternal (fst e) (snd e))
                (filter (fun e => bmem (fst e) (b_present_internal b))
                        (match line body with Some p => p_entries p | None => [] end)) /\
    body' = match line body with Some p => p_body p | None => body end.
End Spec.

(** one request on a host with cache [c]: the answer as the client reads it, the trace, the cache afterwards *)
Definition serve_spec (line : bytes -> option parsed) (h : hostcfg) (c : cache) (r : creq)
           (out : (outcome (N * bytes) * list event) * cache) : Prop :=
  let b := h_b h in
  let s := sanitize r in
  exists tr1 st pk po,
    prime_spec b (q_uri r, None) tr1 st /\
    stage_spec EPackage (b_package b) pk /\
    stage_spec EPost (b_post b) po /\
    match cache_hit h c s (q_method r) (key_uri st) with
    | Some sb =>
        (* served from the cache: neither Prepare nor Present; every Package and Post all the same *)
        out = ((Ok (respond (q_method r) s 1 sb), tr1 ++ pk ++ po), c)
    | None =>
        exists status body pref tr2 body' tr3,
          match s with
          | SanOk _ => exists resp, prepare_spec b st resp tr2 /\ (status, body, pref) = response_of h (q_method r) (fst st) resp
          | SanUnsafe => (status, body, pref) = (400, [], 1) /\ tr2 = []
          | SanRange => (status, body, pref) = (416, [], 1) /\ tr2 = []
          end /\
          present_spec line b (fst st) body body' tr3 /\
          out = ((Ok (respond (q_method r) s pref (status, body')), tr1 ++ tr2 ++ tr3 ++ pk ++ po),
                 cache_store h c (q_method r) (key_uri st) pref status body')
    end.

(** a history of requests: the cache is threaded through *)
Inductive history_spec (line : bytes -> option parsed) (h : hostcfg)
  : cache -> list creq -> list (outcome (N * bytes) * list event) -> Prop :=
| HS_nil c : history_spec line h c [] []
| HS_cons c r rs reply c' replies :
    serve_spec line h c r (reply, c') ->
    history_spec line h c' rs replies ->
    history_spec line h c (r :: rs) (reply :: replies).

(** the reading of the line by the real parser (total: [present_never_panics]) *)
Definition parsed_line (d : bytes) : option parsed :=
  match present_parse d with Ok r => r | _ => None end.

(** a host whose five extension vectors are strictly descending (the registry's invariant) *)
Definition host_desc (b : behaviours) : Prop :=
  desc (b_prime b) /\ desc (b_prepare_fn b) /\ desc (b_present_fn b) /\ desc (b_package b) /\ desc (b_post b).
