(** C03 — what a cache key ([UriKey], [PathQuery], src/comprash.rs) says about the URI it was made from.
    Definitions only (the keys themselves are in Model/Cache.v: [key], [key_eqb] = the derived [PartialEq] / [Hash]
    of [UriKey] and [PathQuery], [path_query] = [PathQuery::from(&Uri)], [key_pq], [key_p]). *)
From KV Require Export Cache.
From KV Require Import PathSan.
Open Scope N_scope.

(** The query as far as the cache (and the handler contract) can tell: [PathQuery] stores path and query
    concatenated WITHOUT the '?' plus the position of the boundary, so "/a?" ([Uri::query] = Some "") and "/a"
    ([Uri::query] = None) are one key ([PathQuery::query] documents it: "never empty").  "QueryMatters: function of
    path and query" in the property text is read with this query. *)
Definition eff_query (r : request) : option bytes :=
  match rq_query r with
  | Some (c :: q) => Some (c :: q)
  | _ => None
  end.

(** the key comparison of the seeded change C03-3 (hand-written [PartialEq]/[Hash] of [PathQuery] that look at
    [string] only): used by the witness that [query_start] is needed *)
Definition key_eqb_string_only (a c : key) : bool :=
  match a, c with
  | KPath p, KPath q => beq p q
  | KPathQuery s _, KPathQuery t _ => beq s t
  | _, _ => false
  end.

Definition rq_get (path : bytes) (q : option bytes) : request := mkReq M_GET path q [] 1.

(** The key is made from the RAW path of the URI ([Uri::path], [rq_path]), not from the percent-decoded one: kvarn
    routes on the raw path ([Extensions::resolve_prepare] looks the Prepare extension up with [request.uri().path()],
    the rule sets and the content type guessed from the extension see the raw path too), so "/page" and "/p%61ge" are
    different requests and must have different keys.  The key comparison of the seeded change C03-6 ([PathQuery::from]
    stores [utils::percent_decode(uri.path())]): used by the witness that decoding the path merges such requests. *)
Definition decode_path (r : request) : request :=
  mkReq (rq_method r) (util_percent_decode (rq_path r)) (rq_query r) (rq_headers r) (rq_addr r).
Definition key_pq_decoded (r : request) : key := key_pq (decode_path r).
Definition key_p_decoded (r : request) : key := key_p (decode_path r).
