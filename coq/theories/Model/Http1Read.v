(** C07 — model of the HTTP/1 request reader (repaired code, see known-findings.txt):
    [kvarn_async::read::{read_more, read_headers, request}] (async/src/lib.rs),
    [kvarn_utils::parse::headers] (utils/src/parse.rs),
    [kvarn_utils::get_body_length_request] (utils/src/lib.rs),
    [kvarn::application::Http1Body::read_to_bytes] (src/application.rs) over
    [kvarn_async::read_to_end_or_max], all driven by a *read schedule*.
    The [http] crate's [Method::from_bytes], [HeaderName::from_bytes],
    [HeaderValue::from_maybe_shared] and [Uri::from_maybe_shared] (http 1.5.0) are
    transcribed as far as the reader observes them.
    Definitions only; proofs live in Proofs/Http1ReadProofs.v. *)
From KV Require Export Bytes RustInt.
Open Scope N_scope.

Definition CR : N := 13.
Definition LF : N := 10.
Definition SP : N := 32.
Definition COLON : N := 58.
Definition TAB : N := 9.
(** optional whitespace (RFC 9110 OWS): space or horizontal tab *)
Definition ows (c : N) : bool := (c =? SP) || (c =? TAB).

(** [kvarn_utils::parse::Error] classes, [io::ErrorKind] classes of the body reader. *)
Definition E_HTTP : N := 1.
Definition E_NOPATH : N := 2.
Definition E_UNEXPECTED_END : N := 3.
Definition E_TOO_LONG : N := 4.
Definition E_INVALID_PATH : N := 5.
Definition E_INVALID_METHOD : N := 6.
Definition E_INVALID_VERSION : N := 7.
Definition E_SYNTAX : N := 9.
Definition E_ILLEGAL_NAME : N := 10.
Definition E_ILLEGAL_VALUE : N := 11.
Definition E_NOHOST : N := 12.
Definition E_TIMEDOUT : N := 20.
Definition E_IO : N := 21.
(** Not a value the code can produce: the model's loops ran out of fuel. *)
Definition E_FUEL : N := 999.

Definition null {A} (l : list A) : bool := match l with [] => true | _ => false end.

(** ** The [http] crate, as far as it is observed *)

Definition is_alpha (c : N) : bool := ((65 <=? c) && (c <=? 90)) || ((97 <=? c) && (c <=? 122)).
(** METHOD_CHARS / HEADER_CHARS: the non-zero entries are the RFC 9110 [tchar]s. *)
Definition tchar (c : N) : bool :=
  is_alpha c || is_digit c ||
  existsb (N.eqb c) [33; 35; 36; 37; 38; 39; 42; 43; 45; 46; 94; 95; 96; 124; 126].

(** [Method::from_bytes(..).is_ok()] *)
Definition method_ok (m : bytes) : bool := negb (null m) && forallb tchar m.

(** [HeaderName::from_bytes]: non-empty, at most 65535 bytes, token characters; lower-cased. *)
Definition header_name (s : bytes) : option bytes :=
  if null s || (65535 <? N.of_nat (length s)) then None
  else if forallb tchar s then Some (lower s) else None.

(** [HeaderValue::from_maybe_shared(..).is_ok()]: [b >= 32 && b != 127 || b == '\t'] *)
Definition hvalue_byte (c : N) : bool := ((32 <=? c) && negb (c =? 127)) || (c =? 9).
Definition hvalue_ok (v : bytes) : bool := forallb hvalue_byte v.
(** [HeaderValue::to_str(..).is_ok()]: visible ASCII or TAB *)
Definition hv_to_str_ok (v : bytes) : bool := forallb (fun c => ((32 <=? c) && (c <? 127)) || (c =? 9)) v.

(** [HeaderMap] with [insert] (replace, entry keeps its place) and [get]. *)
Definition hmap := list (bytes * bytes).
Fixpoint hm_insert (k v : bytes) (m : hmap) : hmap :=
  match m with
  | [] => [(k, v)]
  | (k', v') :: r => if beq k' k then (k', v) :: r else (k', v') :: hm_insert k v r
  end.
Fixpoint hm_get (k : bytes) (m : hmap) : option bytes :=
  match m with
  | [] => None
  | (k', v') :: r => if beq k' k then Some v' else hm_get k r
  end.

(** URI_CHARS (uri/mod.rs): non-zero entries. *)
Definition uri_char (c : N) : bool :=
  (c =? 33) || ((35 <=? c) && (c <=? 36)) || ((38 <=? c) && (c <=? 59)) || (c =? 61) ||
  ((63 <=? c) && (c <=? 91)) || (c =? 93) || (c =? 95) || ((97 <=? c) && (c <=? 122)) || (c =? 126).

(** [validate_authority_bytes] (uri/authority.rs): the checks after the loop. *)
Definition auth_finish (end_ colons : nat) (sb eb pct : bool) (at_pos : nat) : option nat :=
  if negb (Bool.eqb sb eb) then None
  else if (1 <? colons)%nat then None
  else if (0 <? end_)%nat && (at_pos =? end_ - 1)%nat then None
  else if pct then None
  else Some end_.
Fixpoint auth_loop (len : nat) (rest : bytes) (i colons : nat) (sb eb pct : bool) (at_pos : nat)
  {struct rest} : option nat :=
  match rest with
  | [] => auth_finish len colons sb eb pct at_pos
  | b :: r =>
      if (b =? 47) || (b =? 63) || (b =? 35) then auth_finish i colons sb eb pct at_pos
      else if negb (uri_char b) then
        if b =? 37 then auth_loop len r (S i) colons sb eb true at_pos else None
      else if b =? 58 then
        if (8 <=? colons)%nat then None else auth_loop len r (S i) (S colons) sb eb pct at_pos
      else if b =? 91 then
        if pct || sb then None else auth_loop len r (S i) colons true eb pct at_pos
      else if b =? 93 then
        if negb sb || eb then None else auth_loop len r (S i) 0 sb true false at_pos
      else if b =? 64 then auth_loop len r (S i) 0 sb eb false i
      else auth_loop len r (S i) colons sb eb pct at_pos
  end.
Definition authority_end (s : bytes) : option nat :=
  match s with
  | [] => None
  | _ => auth_loop (length s) s 0 0 false false false (length s)
  end.

(** PATH_MAP / QUERY_MAP classes (uri/path.rs). *)
Definition path_valid (c : N) : bool :=
  (c =? 33) || ((36 <=? c) && (c <=? 59)) || (c =? 61) || ((64 <=? c) && (c <=? 95)) ||
  ((97 <=? c) && (c <=? 122)) || (c =? 124) || (c =? 126) || (c =? 34) || (c =? 123) || (c =? 125).
Definition query_valid (c : N) : bool :=
  (c =? 33) || ((36 <=? c) && (c <=? 59)) || (c =? 61) || ((63 <=? c) && (c <=? 126)).
Definition is_high (c : N) : bool := 128 <=? c.

(** [scan_path_and_query]: the query up to a fragment, the path up to '?' or '#'. *)
Fixpoint scan_query (s : bytes) : option bytes :=
  match s with
  | [] => Some []
  | c :: r =>
      if c =? 35 then Some []
      else if query_valid c || is_high c then option_map (cons c) (scan_query r)
      else None
  end.
Fixpoint scan_path (s : bytes) : option (bytes * option bytes) :=
  match s with
  | [] => Some ([], None)
  | c :: r =>
      if c =? 63 then option_map (fun q => ([], Some q)) (scan_query r)
      else if c =? 35 then Some ([], None)
      else if path_valid c || is_high c then
        option_map (fun pq => (c :: fst pq, snd pq)) (scan_path r)
      else None
  end.

(** [str::from_utf8(..).is_ok()] *)
Definition cont (c : N) : bool := (128 <=? c) && (c <=? 191).
Fixpoint utf8_valid (s : bytes) : bool :=
  match s with
  | [] => true
  | a :: r =>
      if a <? 128 then utf8_valid r
      else if (194 <=? a) && (a <=? 223) then
        match r with b :: r' => cont b && utf8_valid r' | _ => false end
      else if (224 <=? a) && (a <=? 239) then
        match r with
        | b :: c :: r' =>
            (if a =? 224 then (160 <=? b) && (b <=? 191)
             else if a =? 237 then (128 <=? b) && (b <=? 159) else cont b)
            && cont c && utf8_valid r'
        | _ => false
        end
      else if (240 <=? a) && (a <=? 244) then
        match r with
        | b :: c :: d :: r' =>
            (if a =? 240 then (144 <=? b) && (b <=? 191)
             else if a =? 244 then (128 <=? b) && (b <=? 143) else cont b)
            && cont c && cont d && utf8_valid r'
        | _ => false
        end
      else false
  end.

(** [Uri::from_maybe_shared(scheme "://" host target)] for scheme http / https, observed
    through [uri.authority()], [uri.path()], [uri.query()]. *)
Definition parse_uri (https : bool) (host target : bytes) : option (bytes * bytes * option bytes) :=
  let s := host ++ target in
  if 65534 <? N.of_nat ((if https then 8 else 7) + length s) then None else
  match authority_end s with
  | None => None
  | Some e =>
      if (e =? 0)%nat then None else
      let auth := firstn e s in
      match skipn e s with
      | [] => Some (auth, [47], None)
      | pq =>
          match scan_path pq with
          | None => None
          | Some (p, q) =>
              if utf8_valid (p ++ match q with Some q' => 63 :: q' | None => [] end)
              then Some (auth, (if null p then [47] else p), q)
              else None
          end
      end
  end.

(** [uri::Authority::try_from(host).is_ok()]: the whole value is an authority *)
Definition authority_ok (host : bytes) : bool :=
  match authority_end host with Some e => (e =? length host)%nat | None => false end.
(** the Host value that becomes the authority of the URI: only one which is an authority *)
Definition usable_host (h : option bytes) : option bytes :=
  match h with Some h' => if authority_ok h' then Some h' else None | None => None end.

(** [Uri::from_maybe_shared(target)] for a target in origin form (it starts with '/'):
    [PathAndQuery::from_shared] — a URI without scheme and authority. *)
Definition origin_form (target : bytes) : bool := match target with c :: _ => c =? 47 | [] => false end.
Definition parse_origin_form (target : bytes) : option (bytes * option bytes) :=
  if 65534 <? N.of_nat (length target) then None else
  match scan_path target with
  | None => None
  | Some (p, q) =>
      if utf8_valid (p ++ match q with Some q' => 63 :: q' | None => [] end)
      then Some ((if null p then [47] else p), q)
      else None
  end.

(** The URI of a request: scheme "://" host target when there is a usable Host value, the origin-form
    target alone when there is none; observed through [uri.authority()], [uri.path()], [uri.query()]. *)
Definition uri_of (https : bool) (host : option bytes) (target : bytes) : option (option bytes * bytes * option bytes) :=
  match host with
  | Some h => match parse_uri https h target with Some (a, p, q) => Some (Some a, p, q) | None => None end
  | None => match parse_origin_form target with Some (p, q) => Some (None, p, q) | None => None end
  end.
(** without a usable Host value a target that is not in origin form is refused ([NoHost]) *)
Definition no_host (host : option bytes) (target : bytes) : bool :=
  match host with Some _ => false | None => negb (origin_form target) end.
(** what the request reader makes of Host value (header or default host's name) and target: [None] = refused *)
Definition request_uri (https : bool) (hostv : option bytes) (target : bytes) : option (option bytes * bytes * option bytes) :=
  if no_host (usable_host hostv) target then None else uri_of https (usable_host hostv) target.

(** ** [kvarn_utils::parse::headers] *)

Fixpoint position_non_ows (l : bytes) : option nat :=
  match l with
  | [] => None
  | c :: r => if ows c then option_map S (position_non_ows r) else Some O
  end.
(** [rest.iter().position(|b| b != ' ' && b != '\t').unwrap_or(0) + pos] with [rest = &bytes[pos..]] *)
Definition value_start_from (all : bytes) (pos : nat) : nat :=
  match position_non_ows (skipn pos all) with Some i => (i + pos)%nat | None => pos end.
(** [matches!(bytes.get(pos + 1), Some(SPACE | TAB))] *)
Definition next_is_ows (all : bytes) (pos : nat) : bool :=
  match nth_error all (S pos) with Some c => ows c | None => false end.
(** [while value_end > value_start && matches!(bytes[value_end - 1], SPACE | TAB) { value_end -= 1 }] *)
Fixpoint trim_end (all : bytes) (vs ve : nat) : nat :=
  match ve with
  | O => O
  | S p =>
      if (vs <? ve)%nat && match nth_error all p with Some c => ows c | None => false end
      then trim_end all vs p else ve
  end.
(** [pos > 0 && bytes[pos - 1] == CR] *)
Definition prev_is_cr (all : bytes) (pos : nat) : bool :=
  match pos with
  | O => false
  | S p => match nth_error all p with Some c => c =? CR | None => false end
  end.

(** The loop of [parse::headers]; [inval] = stage is [HeaderValue]; [lf ns ne vs] =
    [lf_in_row header_name_start name_end value_start]; result [(headers, header_end)]. *)
Fixpoint hdr_loop (all rest : bytes) (pos : nat) (inval : bool) (lf ns ne vs : nat) (m : hmap)
  {struct rest} : outcome (hmap * nat) :=
  match rest with
  | [] => Ok (m, pos)
  | byte :: rest' =>
      if byte =? CR then hdr_loop all rest' (S pos) inval lf ns ne vs m
      else if (byte =? LF) && (S lf =? 2)%nat then Ok (m, S pos)
      else
        let lf' := if byte =? LF then S lf else O in
        if inval then
          if byte =? LF then
            match slice_get ns ne all with
            | None => Err E_ILLEGAL_NAME
            | Some raw =>
                match header_name raw with
                | None => Err E_ILLEGAL_NAME
                | Some name =>
                    let value_end := trim_end all vs (if prev_is_cr all pos then (pos - 1)%nat else pos) in
                    match slice_chk vs value_end all with
                    | Ok v =>
                        if hvalue_ok v
                        then hdr_loop all rest' (S pos) false lf' (S pos) ne vs (hm_insert name v m)
                        else Err E_ILLEGAL_VALUE
                    | Err e => Err e
                    | Panic => Panic
                    end
                end
            end
          else hdr_loop all rest' (S pos) true lf' ns ne vs m
        else if byte =? COLON then
          if next_is_ows all pos
          then hdr_loop all rest' (S pos) false lf' ns pos vs m
          else hdr_loop all rest' (S pos) true lf' ns pos (S pos) m
        else if ows byte then
          hdr_loop all rest' (S pos) true lf' ns ne (value_start_from all pos) m
        else hdr_loop all rest' (S pos) false lf' ns ne vs m
  end.
Definition parse_headers (b : bytes) : outcome (hmap * nat) := hdr_loop b b 0 false 0 0 0 0 [].

(** ** [kvarn_async::read::request], the part after [read_headers] *)

Definition v09 : bytes := Eval vm_compute in B "HTTP/0.9".
Definition v10 : bytes := Eval vm_compute in B "HTTP/1.0".
Definition v11 : bytes := Eval vm_compute in B "HTTP/1.1".
Definition v2 : bytes := Eval vm_compute in B "HTTP/2".
Definition v3 : bytes := Eval vm_compute in B "HTTP/3".
(** [parse::version] *)
Definition version_code (v : bytes) : option N :=
  if beq v v09 then Some 9 else if beq v v10 then Some 10 else if beq v v11 then Some 11
  else if beq v v2 then Some 20 else if beq v v3 then Some 30 else None.

Inductive rstage := RMethod | RPath | RVersion | RHeader.
Record scan := mk_scan {
  sc_method : bytes; sc_ps : nat; sc_pe : nat; sc_ver : bytes; sc_headers : hmap; sc_end : nat }.

(** The [for (pos, byte) in buffer] loop; [ps pe] = [path_start path_end]; [sc_end] = [header_end]. *)
Fixpoint req_loop (all rest : bytes) (pos : nat) (st : rstage) (method : bytes) (ps pe : nat)
  (ver : bytes) (lf : nat) {struct rest} : outcome scan :=
  match rest with
  | [] => Ok (mk_scan method ps pe ver [] pos)
  | byte :: rest' =>
      if byte =? CR then req_loop all rest' (S pos) st method ps pe ver lf
      else if (byte =? LF) && (S lf =? 2)%nat then Ok (mk_scan method ps pe ver [] (S (S pos)))
      else
        let lf' := if byte =? LF then S lf else O in
        match st with
        | RMethod =>
            if (byte =? SP) || (length method =? 7)%nat then
              match slice_chk 0 (length method) all with
              | Ok m0 =>
                  if method_ok m0 then req_loop all rest' (S pos) RPath method ps pe ver lf'
                  else Err E_INVALID_METHOD
              | Err e => Err e
              | Panic => Panic
              end
            else req_loop all rest' (S pos) RMethod (method ++ [byte]) ps pe ver lf'
        | RPath =>
            let ps' := if (ps =? 0)%nat then pos else ps in
            if byte =? SP then req_loop all rest' (S pos) RVersion method ps' pos ver lf'
            else req_loop all rest' (S pos) RPath method ps' pe ver lf'
        | RVersion =>
            if (byte =? LF) || (length ver =? 8)%nat then
              match version_code ver with
              | None => Err E_INVALID_VERSION
              | Some _ => req_loop all rest' (S pos) RHeader method ps pe ver lf'
              end
            else req_loop all rest' (S pos) RVersion method ps pe (ver ++ [byte]) lf'
        | RHeader =>
            (* parse::headers(&buffer.slice(header_end - 1..)) with header_end = pos + 1 *)
            match slice_chk pos (length all) all with
            | Ok hb =>
                match parse_headers hb with
                | Ok (h, e) => Ok (mk_scan method ps pe ver h (S pos + e))
                | Err e => Err e
                | Panic => Panic
                end
            | Err e => Err e
            | Panic => Panic
            end
        end
  end.

Definition host_name : bytes := Eval vm_compute in B "host".
Definition content_length_name : bytes := Eval vm_compute in B "content-length".

Record request := mk_request {
  q_method : bytes; q_path : bytes; q_query : option bytes; q_version : N;
  q_headers : hmap; q_authority : option bytes; q_early : bytes }.

(** What [request] does with the loop's variables.  (After the repairs 2fb2d8c / cdbcb3a of C15: a Host
    value that is not an authority is not used for the URI, and without a usable Host value the
    origin-form target is the URI.) *)
Definition req_finish (https : bool) (dh : option bytes) (all : bytes) (s : scan) : outcome request :=
  if (sc_pe s <=? sc_ps s)%nat then Err E_NOPATH else
  let host := usable_host (match hm_get host_name (sc_headers s) with Some h => Some h | None => dh end) in
  obind (slice_chk (sc_ps s) (sc_pe s) all) (fun target =>
  if no_host host target then Err E_NOHOST else
  if negb (method_ok (sc_method s)) then Err E_INVALID_METHOD else
  match uri_of https host target with
  | None => Err E_INVALID_PATH
  | Some (auth, path, query) =>
      match version_code (sc_ver s) with
      | None => Err E_INVALID_VERSION
      | Some v =>
          match sc_end s with
          | O => Panic                                   (* header_end - 1 *)
          | S body_start =>
              obind (slice_chk body_start (length all) all) (fun early =>
              Ok (mk_request (sc_method s) path query v (sc_headers s) auth early))
          end
      end
  end).

Definition parse_request (https : bool) (dh : option bytes) (buffer : bytes) : outcome request :=
  obind (req_loop buffer buffer 0 RMethod [] 0 0 [] 0) (req_finish https dh buffer).

(** ** The connection as a read schedule *)

Record reader := mk_reader { rd_data : bytes; rd_sched : list nat }.
Inductive rd_result := RdOk (got : bytes) (r : reader) | RdStall | RdErr.
(** [mode]: what the peer does once the data or the schedule is used up:
    0 = closes (0-byte read), 1 = stalls (the read pends until a timeout), 2 = I/O error. *)
Definition rd_end (mode : N) (r : reader) : rd_result :=
  if mode =? 0 then RdOk [] r else if mode =? 1 then RdStall else RdErr.
(** One [read] into a window of [room] bytes. *)
Definition rd_read (mode : N) (r : reader) (room : nat) : rd_result :=
  if (room =? 0)%nat then RdOk [] r else
  match rd_data r, rd_sched r with
  | [], _ => rd_end mode r
  | _, [] => rd_end mode r
  | d, b :: s =>
      let n := Nat.min b (Nat.min room (length d)) in
      RdOk (firstn n d) (mk_reader (skipn n d) (if (n =? b)%nat then s else (b - n)%nat :: s))
  end.

Definition sum_sched (s : list nat) : nat := fold_right Nat.add O s.
(** Every burst of a schedule delivers at least one byte (a 0-byte read is how a peer says EOF,
    which is what [mode] 0 is for). *)
Definition sched_pos (s : list nat) : Prop := Forall (fun b => (0 < b)%nat) s.
(** How many bytes the connection will still deliver. *)
Definition avail (r : reader) : nat := Nat.min (sum_sched (rd_sched r)) (length (rd_data r)).

Definition start_tokens : list bytes := Eval vm_compute in
  [B "GET"; B "HEAD"; B "POST"; B "PUT"; B "DELETE"; B "TRACE"; B "OPTIONS"; B "CONNECT"; B "PATCH";
   B "COPY"; B "LOCK"; B "MKCOL"; B "MOVE"; B "PROPFIND"; B "PROPPATCH"; B "UNLOCK";
   B "HTTP/0.9"; B "HTTP/1.0"; B "HTTP/1.1"; B "HTTP/2"; B "HTTP/3"].
(** the last clause of [utils::valid_method]: the first space is among the first eight bytes and
    what precedes it is a method token ([Method::from_bytes(..).is_ok()]: non-empty, token bytes) *)
Fixpoint ext_method (fuel : nat) (seen : bool) (b : bytes) {struct b} : bool :=
  match b with
  | [] => false
  | c :: r =>
      if c =? SP then seen
      else match fuel with O => false | S f => tchar c && ext_method f true r end
  end.
(** [utils::valid_method(b) || utils::valid_version(b)] *)
Definition valid_start (b : bytes) : bool :=
  existsb (fun t => starts_with t b) start_tokens || ext_method 7 false b.

(** [contains_two_newlines], started with [in_row]. *)
Fixpoint ctn (in_row : bool) (b : bytes) : bool :=
  match b with
  | [] => false
  | c :: r =>
      if c =? LF then (if in_row then true else ctn true r)
      else if c =? CR then ctn in_row r
      else ctn false r
  end.
Definition contains_two_newlines (b : bytes) : bool := ctn false b.

Section Growth.
  (** [BytesMut::reserve] when it has to reallocate: [grow cap len additional] is the new
      capacity.  The [bytes] crate guarantees [len + additional <= grow cap len additional]
      (today: [max (2 * cap) (len + additional)]); the theorems hold for every such [grow]. *)
  Variable grow : nat -> nat -> nat -> nat.

  Definition reserve (cap len additional : nat) : nat :=
    if (additional <=? cap - len)%nat then cap else grow cap len additional.

  (** [read_more]: the new capacity and the read window [&mut buffer[read..end]]. *)
  Definition read_more_cap (max_len len cap : nat) : nat :=
    if (cap <? len + 512)%nat then
      if (max_len <? len + 512)%nat then reserve cap len (len + 512 - max_len)
      else reserve cap len 512
    else cap.

  (** [read_headers]: [Ok (buffer, reader)] or the error. *)
  Fixpoint read_headers (fuel : nat) (mode : N) (max_len : nat) (buf : bytes) (cap : nat) (r : reader)
    : outcome (bytes * reader) :=
    match fuel with
    | O => Err E_FUEL
    | S f =>
        let len := length buf in
        if (max_len <=? len)%nat then Err E_TOO_LONG else
        let cap' := read_more_cap max_len len cap in
        match rd_read mode r (Nat.min cap' max_len - len) with
        | RdStall => Err E_UNEXPECTED_END
        | RdErr => Err E_UNEXPECTED_END
        | RdOk got r' =>
            if null got then Err E_UNEXPECTED_END else
            let buf' := buf ++ got in
            let complete := contains_two_newlines buf' in
            if (complete || (9 <=? length buf')%nat) && negb (valid_start buf') then Err E_SYNTAX
            else if complete then Ok (buf', r')
            else read_headers f mode max_len buf' cap' r'
        end
    end.

  (** [read::request] *)
  Definition read_request (mode : N) (https : bool) (dh : option bytes) (max_len : nat) (r : reader)
    : outcome (request * reader) :=
    obind (read_headers (S (length (rd_data r))) mode max_len [] 512 r) (fun br =>
    obind (parse_request https dh (fst br)) (fun q => Ok (q, snd br))).

  (** ** [get_body_length_request], [Http1Body::read_to_bytes] *)

  Definition m_get : bytes := Eval vm_compute in B "GET".
  Definition m_head : bytes := Eval vm_compute in B "HEAD".
  Definition m_options : bytes := Eval vm_compute in B "OPTIONS".
  Definition m_connect : bytes := Eval vm_compute in B "CONNECT".
  Definition m_trace : bytes := Eval vm_compute in B "TRACE".
  Definition bodyless (m : bytes) : bool :=
    beq m m_get || beq m m_head || beq m m_options || beq m m_connect || beq m m_trace.
  Definition body_length (method : bytes) (h : hmap) : N :=
    if bodyless method then 0 else
    match hm_get content_length_name h with
    | None => 0
    | Some v => if hv_to_str_ok v then match parse_u64 v with Some n => n | None => 0 end else 0
    end.

  (** [reserve] inside [read_to_end_or_max] (called with [buffer.len() == buffer.capacity()]). *)
  Definition rtem_reserve (read cap : nat) : nat :=
    if (cap - read <? 32)%nat then
      let hi := Nat.max (cap * 2 / 3) 1024 in
      let additional := if (hi <? cap)%nat then hi else if (cap <? 1024)%nat then 1024%nat else cap in
      grow cap cap additional
    else cap.

  (** The loop of [read_to_end_or_max] reading from [(&mut body).take(take_left)]. *)
  Fixpoint rtem_loop (fuel : nat) (mode : N) (max_len : nat) (buf : bytes) (cap take_left : nat) (r : reader)
    : outcome (bytes * reader) :=
    match fuel with
    | O => Err E_FUEL
    | S f =>
        if (take_left =? 0)%nat then Ok (buf, r) else
        match rd_read mode r (Nat.min (cap - length buf) take_left) with
        | RdStall => Err E_TIMEDOUT
        | RdErr => Err E_IO
        | RdOk got r' =>
            if null got then Ok (buf, r') else
            let buf' := buf ++ got in
            if (max_len <=? length buf')%nat then Ok (buf', r')
            else rtem_loop f mode max_len buf' (rtem_reserve (length buf') cap) (take_left - length got) r'
        end
    end.

  Definition read_to_bytes (mode : N) (early : bytes) (content_length limit : N) (r : reader)
    : outcome (bytes * reader) :=
    let len := N.to_nat (N.min content_length limit) in
    if (len =? 0)%nat then Ok ([], r) else
    let buf := firstn len early in
    let left := (len - length buf)%nat in
    if (len <=? length buf)%nat then Ok (buf, r) else
    rtem_loop (S left) mode len buf (rtem_reserve (length buf) len) left r.

  (** Head, then body: what a handler that calls [read_to_bytes(limit)] sees. *)
  Record served := mk_served { sv_request : request; sv_body : outcome bytes; sv_consumed : nat }.
  Definition serve (mode : N) (https : bool) (dh : option bytes) (max_len : nat) (limit : N)
    (stream : bytes) (sched : list nat) : outcome served :=
    obind (read_request mode https dh max_len (mk_reader stream sched)) (fun qr =>
    let q := fst qr in
    match read_to_bytes mode (q_early q) (body_length (q_method q) (q_headers q)) limit (snd qr) with
    | Ok (b, r') => Ok (mk_served q (Ok b) (length stream - length (rd_data r')))
    | Err e => Ok (mk_served q (Err e) 0)
    | Panic => Panic
    end).

  (** ** [Http1Body] as the state machine it is: [AsyncRead::poll_read], [read_to_bytes], [drain] *)

  (** [bytes] (read with the head), [offset], [content_length], [unread] *)
  Record hbody := mk_hbody { hb_bytes : bytes; hb_offset : nat; hb_cl : nat; hb_unread : nat }.
  (** [Http1Body::new] *)
  Definition hb_new (early : bytes) (cl : nat) : hbody := mk_hbody early 0 cl (cl - length early).

  (** one [read(&mut buf[..window])] = one [poll_read]: the bytes it hands out, the new state, the connection *)
  Definition hb_read (mode : N) (b : hbody) (r : reader) (window : nat) : outcome (bytes * hbody * reader) :=
    let left := (hb_cl b - hb_offset b)%nat in
    if (left =? 0)%nat then Ok ([], b, r)
    else if (hb_offset b <? length (hb_bytes b))%nat then
      let n := Nat.min (Nat.min window (length (hb_bytes b) - hb_offset b)) left in
      Ok (firstn n (skipn (hb_offset b) (hb_bytes b)),
          mk_hbody (hb_bytes b) (hb_offset b + n) (hb_cl b) (hb_unread b), r)
    else
      match rd_read mode r (Nat.min window left) with
      | RdStall => Err E_TIMEDOUT
      | RdErr => Err E_IO
      | RdOk got r' =>
          Ok (got, mk_hbody (hb_bytes b) (hb_offset b + length got) (hb_cl b) (hb_unread b - length got), r')
      end.

  (** [drain]: the body is given up ([content_length = 0]: later reads get nothing); discards [unread] bytes in
      windows of at most 4096; a connection that ends first is an error ([UnexpectedEof], an I/O error class) *)
  Fixpoint drain_loop (fuel : nat) (mode : N) (unread : nat) (r : reader) : outcome reader :=
    match fuel with
    | O => Err E_FUEL
    | S f =>
        if (unread =? 0)%nat then Ok r else
        match rd_read mode r (Nat.min (N.to_nat 4096) unread) with
        | RdStall => Err E_TIMEDOUT
        | RdErr => Err E_IO
        | RdOk got r' => if null got then Err E_IO else drain_loop f mode (unread - length got) r'
        end
    end.
  Definition hb_drain (mode : N) (b : hbody) (r : reader) : outcome (hbody * reader) :=
    match drain_loop (S (hb_unread b)) mode (hb_unread b) r with
    | Ok r' => Ok (mk_hbody (hb_bytes b) (hb_offset b) 0 0, r')
    | Err e => Err e
    | Panic => Panic
    end.

  (** [read_to_bytes(limit)] in any state: what is left of the body ([content_length - offset], capped), first from
      the bytes read with the head, then from the connection; afterwards [content_length = 0] ("don't return anything
      next time we are called") and [unread] is less what was taken from the connection.  With nothing left or
      [limit = 0] it returns at once and changes nothing. *)
  Definition hb_read_to_bytes (mode : N) (b : hbody) (r : reader) (limit : N) : outcome (bytes * hbody * reader) :=
    let left := (hb_cl b - hb_offset b)%nat in
    if (N.to_nat (N.min (N.of_nat left) limit) =? 0)%nat then Ok ([], b, r) else
    match read_to_bytes mode (skipn (hb_offset b) (hb_bytes b)) (N.of_nat left) limit r with
    | Ok (body, r') =>
        let taken := (length (rd_data r) - length (rd_data r'))%nat in
        Ok (body, mk_hbody (hb_bytes b) (hb_offset b + length body) 0 (hb_unread b - taken), r')
    | Err e => Err e
    | Panic => Panic
    end.

  (** a handler's calls, in order; the first error ends the run *)
  Inductive hop := HRead (window : nat) | HRtb (limit : N) | HDrain.
  Fixpoint hb_run (mode : N) (b : hbody) (r : reader) (ops : list hop) : list (outcome bytes) * reader :=
    match ops with
    | [] => ([], r)
    | op :: ops' =>
        match (match op with
               | HRead w => hb_read mode b r w
               | HRtb limit => hb_read_to_bytes mode b r limit
               | HDrain => match hb_drain mode b r with Ok (b', r') => Ok ([], b', r') | Err e => Err e | Panic => Panic end
               end) with
        | Ok (got, b', r') => let (outs, rf) := hb_run mode b' r' ops' in (Ok got :: outs, rf)
        | Err e => ([Err e], r)
        | Panic => ([Panic], r)
        end
    end.
  (** the reads alone: what a sequence of [read] calls with the given windows hands out *)
  Fixpoint hb_reads (mode : N) (b : hbody) (r : reader) (ws : list nat) : bytes * hbody * reader * option N :=
    match ws with
    | [] => ([], b, r, None)
    | w :: ws' =>
        match hb_read mode b r w with
        | Ok (got, b', r') => let '(data, bf, rf, e) := hb_reads mode b' r' ws' in (got ++ data, bf, rf, e)
        | Err e => ([], b, r, Some e)
        | Panic => ([], b, r, Some E_FUEL)
        end
    end.
End Growth.

(** [Vec]'s amortised growth as [BytesMut::reserve] uses it. *)
Definition vec_grow (cap len additional : nat) : nat :=
  Nat.max (Nat.max (2 * cap) (len + additional)) 8.

(** What [BytesMut::reserve] promises. *)
Definition grow_ok (grow : nat -> nat -> nat -> nat) : Prop :=
  forall cap len additional, (len + additional <= grow cap len additional)%nat.

(** ** Specification of the reader: functions of the delivered byte string alone
    (no schedule, no capacities: segmentation-blind by construction) *)

(** Length of the shortest prefix that [contains_two_newlines], started with [in_row]. *)
Fixpoint bl_end (in_row : bool) (b : bytes) : option nat :=
  match b with
  | [] => None
  | c :: r =>
      if c =? LF then (if in_row then Some 1%nat else option_map S (bl_end true r))
      else if c =? CR then option_map S (bl_end in_row r)
      else option_map S (bl_end false r)
  end.
Definition blank_end (b : bytes) : option nat := bl_end false b.

(** The head phase on the delivered bytes [ds]: where the head ends, or the error. *)
Definition head_fail (max_len : nat) (ds : bytes) : outcome nat :=
  if (9 <=? Nat.min (length ds) max_len)%nat && negb (valid_start ds) then Err E_SYNTAX
  else if (max_len <=? length ds)%nat then Err E_TOO_LONG else Err E_UNEXPECTED_END.
Definition head_spec (max_len : nat) (ds : bytes) : outcome nat :=
  match blank_end ds with
  | Some k => if (k <=? max_len)%nat then (if valid_start ds then Ok k else Err E_SYNTAX) else head_fail max_len ds
  | None => head_fail max_len ds
  end.

(** The body phase: [need] bytes of [early ++ ds], where [ds] is what the connection still delivers. *)
Definition body_spec (mode : N) (early : bytes) (content_length limit : N) (ds : bytes) : outcome bytes :=
  let need := N.to_nat (N.min content_length limit) in
  if (need <=? length early + length ds)%nat then Ok (firstn need (early ++ ds))
  else if mode =? 0 then Ok (early ++ ds) else if mode =? 1 then Err E_TIMEDOUT else Err E_IO.

(** What a handler observes (everything but how many body bytes happened to arrive with the head). *)
Record view := mk_view {
  w_method : bytes; w_path : bytes; w_query : option bytes; w_version : N;
  w_headers : hmap; w_authority : option bytes; w_body : outcome bytes }.
Definition view_of (s : served) : view :=
  let q := sv_request s in
  mk_view (q_method q) (q_path q) (q_query q) (q_version q) (q_headers q) (q_authority q) (sv_body s).

Definition result_view (o : outcome served) : outcome view :=
  match o with Ok sv => Ok (view_of sv) | Err e => Err e | Panic => Panic end.

(** The whole exchange as a function of the delivered bytes: head end, the parser on exactly
    the head, the body from what follows. *)
Definition serve_spec (mode : N) (https : bool) (dh : option bytes) (max_len : nat) (limit : N) (ds : bytes)
  : outcome view :=
  obind (head_spec max_len ds) (fun k =>
  obind (parse_request https dh (firstn k ds)) (fun q =>
  Ok (mk_view (q_method q) (q_path q) (q_query q) (q_version q) (q_headers q) (q_authority q)
              (body_spec mode [] (body_length (q_method q) (q_headers q)) limit (skipn k ds))))).

(** ** Specification: the request grammar and its printer *)

Record hline := mk_hline { hl_name : bytes; hl_sp : nat; hl_value : bytes }.
Record greq := mk_greq { g_method : bytes; g_target : bytes; g_v11 : bool; g_headers : list hline }.

Definition crlf : bytes := [CR; LF].
Definition print_hline (h : hline) : bytes :=
  hl_name h ++ [COLON] ++ repeat SP (hl_sp h) ++ hl_value h ++ crlf.
Definition print_head (g : greq) : bytes :=
  g_method g ++ [SP] ++ g_target g ++ [SP] ++ (if g_v11 g then v11 else v10) ++ crlf
  ++ concat (map print_hline (g_headers g)) ++ crlf.

(** The same head with any mix of CRLF and bare-LF line ends (the code accepts both). *)
Definition eol (lf : bool) : bytes := if lf then [LF] else [CR; LF].
Definition print_hline_e (lf : bool) (h : hline) : bytes :=
  hl_name h ++ [COLON] ++ repeat SP (hl_sp h) ++ hl_value h ++ eol lf.
Fixpoint print_hlines_e (fl : list bool) (hs : list hline) : bytes :=
  match hs with
  | [] => []
  | h :: hs' => print_hline_e (hd false fl) h ++ print_hlines_e (tl fl) hs'
  end.
(** [l0]: the request line ends in a bare LF; [fl]: which header lines do (missing flags = CRLF);
    [lb]: the blank line is a bare LF. *)
Definition print_head_e (l0 : bool) (fl : list bool) (lb : bool) (g : greq) : bytes :=
  g_method g ++ [SP] ++ g_target g ++ [SP] ++ (if g_v11 g then v11 else v10) ++ eol l0
  ++ print_hlines_e fl (g_headers g) ++ eol lb.

(** The general form of a header line (RFC 9110 5.5: [field-name ":" OWS field-value OWS]): after the [hl_sp] spaces
    any further optional whitespace [d_pre] (spaces and tabs), after the value optional whitespace [d_post], and the
    line ends in CRLF or ([d_lf]) in a bare LF. *)
Record deco := mk_deco { d_pre : bytes; d_post : bytes; d_lf : bool }.
Definition deco0 : deco := mk_deco [] [] false.
Definition print_hline_d (d : deco) (h : hline) : bytes :=
  hl_name h ++ [COLON] ++ (repeat SP (hl_sp h) ++ d_pre d) ++ hl_value h ++ d_post d ++ eol (d_lf d).
(** [ds]: one decoration per header line (missing ones = [deco0]: nothing added, CRLF) *)
Fixpoint print_hlines_d (ds : list deco) (hs : list hline) : bytes :=
  match hs with
  | [] => []
  | h :: hs' => print_hline_d (hd deco0 ds) h ++ print_hlines_d (tl ds) hs'
  end.
Definition print_head_d (l0 : bool) (ds : list deco) (lb : bool) (g : greq) : bytes :=
  g_method g ++ [SP] ++ g_target g ++ [SP] ++ (if g_v11 g then v11 else v10) ++ eol l0
  ++ print_hlines_d ds (g_headers g) ++ eol lb.
(** whitespace only; whitespace after an empty value is whitespace before it *)
Definition deco_ok (d : deco) (h : hline) : bool :=
  forallb ows (d_pre d) && forallb ows (d_post d) && (negb (null (hl_value h)) || null (d_post d)).
Fixpoint decos_ok (ds : list deco) (hs : list hline) : bool :=
  match hs with
  | [] => true
  | h :: hs' => deco_ok (hd deco0 ds) h && decos_ok (tl ds) hs'
  end.
Definition deco_of_lf (lf : bool) : deco := mk_deco [] [] lf.

Definition plain (c : N) : bool := negb ((c =? SP) || (c =? CR) || (c =? LF)).
(** a field value (RFC 9110 5.5): visible bytes, obs-text (>= 128), SP and HTAB inside; it neither starts nor ends
    with whitespace (that would be the optional whitespace around it) *)
Fixpoint last_not_ows (v : bytes) : bool :=
  match v with
  | [] => true
  | [c] => negb (ows c)
  | _ :: r => last_not_ows r
  end.
Definition value_ok (v : bytes) : bool :=
  forallb hvalue_byte v && match v with c :: _ => negb (ows c) | [] => true end && last_not_ows v.
Definition name_ok (n : bytes) : bool :=
  negb (null n) && forallb tchar n && (N.of_nat (length n) <=? 65535).
Fixpoint nodup_b (l : list bytes) : bool :=
  match l with [] => true | x :: r => negb (existsb (beq x) r) && nodup_b r end.
Definition greq_ok (g : greq) : bool :=
  negb (null (g_method g)) && (length (g_method g) <=? 7)%nat && forallb tchar (g_method g)
  && negb (null (g_target g)) && forallb plain (g_target g)
  && forallb (fun h => name_ok (hl_name h) && value_ok (hl_value h)) (g_headers g)
  && nodup_b (map (fun h => lower (hl_name h)) (g_headers g)).

Definition g_hmap (g : greq) : hmap := map (fun h => (lower (hl_name h), hl_value h)) (g_headers g).
Definition g_host (dh : option bytes) (g : greq) : option bytes :=
  match hm_get host_name (g_hmap g) with Some h => Some h | None => dh end.

(** What the property promises for a grammar request followed by [rest]. *)
Record expected := mk_expected {
  x_method : bytes; x_path : bytes; x_query : option bytes; x_version : N;
  x_headers : hmap; x_authority : option bytes; x_body : bytes }.
Definition expect (https : bool) (dh : option bytes) (limit : N) (g : greq) (rest : bytes) : option expected :=
  match request_uri https (g_host dh g) (g_target g) with
  | None => None
  | Some (auth, path, query) =>
      let need := N.to_nat (N.min (body_length (g_method g) (g_hmap g)) limit) in
      Some (mk_expected (g_method g) path query (if g_v11 g then 11 else 10) (g_hmap g) auth
                        (firstn need rest))
  end.
Definition observed (s : served) : option expected :=
  match sv_body s with
  | Ok b =>
      let q := sv_request s in
      Some (mk_expected (q_method q) (q_path q) (q_query q) (q_version q) (q_headers q) (q_authority q) b)
  | _ => None
  end.

(** ** xval interface *)

Fixpoint hm_sort_insert (e : bytes * bytes) (l : hmap) : hmap :=
  match l with
  | [] => [e]
  | x :: r => match bcmp (fst e) (fst x) with Gt => x :: hm_sort_insert e r | _ => e :: l end
  end.
Definition hm_sorted (m : hmap) : hmap := fold_right hm_sort_insert [] m.
Definition x_hmap (m : hmap) : xval := x_list (x_pair XB XB) (hm_sorted m).

Definition d_sched (x : xval) : option (list nat) := d_list d_nat x.

Definition x_request_fields (method path : bytes) (query : option bytes) (version : N) (h : hmap) (auth : option bytes)
  : list xval :=
  [XB method; XB path; x_option XB query; XN version; x_hmap h; x_option XB auth].

(** component h1.request: (L https (L [default_host]) max_len end_mode stream (L burst..) limit) *)
Definition run_request (x : xval) : xval :=
  match x with
  | XL [h; d; XN max_len; XN mode; XB stream; s; XN limit] =>
      match d_bool h, d_option d_B d, d_sched s with
      | Some https, Some dh, Some sched =>
          match serve vec_grow mode https dh (N.to_nat max_len) limit stream sched with
          | Ok sv =>
              let q := sv_request sv in
              XL [XN 0; XL (x_request_fields (q_method q) (q_path q) (q_query q) (q_version q) (q_headers q)
                                             (q_authority q)
                            ++ [XB (q_early q); x_outcome XB (sv_body sv);
                                match sv_body sv with
                                | Ok _ => x_nat (sv_consumed sv)
                                | _ => XN 0
                                end])]
          | Err e => XL [XN 1; XN e]
          | Panic => XL [XN 2]
          end
      | _, _, _ => bad_input
      end
  | _ => bad_input
  end.

(** component h1.body: (L early content_length limit end_mode stream (L burst..)) *)
Definition run_body (x : xval) : xval :=
  match x with
  | XL [XB early; XN cl; XN limit; XN mode; XB stream; s] =>
      match d_sched s with
      | Some sched =>
          match read_to_bytes vec_grow mode early cl limit (mk_reader stream sched) with
          | Ok (b, r') => XL [XL [XN 0; XB b]; x_nat (length stream - length (rd_data r'))]
          | Err e => XL [XL [XN 1; XN e]; XN 0]
          | Panic => XL [XN 2]
          end
      | None => bad_input
      end
  | _ => bad_input
  end.

(** component h1.headers: (B bytes) *)
Definition run_headers (x : xval) : xval :=
  match x with
  | XB b => x_outcome (fun he => XL [x_hmap (fst he); x_nat (snd he)]) (parse_headers b)
  | _ => bad_input
  end.

(** Spec components (oracle run).  Verdicts: (L (N 0) v) = the implementation must answer
    exactly [v] on the compared fields (for h1.request: the six request fields, the body outcome
    and the head end [k]: the early bytes must be the bytes of the stream from [k] on); (L (N 1)) = it must answer an error;
    (L (N 7)) = the property says nothing about this input (except: no panic). *)
(** a header line with its decoration: (L name sp value) or (L name sp value pre post lf) *)
Definition d_hline (x : xval) : option (hline * deco) :=
  match x with
  | XL [XB n; XN k; XB v] => Some (mk_hline n (N.to_nat k) v, deco0)
  | XL [XB n; XN k; XB v; XB pre; XB post; lf] =>
      match d_bool lf with
      | Some lf => Some (mk_hline n (N.to_nat k) v, mk_deco pre post lf)
      | None => None
      end
  | _ => None
  end.
(** a printed request: (L method target v11 (L line..)) or (L method target v11 (L line..) l0 lb) *)
Record dreq := mk_dreq { dq_g : greq; dq_l0 : bool; dq_ds : list deco; dq_lb : bool }.
Definition d_greq (x : xval) : option dreq :=
  match x with
  | XL [XB m; XB t; v; hs] =>
      match d_bool v, d_list d_hline hs with
      | Some v11, Some l => Some (mk_dreq (mk_greq m t v11 (map fst l)) false (map snd l) false)
      | _, _ => None
      end
  | XL [XB m; XB t; v; hs; l0; lb] =>
      match d_bool v, d_list d_hline hs, d_bool l0, d_bool lb with
      | Some v11, Some l, Some l0, Some lb => Some (mk_dreq (mk_greq m t v11 (map fst l)) l0 (map snd l) lb)
      | _, _, _, _ => None
      end
  | _ => None
  end.
Definition dreq_ok (q : dreq) : bool := greq_ok (dq_g q) && decos_ok (dq_ds q) (g_headers (dq_g q)).
Definition dreq_head (q : dreq) : bytes := print_head_d (dq_l0 q) (dq_ds q) (dq_lb q) (dq_g q).

(** The segmentation-blind verdict: what [serve_spec] says about the delivered bytes
    (only for schedules of non-empty bursts; a 0-byte burst is an EOF to the reader). *)
Definition blind_verdict (mode : N) (https : bool) (dh : option bytes) (max_len : nat) (limit : N)
  (stream : bytes) (sched : list nat) : xval :=
  if forallb (fun b => (0 <? b)%nat) sched then
    match serve_spec mode https dh max_len limit (firstn (sum_sched sched) stream) with
    | Ok w => XL [XN 0; XL (x_request_fields (w_method w) (w_path w) (w_query w) (w_version w) (w_headers w) (w_authority w)
                            ++ [x_outcome XB (w_body w);
                                match head_spec max_len (firstn (sum_sched sched) stream) with Ok k => x_nat k | _ => XN 0 end])]
    | Err e => XL [XN 1; XN e]
    | Panic => XL [XN 2]
    end
  else XL [XN 7].

(** spec for h1.request; the case input carries the structured request it was printed
    from as an 8th element [(L [greq])].  For a request of the grammar the verdict is the printed
    request itself ([expect]); for every other stream it is [blind_verdict]. *)
Definition run_request_spec (x : xval) : xval :=
  match x with
  | XL [h; d; XN max_len; XN mode; XB stream; s; XN limit; og] =>
      match d_bool h, d_option d_B d, d_sched s, d_option d_greq og with
      | Some https, Some dh, Some sched, Some og =>
          let delivered := Nat.min (sum_sched sched) (length stream) in
          let blind := blind_verdict mode https dh (N.to_nat max_len) limit stream sched in
          if negb (contains_two_newlines (firstn (Nat.min (N.to_nat max_len) delivered) stream))
          then XL [XN 1]
          else
            match og with
            | None => blind
            | Some dq =>
                let g := dq_g dq in
                let head := dreq_head dq in
                if dreq_ok dq && starts_with head stream && (length head <=? N.to_nat max_len)%nat then
                  let rest := skipn (length head) stream in
                  match expect https dh limit g rest with
                  | None => blind
                  | Some e =>
                      let need := N.to_nat (N.min (body_length (g_method g) (g_hmap g)) limit) in
                      if (length head + need <=? delivered)%nat then
                        XL [XN 0; XL (x_request_fields (x_method e) (x_path e) (x_query e) (x_version e)
                                                       (x_headers e) (x_authority e)
                                      ++ [x_outcome XB (Ok (x_body e)); x_nat (length head)])]
                      else if (length head <=? delivered)%nat then
                        XL [XN 0; XL (x_request_fields (x_method e) (x_path e) (x_query e) (x_version e)
                                                       (x_headers e) (x_authority e)
                                      ++ [if mode =? 0 then x_outcome XB (Ok (firstn (delivered - length head) rest))
                                          else if mode =? 1 then x_outcome XB (Err E_TIMEDOUT)
                                          else x_outcome XB (Err E_IO); x_nat (length head)])]
                      else blind
                  end
                else blind
            end
      | _, _, _, _ => bad_input
      end
  | _ => bad_input
  end.

(** spec for h1.body: exactly [min content_length limit] bytes of [early ++ stream], and not a
    byte more taken from the connection. *)
Definition run_body_spec (x : xval) : xval :=
  match x with
  | XL [XB early; XN cl; XN limit; XN mode; XB stream; s] =>
      match d_sched s with
      | Some sched =>
          let need := N.to_nat (N.min cl limit) in
          let delivered := Nat.min (sum_sched sched) (length stream) in
          if (need <=? length early + delivered)%nat then
            XL [XL [XN 0; XB (firstn need (early ++ stream))]; x_nat (need - length early)]
          else if mode =? 0 then XL [XL [XN 0; XB (early ++ firstn delivered stream)]; x_nat delivered]
          else if mode =? 1 then XL [XL [XN 1; XN E_TIMEDOUT]; XN 0]
          else XL [XL [XN 1; XN E_IO]; XN 0]
      | None => bad_input
      end
  | _ => bad_input
  end.

(** spec for h1.headers: for a printed header block, the map and the end; otherwise nothing. *)
Definition run_headers_spec (x : xval) : xval :=
  match x with
  | XL [XB b; ohs] =>
      match d_option (d_list d_hline) ohs with
      | Some None => XL [XN 7]
      | Some (Some []) => XL [XN 7]       (* [request] never calls [parse::headers] without a header line *)
      | Some (Some hds) =>
          let g := mk_greq m_get [47] true (map fst hds) in
          let block := print_hlines_d (map snd hds) (map fst hds) ++ crlf in
          if greq_ok g && decos_ok (map snd hds) (map fst hds) && starts_with block b
          then XL [XN 0; XL [x_hmap (g_hmap g); x_nat (length block)]]
          else XL [XN 7]
      | None => bad_input
      end
  | _ => bad_input
  end.
Definition run_headers2 (x : xval) : xval :=
  match x with
  | XL [XB b; _] => run_headers (XB b)
  | _ => run_headers x
  end.

(** component h1.poll: (L early content_length end_mode stream (L burst..) (L op..)),
    op = (N window) | (L (N limit)) | (L) (drain); output (L (L outcome..) consumed), consumed = 0 after an error *)
Definition d_hop (x : xval) : option hop :=
  match x with
  | XN w => Some (HRead (N.to_nat w))
  | XL [XN limit] => Some (HRtb limit)
  | XL [] => Some HDrain
  | _ => None
  end.
Definition run_poll (x : xval) : xval :=
  match x with
  | XL [XB early; XN cl; XN mode; XB stream; s; ops] =>
      match d_sched s, d_list d_hop ops with
      | Some sched, Some ops =>
          let (outs, r') := hb_run vec_grow mode (hb_new early (N.to_nat cl)) (mk_reader stream sched) ops in
          XL [x_list (x_outcome XB) outs;
              if forallb (fun o => match o with Ok _ => true | _ => false end) outs
              then x_nat (length stream - length (rd_data r')) else XN 0]
      | _, _ => bad_input
      end
  | _ => bad_input
  end.
(** spec for h1.poll: the declared body as far as it is delivered, and how many of its bytes are on the connection:
    whatever is handed out, in whatever pieces, is a prefix of the first; never more than the second is taken *)
Definition run_poll_spec (x : xval) : xval :=
  match x with
  | XL [XB early; XN cl; XN mode; XB stream; s; ops] =>
      match d_sched s with
      | Some sched =>
          XL [XB (firstn (N.to_nat cl) (early ++ firstn (sum_sched sched) stream)); x_nat (N.to_nat cl - length early)]
      | None => bad_input
      end
  | _ => bad_input
  end.

(** components h1.accept: (L (L [default_host]) (L step..) limit end [request]) and h1.echo: (L (L step..) limit end
    [request]); step = (B bytes written) | (N pause); the kernel cuts the stream as it likes, so the model reads it in one
    burst (theorem segmentation_blind: the view does not depend on the cuts).  The head limit (16 KiB), the scheme and, for
    h1.echo, the default host are the code's. *)
Definition accept_max_len : N := 16384.
Definition echo_host : bytes := Eval vm_compute in B "echo.host".
Fixpoint steps_stream (l : list xval) : bytes :=
  match l with
  | [] => []
  | XB b :: r => b ++ steps_stream r
  | _ :: r => steps_stream r
  end.
Definition accept_input (dh : xval) (steps : list xval) (limit end_ : N) (og : xval) : xval :=
  let stream := steps_stream steps in
  XL [XN 0; dh; XN accept_max_len; XN (if end_ =? 0 then 0 else 1); XB stream;
      XL (if null stream then [] else [x_nat (length stream)]); XN limit; og].
Definition x_view (o : outcome view) : xval :=
  match o with
  | Ok w => XL [XN 0; XL (x_request_fields (w_method w) (w_path w) (w_query w) (w_version w) (w_headers w) (w_authority w)
                          ++ [x_outcome XB (w_body w)])]
  | Err e => XL [XN 1; XN e]
  | Panic => XL [XN 2]
  end.
Definition run_view (x : xval) : outcome view :=
  match x with
  | XL [h; d; XN max_len; XN mode; XB stream; s; XN limit; _] =>
      match d_bool h, d_option d_B d, d_sched s with
      | Some https, Some dh, Some sched =>
          result_view (serve vec_grow mode https dh (N.to_nat max_len) limit stream sched)
      | _, _, _ => Panic
      end
  | _ => Panic
  end.
Definition run_accept (x : xval) : xval :=
  match x with
  | XL [dh; XL steps; XN limit; XN end_; og] => XL [x_view (run_view (accept_input dh steps limit end_ og)); XN 0]
  | _ => bad_input
  end.
Definition run_echo (x : xval) : xval :=
  match x with
  | XL [XL steps; XN limit; XN end_; og] =>
      XL [match run_view (accept_input (XL [XB echo_host]) steps limit end_ og) with
          | Ok w => x_view (Ok w)
          | Err _ => XL [XN 1; XN 0]
          | Panic => XL [XN 2]
          end; XN 0]
  | _ => bad_input
  end.

Definition http1read_table : list (bytes * (xval -> xval)) :=
  [ (B "h1.request", fun x => match x with
                              | XL [h; d; ml; mo; st; s; li; _] => run_request (XL [h; d; ml; mo; st; s; li])
                              | _ => run_request x
                              end);
    (B "h1.request.spec", run_request_spec);
    (B "h1.body", run_body);
    (B "h1.body.spec", run_body_spec);
    (B "h1.headers", run_headers2);
    (B "h1.headers.spec", run_headers_spec);
    (B "h1.poll", run_poll);
    (B "h1.poll.spec", run_poll_spec);
    (B "h1.accept", run_accept);
    (B "h1.accept.spec", fun x => match x with
                                  | XL [dh; XL steps; XN limit; XN end_; og] => run_request_spec (accept_input dh steps limit end_ og)
                                  | _ => bad_input
                                  end);
    (B "h1.echo", run_echo);
    (B "h1.echo.spec", fun x => match x with
                                | XL [XL steps; XN limit; XN end_; og] =>
                                    run_request_spec (accept_input (XL [XB echo_host]) steps limit end_ og)
                                | _ => bad_input
                                end) ].
