(** C01 — the request pipeline as far as this property is concerned: src/lib.rs [handle_cache],
    [get_response], [handle_request]; src/extensions.rs [resolve_prime], [resolve_prepare];
    src/error.rs [default] (the operator's error pages [<host.path>/<errors_dir>/<status>.html]);
    src/read.rs [file] / [file_cached] (the file cache, keyed by the path STRING, with negative
    entries).  Definitions only; proofs live in Proofs/PathSanServeProofs.v. *)
From KV Require Export Bytes PathSan.
Open Scope N_scope.

Inductive event :=
| ESanitize                      (* utils::sanitize_request *)
| EPrime                         (* resolve_prime ran *)
| EPrepareSingle (key : bytes)   (* prepare_single.get(key) consulted *)
| EPrepareRun (key : bytes)      (* a path-bound Prepare extension was invoked *)
| EPrepareFn                     (* the predicate-bound Prepare extensions were consulted *)
| EFsRead (path : bytes)         (* handle_request: read_file(path) — the path built from the request *)
| EErrorPage (status : N)        (* error::default(status) *)
| EErrRead (path : bytes).       (* error::default: read_file_cached(path) — the operator's error page *)

Record host_cfg := {
  h_path : bytes;                 (* host.path *)
  h_public : bytes;               (* options.public_data_dir or "public" *)
  h_errors : bytes;               (* options.errors_dir or "errors" *)
  h_fs : bool;                    (* not options.disable_fs *)
  h_redirect : bool;              (* the "Expand . and /" Prime is installed (Extensions::new) *)
  h_ext_default : bytes;          (* options.extension_default or "html" *)
  h_folder_default : bytes;       (* options.folder_default or "index.html" *)
  h_prepare_single : list bytes   (* keys of the path-bound Prepare extensions *)
}.

(** [resolve_prime]: a result that does not start with "/./" replaces the request URI *)
Definition primed_path (h : host_cfg) (p : bytes) : bytes :=
  if h_redirect h then
    match uri_redirect (h_ext_default h) (h_folder_default h) p with
    | Some q => q
    | None => p
    end
  else p.

(** [error::default]: [make_path(&host.path, host.options.get_errors_dir(), code.as_str(), Some("html"))]
    — a function of the host and of the status code only *)
Definition error_path (h : host_cfg) (status : N) : bytes :=
  make_path (h_path h) (h_errors h) (dec status) (Some (B "html")).

Inductive meth := MGet | MHead | MOther.

Record reply := {
  r_status : N;
  r_body : option bytes;          (* Some c: the content of the file the request path names *)
  r_err : option bytes;           (* Some c: the content of the operator's error page for [r_status] *)
  r_from_cache : bool
}.

(** ---------------------------------------------------------------------------
    The file cache ([Host::file_cache], moka): path string -> [Some content] | [None] (the file
    could not be read).  [rd] is what the operating system returns for a path string
    (open + read to end). *)
Definition fcache := list (bytes * option bytes).
Fixpoint fc_get (k : bytes) (fc : fcache) : option (option bytes) :=
  match fc with
  | [] => None
  | (k', v) :: r => if beq k' k then Some v else fc_get k r
  end.

(** [read::file] ([read_file]): looks the path up, never fills the cache.
    Second component: the paths handed to the operating system. *)
Definition read_file (rd : bytes -> option bytes) (on : bool) (fc : fcache) (path : bytes) : option bytes * list bytes :=
  match (if on then fc_get path fc else None) with
  | Some e => (e, [])
  | None => (rd path, [path])
  end.

(** [read::file_cached] ([read_file_cached]): fills the cache, also with the failure *)
Definition read_file_cached (rd : bytes -> option bytes) (on : bool) (fc : fcache) (path : bytes)
  : option bytes * fcache * list bytes :=
  match (if on then fc_get path fc else None) with
  | Some e => (e, fc, [])
  | None => let r := rd path in (r, if on then (path, r) :: fc else fc, [path])
  end.

(** [error::default]: the body is the operator's page if it can be read (through the file cache), else
    generated *)
Definition error_default (h : host_cfg) (rd : bytes -> option bytes) (on : bool) (fc : fcache) (status : N)
  : option bytes * list event * fcache * list bytes :=
  if h_fs h then
    let path := error_path h status in
    let '(r, fc', os) := read_file_cached rd on fc path in
    (r, [EErrorPage status; EErrRead path], fc', os)
  else (None, [EErrorPage status], fc, []).

Definition gen_reply (status : N) (err : option bytes) : reply :=
  {| r_status := status; r_body := None; r_err := err; r_from_cache := false |}.
Definition failed_reply : reply := gen_reply 0 None.

Definition outcome_t : Type := (reply * list event * fcache * list bytes)%type.

(** an error reply after the trace [ev] and the operating-system reads [os] *)
Definition err_reply (h : host_cfg) (rd : bytes -> option bytes) (on : bool) (fc : fcache)
    (status : N) (ev : list event) (os : list bytes) : outcome_t :=
  let '(e, ev', fc', os') := error_default h rd on fc status in
  (gen_reply status e, ev ++ ev', fc', os ++ os').

(** [handle_request] when no Prepare extension answered and the file path is [f] *)
Definition serve_file (h : host_cfg) (rd : bytes -> option bytes) (on : bool) (fc : fcache) (m : meth)
    (ev1 : list event) (f : bytes) : outcome_t :=
  match m with
  | MOther => err_reply h rd on fc 405 ev1 []
  | _ =>
      let '(c, os) := read_file rd on fc f in
      match c with
      | Some c => ({| r_status := 200; r_body := Some c; r_err := None; r_from_cache := false |}, ev1 ++ [EFsRead f], fc, os)
      | None => err_reply h rd on fc 404 (ev1 ++ [EFsRead f]) os
      end
  end.

Definition ev0 : list event := [ESanitize; EPrime].

(** [get_response] with an accepted path (no usable response-cache entry) *)
Definition serve_fresh (h : host_cfg) (rd : bytes -> option bytes) (on : bool) (fc : fcache) (m : meth)
    (override : option bytes) (p : bytes) : outcome_t :=
  let p' := primed_path h p in
  let key := match override with Some k => k | None => p' end in
  match (if h_fs h then request_fs_path (h_path h) (h_public h) p' else Ok None) with
  | Panic => (failed_reply, ev0, fc, [])
  | Err _ => (failed_reply, ev0, fc, [])
  | Ok path =>
      if existsb (beq key) (h_prepare_single h) then
        (gen_reply 200 None, ev0 ++ [EPrepareSingle key; EPrepareRun key], fc, [])
      else
        let ev1 := ev0 ++ [EPrepareSingle key; EPrepareFn] in
        match path with
        | None => err_reply h rd on fc 404 ev1 []
        | Some f => serve_file h rd on fc m ev1 f
        end
  end.

(** [override]: the [/./…] URI a Prime extension returned (CORS), if any.  [cached]: the
    response-cache entry found under the key of [override] / the request URI, if any.
    Result: the reply, the trace, the file cache afterwards, the paths handed to the operating system. *)
Definition serve_st (h : host_cfg) (rd : bytes -> option bytes) (on : bool) (fc : fcache) (m : meth)
    (override : option bytes) (cached : option reply) (p : bytes) : outcome_t :=
  let san := sanitize_path p in
  match cached, san, m with
  | Some r, Ok _, MGet | Some r, Ok _, MHead =>
      ({| r_status := r_status r; r_body := r_body r; r_err := r_err r; r_from_cache := true |}, ev0, fc, [])
  | _, _, _ =>
      match san with
      | Ok _ => serve_fresh h rd on fc m override p
      | _ => err_reply h rd on fc E_UNSAFE ev0 []
      end
  end.

(** the same without a file cache: every read goes to [fs] *)
Definition serve (h : host_cfg) (fs : bytes -> option bytes) (m : meth)
    (override : option bytes) (cached : option reply) (p : bytes) : reply * list event :=
  let '(r, ev, _, _) := serve_st h fs false [] m override cached p in (r, ev).

Definition is_prepare_or_read (e : event) : bool :=
  match e with
  | EPrepareSingle _ | EPrepareRun _ | EPrepareFn | EFsRead _ => true
  | _ => false
  end.

(** ---------------------------------------------------------------------------
    What the operating system opens for a path string: the names from the root to the object and
    whether it is a directory ([open(2)] of a directory succeeds, reading it fails); [None] = the
    open fails (ENOENT / ENOTDIR).  The current node is found by descending from the root; ".."
    at the root stays there. *)
Fixpoint cwalk (root : node) (st : list bytes) (segs : list bytes) : option (list bytes) :=
  match segs with
  | [] => Some st
  | s :: r =>
      match descend root (rev st) with
      | Some n =>
          if negb (is_dir n) then None
          else if is_empty s || is_dot s then cwalk root st r
          else if is_dotdot s then cwalk root (tl st) r
          else match child n s with
               | Some _ => cwalk root (s :: st) r
               | None => None
               end
      | None => None
      end
  end.
Definition opened (root : node) (path : bytes) : option (list bytes * bool) :=
  match cwalk root [] (segments path) with
  | Some st =>
      match descend root (rev st) with
      | Some n => Some (rev st, is_dir n)
      | None => None
      end
  | None => None
  end.
