(** C15 — model of the virtual-host collection of kvarn (src/host.rs):
    [CollectionBuilder::{insert, default}], [Collection::{get_host, get_default,
    get_or_default, get_option_or_default, get_from_request, clear_page,
    clear_response_caches}], the place in [handle_connection] (src/lib.rs) where the
    host is chosen (409 when there is none), and the multi-host server as a product of
    per-host states.  Definitions only; proofs are in Proofs/HostsProofs.v.

    Names are byte strings ([CompactString]/[&str] compared byte-wise by the
    [HashMap]); a host inside the collection is identified by the index of the
    builder call that added it. *)
From KV Require Export Bytes.
From KV Require Http1Read.
Open Scope N_scope.

(** ------------------------------------------------------------------------------
    Versions.  [V0] is the snapshot the verification started from, [V1] the code
    after the two [fix:] commits of this property (chain following in [get_host],
    IPv6 loopback test in [get_or_default]).  The correspondence runs against [V1];
    [V0] is kept for the refutation lemmas. *)
Inductive version := V0 | V1.

(** What [insert] reads of a [Host]. *)
Record hostcfg := { h_name : bytes; h_alts : list bytes }.

(** A [Host] stored in the collection. *)
Record host := { hid : nat; hname : bytes }.

(** [enum HostValue { Host(Host), Ref(CompactString) }] *)
Inductive hostvalue := HHost (h : host) | HRef (r : bytes).

(** [HashMap<CompactString, HostValue>]: one entry per key. *)
Definition hmap := list (bytes * hostvalue).

Fixpoint hm_get (k : bytes) (m : hmap) : option hostvalue :=
  match m with
  | [] => None
  | (k', v) :: r => if beq k' k then Some v else hm_get k r
  end.
Fixpoint hm_remove (k : bytes) (m : hmap) : hmap :=
  match m with
  | [] => []
  | (k', v) :: r => if beq k' k then hm_remove k r else (k', v) :: hm_remove k r
  end.
Definition hm_insert (k : bytes) (v : hostvalue) (m : hmap) : hmap := (k, v) :: hm_remove k m.

(** [struct Collection { default, by_name, first, .. }].  [c_inserts] is a ghost field
    (number of [insert] calls so far); it only provides the fuel of the [V1] loop in
    [get_host], which is unbounded in Rust (HostsProofs.get_host_fuel_suffices shows
    the fuel is never exhausted). *)
Record collection := {
  c_default : option bytes;
  c_by_name : hmap;
  c_first : option bytes;
  c_inserts : nat }.

Definition empty_collection : collection :=
  {| c_default := None; c_by_name := []; c_first := None; c_inserts := O |}.

(** [CollectionBuilder::insert]: [first] is set on the first call; the alternative
    names are inserted first as [Ref(host.name)], then the name itself as [Host]. *)
Definition insert_alts (name : bytes) (alts : list bytes) (m : hmap) : hmap :=
  fold_left (fun m alt => hm_insert alt (HRef name) m) alts m.

Definition insert (id : nat) (h : hostcfg) (c : collection) : collection :=
  {| c_default := c_default c;
     c_by_name := hm_insert (h_name h) (HHost {| hid := id; hname := h_name h |})
                    (insert_alts (h_name h) (h_alts h) (c_by_name c));
     c_first := match c_first c with None => Some (h_name h) | Some f => Some f end;
     c_inserts := S (c_inserts c) |}.

(** [CollectionBuilder::default]: [assert!(self.0.default.is_none())], then sets the
    default name and inserts. *)
Definition set_default (id : nat) (h : hostcfg) (c : collection) : outcome collection :=
  match c_default c with
  | Some _ => Panic
  | None => Ok (insert id h {| c_default := Some (h_name h); c_by_name := c_by_name c;
                               c_first := c_first c; c_inserts := c_inserts c |})
  end.

(** A builder call: [(true, h)] = [.default(h)], [(false, h)] = [.insert(h)]. *)
Definition op := (bool * hostcfg)%type.

Fixpoint build_from (id : nat) (ops : list op) (c : collection) : outcome collection :=
  match ops with
  | [] => Ok c
  | (d, h) :: rest =>
      if d then
        match set_default id h c with
        | Ok c' => build_from (S id) rest c'
        | Err e => Err e
        | Panic => Panic
        end
      else build_from (S id) rest (insert id h c)
  end.
Definition build (ops : list op) : outcome collection := build_from O ops empty_collection.

(** ---- lookups -------------------------------------------------------------------- *)

Definition E_FUEL : N := 77.

(** [V1] loop of [get_host]:
    [let mut value = self.by_name.get(name)?;
     loop { match value { Host(h) => return Some(h), Ref(r) => value = self.by_name.get(r)? } }] *)
Fixpoint resolve (fuel : nat) (m : hmap) (name : bytes) : outcome (option host) :=
  match hm_get name m with
  | None => Ok None
  | Some (HHost h) => Ok (Some h)
  | Some (HRef r) =>
      match fuel with
      | O => Err E_FUEL
      | S f => resolve f m r
      end
  end.

(** [V0] (snapshot): one level of [Ref], then
    [.and_then(HostValue::as_host).expect("... Ref pointed to Ref")]. *)
Definition get_host_v0 (m : hmap) (name : bytes) : outcome (option host) :=
  match hm_get name m with
  | None => Ok None
  | Some (HHost h) => Ok (Some h)
  | Some (HRef r) =>
      match hm_get r m with
      | Some (HHost h) => Ok (Some h)
      | _ => Panic
      end
  end.

Definition get_host (v : version) (c : collection) (name : bytes) : outcome (option host) :=
  match v with
  | V0 => get_host_v0 (c_by_name c) name
  | V1 => resolve (c_inserts c) (c_by_name c) name
  end.

(** [Option::or_else] on results that may panic. *)
Definition or_else {A} (a : outcome (option A)) (f : unit -> outcome (option A)) : outcome (option A) :=
  match a with
  | Ok None => f tt
  | other => other
  end.

Definition get_default (v : version) (c : collection) : outcome (option host) :=
  match c_default c with
  | None => Ok None
  | Some d => get_host v c d
  end.

Definition c_dot : N := 46.   Definition c_colon : N := 58.

(** [str::strip_suffix('.')] *)
Fixpoint strip_suffix_dot (n : bytes) : option bytes :=
  match n with
  | [] => None
  | [c] => if N.eqb c c_dot then Some [] else None
  | c :: r => option_map (cons c) (strip_suffix_dot r)
  end.

(** [name.split(':').next()]: the part before the first colon (always [Some]). *)
Fixpoint before_colon (n : bytes) : bytes :=
  match n with
  | [] => []
  | c :: r => if N.eqb c c_colon then [] else c :: before_colon r
  end.

Definition s_localhost : bytes := Eval vm_compute in B "localhost".
Definition s_127 : bytes := Eval vm_compute in B "127.0.0.1".
Definition s_v6 : bytes := Eval vm_compute in B "::1".
Definition s_v6b : bytes := Eval vm_compute in B "[::1]".

(** [str::strip_prefix] *)
Fixpoint strip_prefix (p s : bytes) : option bytes :=
  match p, s with
  | [], _ => Some s
  | x :: p', y :: s' => if N.eqb x y then strip_prefix p' s' else None
  | _ :: _, [] => None
  end.

(** The loopback test of [get_or_default].
    V0: [base_host == "localhost" || == "127.0.0.1" || == "::1" || == "[::1]"] with
        [base_host = name.split(':').next()].
    V1: [base_host == "localhost" || base_host == "127.0.0.1" || ipv6_loopback] with
        [ipv6_loopback = name == "::1" ||
           name.strip_prefix("[::1]").map_or(false, |rest| rest.is_empty() || rest.starts_with(':'))]. *)
Definition is_loopback (v : version) (name : bytes) : bool :=
  let base_host := before_colon name in
  match v with
  | V0 => beq base_host s_localhost || beq base_host s_127 || beq base_host s_v6 || beq base_host s_v6b
  | V1 =>
      let ipv6_loopback :=
        beq name s_v6 ||
        match strip_prefix s_v6b name with
        | Some rest => match rest with [] => true | c :: _ => N.eqb c c_colon end
        | None => false
        end in
      beq base_host s_localhost || beq base_host s_127 || ipv6_loopback
  end.

(** [Collection::get_or_default] *)
Definition get_or_default (v : version) (c : collection) (name : bytes) : outcome (option host) :=
  or_else (get_host v c name) (fun _ =>
  or_else (match strip_suffix_dot name with
           | Some name' => get_host v c name'
           | None => Ok None
           end) (fun _ =>
  or_else (get_default v c) (fun _ =>
    if is_loopback v name then
      match c_first c with
      | Some f => get_host v c f
      | None => Ok None
      end
    else Ok None))).

(** [Collection::get_option_or_default] *)
Definition get_option_or_default (v : version) (c : collection) (name : option bytes)
  : outcome (option host) :=
  match name with
  | Some n => get_or_default v c n
  | None => get_default v c
  end.

(** [HeaderValue::to_str]: succeeds iff every byte is visible ASCII or TAB. *)
Definition hv_visible (c : N) : bool := ((32 <=? c) && (c <? 127)) || (c =? 9).
Definition hv_to_str (v : bytes) : option bytes := if forallb hv_visible v then Some v else None.

(** [Collection::get_from_request]: [host_headers] are the values of the request's
    [host] headers in order ([HeaderMap::get] returns the first). *)
Definition get_from_request (v : version) (c : collection) (sni : option bytes) (host_headers : list bytes)
  : outcome (option host) :=
  let host :=
    match sni with
    | Some s => Some s
    | None => match host_headers with
              | [] => None
              | hv :: _ => hv_to_str hv
              end
    end in
  get_option_or_default v c host.

(** ---- the place in [handle_connection] where the host is chosen ----------------------
    [get_from_request] answers [None] => 409 Conflict and the connection is closed;
    otherwise the host is looked up again by its own name inside the spawned future
    ([moved_host_collection.get_host(&hostname).unwrap()]) and the request is served
    with that host. *)
Inductive choice :=
| Refuse409
| ServeWith (h : host).

Definition choose_host (v : version) (c : collection) (sni : option bytes) (host_headers : list bytes)
  : outcome choice :=
  match get_from_request v c sni host_headers with
  | Panic => Panic
  | Err e => Err e
  | Ok None => Ok Refuse409
  | Ok (Some h) =>
      match get_host v c (hname h) with
      | Ok (Some h') => Ok (ServeWith h')
      | Ok None => Panic                         (* [.unwrap()] *)
      | Err e => Err e
      | Panic => Panic
      end
  end.

(** ---- administrative lookups --------------------------------------------------------
    [clear_page(host, uri)] / [clear_file(host, path)]: which host's cache is touched. *)
Definition s_default : bytes := Eval vm_compute in B "default".
Definition clear_target (v : version) (c : collection) (name : bytes) : outcome (option host) :=
  match name with
  | [] => get_default v c
  | _ => if beq name s_default then get_default v c else get_host v c name
  end.

(** [clear_response_caches(filter)] / [clear_file_caches(filter)]: the hosts that are
    cleared: every [Host] value of the map whose [name] passes the filter. *)
Definition stored_hosts (c : collection) : list host :=
  flat_map (fun kv => match snd kv with HHost h => [h] | HRef _ => [] end) (c_by_name c).
Definition clear_all_targets (c : collection) (flt : option bytes) : list host :=
  List.filter (fun h => match flt with Some f => beq f (hname h) | None => true end) (stored_hosts c).

(** ==============================================================================
    Specification: the reference resolver (independent of the code's structure).
    Hosts are listed in the order they were added; [dflt] is the index of the host
    added with [.default]. *)
Definition host_names (h : hostcfg) : list bytes := h_name h :: h_alts h.
Definition named (n : bytes) (h : hostcfg) : bool := existsb (beq n) (host_names h).

Fixpoint find_named (id : nat) (hs : list hostcfg) (n : bytes) : option nat :=
  match hs with
  | [] => None
  | h :: r => if named n h then Some id else find_named (S id) r n
  end.

Definition without_dot (n : bytes) : option bytes :=
  match rev n with
  | 46 :: r => Some (rev r)
  | _ => None
  end.

(** Loopback forms: [localhost], [127.0.0.1], [[::1]] alone or followed by [:<anything>],
    and the bare [::1]. *)
Definition loopback_form (n : bytes) : bool :=
  beq n s_v6 ||
  existsb (fun l => beq n l || starts_with (l ++ [58]) n) [s_localhost; s_127; s_v6b].

Definition requested_name (sni host_header : option bytes) : option bytes :=
  match sni with
  | Some s => Some s
  | None => match host_header with
            | Some v => if forallb (fun c => ((32 <=? c) && (c <=? 126)) || (c =? 9)) v then Some v else None
            | None => None
            end
  end.

Definition first_some {A} (a b : option A) : option A := match a with Some _ => a | None => b end.

(** [None] = refused with 409. *)
Definition reference (hs : list hostcfg) (dflt : option nat) (sni host_header : option bytes) : option nat :=
  match requested_name sni host_header with
  | None => dflt
  | Some n =>
      first_some (find_named O hs n)
     (first_some (match without_dot n with Some n' => find_named O hs n' | None => None end)
     (first_some dflt
                 (if loopback_form n then match hs with [] => None | _ :: _ => Some O end else None)))
  end.

(** Index of the builder call that was [.default]. *)
Fixpoint default_index (id : nat) (ops : list op) : option nat :=
  match ops with
  | [] => None
  | (d, _) :: rest => if d then Some id else default_index (S id) rest
  end.

(** The condition under which "the host whose name or alternative name equals ..." is
    unambiguous: no name or alternative name of a host is a name or alternative name
    of another host. *)
Fixpoint no_overlap (hs : list hostcfg) : Prop :=
  match hs with
  | [] => True
  | h :: rest => (forall n h', named n h = true -> In h' rest -> named n h' = false) /\ no_overlap rest
  end.
Fixpoint no_overlapb (hs : list hostcfg) : bool :=
  match hs with
  | [] => true
  | h :: rest => forallb (fun n => forallb (fun h' => negb (named n h')) rest) (host_names h) && no_overlapb rest
  end.

(** Overlapping configurations: which host wins.  A name belongs to the last host that
    mentions it; if that host mentions it only as an alternative name, the name is an
    alias of that host's *name*, which in turn belongs to the last host that mentions it
    (so a later host that re-uses or aliases the name of an earlier one takes over the
    earlier host's aliases, too).  Structural recursion: later mentions win. *)
Fixpoint owner (id : nat) (hs : list hostcfg) (n : bytes) : option host :=
  match hs with
  | [] => None
  | h :: rest =>
      match owner (S id) rest n with
      | Some r => Some r
      | None =>
          if named n h then
            match owner (S id) rest (h_name h) with
            | Some r => Some r
            | None => Some {| hid := id; hname := h_name h |}
            end
          else None
      end
  end.

(** The reference resolver for arbitrary (also overlapping) configurations: as
    [reference], with [owner] for the name lookup, and "default"/"first" meaning the
    current owner of the default/first host's name. *)
Definition reference_general (ops : list op) (sni host_header : option bytes) : option nat :=
  let hs := map snd ops in
  let own n := option_map hid (owner O hs n) in
  let dflt := match default_index O ops with
              | Some d => match nth_error hs d with Some h => own (h_name h) | None => None end
              | None => None
              end in
  match requested_name sni host_header with
  | None => dflt
  | Some n =>
      first_some (own n)
     (first_some (match without_dot n with Some n' => own n' | None => None end)
     (first_some dflt
                 (if loopback_form n then match hs with [] => None | h :: _ => own (h_name h) end else None)))
  end.

(** The administrative lookups, in terms of the configuration alone.
    [clear_page(name, ..)] / [clear_file(name, ..)]: [""] and ["default"] mean the default host, any other
    name the owner of exactly that name (no trailing dot, no default, no loopback rule). *)
Definition is_default_name (name : bytes) : bool := beq name [] || beq name s_default.
Definition clear_reference (ops : list op) (name : bytes) : option nat :=
  let hs := map snd ops in
  if is_default_name name then
    match default_index O ops with
    | Some d => match nth_error hs d with Some h => option_map hid (owner O hs (h_name h)) | None => None end
    | None => None
    end
  else option_map hid (owner O hs name).
(** [clear_response_caches(filter)] / [clear_file_caches(filter)] reach host [i] iff it is still reachable
    under its own name (no later host took the name over) and its name passes the filter. *)
Definition cleared_by_all (ops : list op) (flt : option bytes) (i : nat) : bool :=
  match nth_error (map snd ops) i with
  | Some h =>
      match flt with Some f => beq f (h_name h) | None => true end
      && match owner O (map snd ops) (h_name h) with Some r => Nat.eqb (hid r) i | None => false end
  | None => false
  end.

(** ==============================================================================
    The multi-host server: a product of per-host states.  [serve i] is host [i]'s whole
    pipeline (extensions, file cache, response cache) on its own component; [route] is
    [choose_host] on a fixed collection; administrative events ([clear_page],
    [clear_response_caches], ...) act on the components selected by [targets]. *)
Section MultiHost.
  Variables (St Req Rep Adm : Type).
  Variable serve : nat -> St -> Req -> St * Rep.
  Variable admin : Adm -> St -> St.
  Variable route : Req -> option nat.
  Variable targets : Adm -> nat -> bool.
  Variable refuse : Rep.

  Inductive event := ERequest (r : Req) | EAdmin (a : Adm).

  Definition mstate := nat -> St.
  Definition upd (st : mstate) (i : nat) (s : St) : mstate :=
    fun j => if Nat.eqb j i then s else st j.

  (** One request on the whole server: route, then serve on that host's component. *)
  Definition rstep (st : mstate) (r : Req) : mstate * Rep :=
    match route r with
    | None => (st, refuse)
    | Some i => let (s', rep) := serve i (st i) r in (upd st i s', rep)
    end.

  (** One event on the whole server; the reply of an administrative event is [None]. *)
  Definition mstep (st : mstate) (e : event) : mstate * option Rep :=
    match e with
    | ERequest r => let (st', rep) := rstep st r in (st', Some rep)
    | EAdmin a => (fun j => if targets a j then admin a (st j) else st j, None)
    end.

  Fixpoint mrun (st : mstate) (es : list event) : mstate * list (option Rep) :=
    match es with
    | [] => (st, [])
    | e :: rest =>
        let (st1, rep) := mstep st e in
        let (st2, reps) := mrun st1 rest in
        (st2, rep :: reps)
    end.

  (** Host [i] alone: only its own component, only the events that concern it. *)
  Definition concerns (i : nat) (e : event) : bool :=
    match e with
    | ERequest r => match route r with Some j => Nat.eqb j i | None => false end
    | EAdmin a => targets a i
    end.

  Definition sstep (i : nat) (s : St) (e : event) : St * option Rep :=
    match e with
    | ERequest r => let (s', rep) := serve i s r in (s', Some rep)
    | EAdmin a => (admin a s, None)
    end.

  Fixpoint srun (i : nat) (s : St) (es : list event) : St * list (option Rep) :=
    match es with
    | [] => (s, [])
    | e :: rest =>
        let (s1, rep) := sstep i s e in
        let (s2, reps) := srun i s1 rest in
        (s2, rep :: reps)
    end.

  (** The replies of the whole server to the events that concern host [i]. *)
  Fixpoint replies_for (i : nat) (es : list event) (reps : list (option Rep)) : list (option Rep) :=
    match es, reps with
    | e :: es', r :: reps' => if concerns i e then r :: replies_for i es' reps' else replies_for i es' reps'
    | _, _ => []
    end.
End MultiHost.
Arguments ERequest {Req Adm} r.
Arguments EAdmin {Req Adm} a.
Arguments upd {St} st i s j /.

(** [handle_connection]'s loop body as a step of the multi-host server: the host is chosen by
    [choose_host] on the collection, the request is served by that host's component.  A
    request is (SNI of the connection, Host header values, everything else). *)
Section Server.
  Variables (St P Rep : Type).
  Variable serve : nat -> St -> P -> St * Rep.
  Variable refuse : Rep.
  Definition srequest := (option bytes * list bytes * P)%type.
  Definition server_step (v : version) (c : collection) (st : nat -> St) (r : srequest)
    : outcome ((nat -> St) * Rep) :=
    let '(sni, hh, p) := r in
    match choose_host v c sni hh with
    | Ok Refuse409 => Ok (st, refuse)
    | Ok (ServeWith h) =>
        let (s', rep) := serve (hid h) (st (hid h)) p in
        Ok (upd st (hid h) s', rep)
    | Err e => Err e
    | Panic => Panic
    end.
  (** The routing function the specification assigns to a configuration. *)
  Definition spec_route (ops : list op) (r : srequest) : option nat :=
    let '(sni, hh, _) := r in reference_general ops sni (hd_error hh).
  Definition spec_serve (i : nat) (s : St) (r : srequest) : St * Rep := serve i s (snd r).
End Server.

(** ---- [get_from_request] with the authority of the request URI ------------------------------
    After the third [fix:] commit of this round ([fix_auth = true]) a request without a (textual)
    [host] header is looked up by the authority of its URI: HTTP/2 and HTTP/3 requests carry the
    requested host in [:authority].  [get_from_request] above is the case of a URI without
    authority (the requests the harness hands to [Collection::get_from_request] directly). *)
(** [headers.get(header::HOST).map(HeaderValue::to_str).and_then(Result::ok)] *)
Definition text_hd (host_headers : list bytes) : option bytes :=
  match host_headers with [] => None | hv :: _ => hv_to_str hv end.
Definition get_from_request_uri (fix_auth : bool) (v : version) (c : collection) (sni : option bytes)
           (host_headers : list bytes) (authority : option bytes) : outcome (option host) :=
  let host :=
    match sni with
    | Some s => Some s
    | None => first_some (text_hd host_headers) (if fix_auth then authority else None)
    end in
  get_option_or_default v c host.

Definition choose_host_uri (fix_auth : bool) (v : version) (c : collection) (sni : option bytes)
           (host_headers : list bytes) (authority : option bytes) : outcome choice :=
  match get_from_request_uri fix_auth v c sni host_headers authority with
  | Panic => Panic
  | Err e => Err e
  | Ok None => Ok Refuse409
  | Ok (Some h) =>
      match get_host v c (hname h) with
      | Ok (Some h') => Ok (ServeWith h')
      | Ok None => Panic                         (* [.unwrap()] *)
      | Err e => Err e
      | Panic => Panic
      end
  end.

(** ---- a concrete instance for the correspondence over loopback connections -------------
    Every host has a handler for the paths starting with [/h] that answers its own marker
    and the number of times it was invoked (response cache on: [FatResponse::cache], i.e.
    [ServerCachePreference::Full], the query is not part of the key; only GET and HEAD are
    looked up and stored; [if-modified-since] on a stored entry: 304), and its own files
    (other paths, GET only; reply [(i, 0)]). *)
Record hstate := { hs_cache : list (bytes * N); hs_count : N }.
Definition hstate0 : hstate := {| hs_cache := []; hs_count := 0 |}.
Fixpoint cache_get (p : bytes) (l : list (bytes * N)) : option N :=
  match l with
  | [] => None
  | (k, v) :: r => if beq k p then Some v else cache_get p r
  end.
Fixpoint path_only (p : bytes) : bytes :=
  match p with
  | [] => []
  | c :: r => if N.eqb c 63 then [] else c :: path_only r
  end.

(** What the client of a history sees. *)
Inductive wire_reply :=
| WClosed                     (* connection closed, nothing sent *)
| WNoTls                      (* the TLS handshake was refused *)
| W409
| W304
| W200 (host : nat) (n : N).  (* marker: the host that answered, the invocation that produced the body *)

Definition s_GET : bytes := Eval vm_compute in B "GET".
Definition s_HEAD : bytes := Eval vm_compute in B "HEAD".
Definition get_or_head_b (m : bytes) : bool := beq m s_GET || beq m s_HEAD.
Definition FL_IMS_FUTURE : N := 1.     (* bit 1 of the request flags: if-modified-since far in the future *)

Definition marker_serve (i : nat) (s : hstate) (m path : bytes) (flags : N) : hstate * wire_reply :=
  if negb (starts_with [47; 104] path) then (s, W200 i 0)      (* not "/h...": a file of host [i] *)
  else
  let key := path_only path in
  match (if get_or_head_b m then cache_get key (hs_cache s) else None) with
  | Some n => (s, if N.testbit flags FL_IMS_FUTURE then W304 else W200 i n)
  | None =>
      let n := hs_count s + 1 in
      ({| hs_cache := if get_or_head_b m then (key, n) :: hs_cache s else hs_cache s; hs_count := n |}, W200 i n)
  end.

(** [parse::headers] builds the header map with [HeaderMap::insert]: of several Host
    header lines on the wire the last one is kept. *)
Definition wire_hosts (hh : list bytes) : list bytes :=
  match rev hh with
  | [] => []
  | h :: _ => [h]
  end.

(** One request of a history: the connection it travels on (plain TCP with HTTP/1.x, TLS with
    HTTP/1.1, TLS with HTTP/2; the SNI the client sent, if any) and what it says. *)
Definition TR_PLAIN : N := 0.  Definition TR_TLS1 : N := 1.  Definition TR_H2 : N := 2.
Record wreq := mkW {
  w_tr : N;
  w_sni : option bytes;
  w_v10 : bool;                  (* HTTP/1.0 request line *)
  w_method : bytes;
  w_hosts : list bytes;          (* HTTP/1.x: the Host header lines; HTTP/2: explicit [host] fields *)
  w_authority : option bytes;    (* HTTP/2: [:authority] *)
  w_path : bytes;
  w_flags : N }.
Definition w_tls (r : wreq) : bool := negb (w_tr r =? TR_PLAIN).
Definition w_conn_sni (r : wreq) : option bytes := if w_tls r then w_sni r else None.

(** The repairs of this round; [false] = the code before the repair. *)
Record fixes := mkFixes {
  fx_nohost : bool;      (* a request without host header (and without default host) gets a URI without authority *)
  fx_authority : bool;   (* only a valid authority becomes part of the URI *)
  fx_h2auth : bool }.    (* [get_from_request] falls back on the URI's authority *)
Definition fixed : fixes := mkFixes true true true.
Definition snapshot : fixes := mkFixes false false false.

Section Wire.
  (** [http::uri::Authority::try_from(bytes).is_ok()] — behaviour of the crate [http], external. *)
  Variable auth_ok : bytes -> bool.

  (** [kvarn_async::read::request] (src/application.rs has a copy): the Host value is the last
      Host line or, without one, the default host's name; it becomes the authority of the URI.
      Result: the [host] header values of the request and the authority of its URI, or [None]:
      the request is not accepted and the connection is closed without an answer.
      Before the repairs: [NoHost] without a value; a value which is not an authority makes the
      URI invalid ([InvalidPath]) — faithful for values without '/', '?', '#', which move part
      of the value into the path instead.  After them: without a usable value the URI is the
      request target alone, if that is in origin form (starts with '/'); else [NoHost] as before. *)
  Definition h1_accept (fx : fixes) (c : collection) (hh : list bytes) (target : bytes) : option (list bytes * option bytes) :=
    let origin_form := starts_with [47] target in
    match (match wire_hosts hh with h :: _ => Some h | [] => c_default c end) with
    | None => if fx_nohost fx && origin_form then Some (wire_hosts hh, None) else None
    | Some h =>
        if auth_ok h then Some (wire_hosts hh, Some h)
        else if fx_authority fx && origin_form then Some (wire_hosts hh, None) else None
    end.

  (** [ResolvesServerCert::resolve] for [Collection]: the handshake succeeds iff
      [get_option_or_default(client_hello.server_name())] finds a host (every host of a history
      has a certificate). *)
  Definition tls_accepts (c : collection) (sni : option bytes) : bool :=
    match get_option_or_default V1 c sni with
    | Ok (Some _) => true
    | _ => false
    end.

  Definition wire_request (fx : fixes) (c : collection) (st : nat -> hstate) (r : wreq)
    : outcome ((nat -> hstate) * wire_reply) :=
    if w_tls r && negb (tls_accepts c (w_sni r)) then Ok (st, WNoTls)
    else
    match (if w_tr r =? TR_H2 then Some (w_hosts r, w_authority r) else h1_accept fx c (w_hosts r) (w_path r)) with
    | None => Ok (st, WClosed)
    | Some (hh, authority) =>
        match choose_host_uri (fx_h2auth fx) V1 c (w_conn_sni r) hh authority with
        | Panic => Panic
        | Err e => Err e
        | Ok Refuse409 => Ok (st, W409)
        | Ok (ServeWith h) =>
            let i := hid h in
            let (s', rep) := marker_serve i (st i) (w_method r) (w_path r) (w_flags r) in
            Ok (upd st i s', rep)
        end
    end.

  Fixpoint wire_history (fx : fixes) (c : collection) (st : nat -> hstate) (reqs : list wreq)
    : list (outcome wire_reply) :=
    match reqs with
    | [] => []
    | r :: rest =>
        match wire_request fx c st r with
        | Ok (st', rep) => Ok rep :: wire_history fx c st' rest
        | Err e => Err e :: wire_history fx c st rest
        | Panic => Panic :: wire_history fx c st rest
        end
    end.
End Wire.

(** The specification of such a history: the multi-host server above with the reference
    resolver as routing function and the marker handlers as per-host [serve].  The Host header
    of a request: HTTP/1.x — the last Host line; HTTP/2 — the first [host] field if it is text,
    else [:authority]. *)
Definition wire_host_header (r : wreq) : option bytes :=
  if w_tr r =? TR_H2 then first_some (text_hd (w_hosts r)) (w_authority r)
  else hd_error (wire_hosts (w_hosts r)).
Definition wire_serve (i : nat) (s : hstate) (r : wreq) : hstate * wire_reply :=
  marker_serve i s (w_method r) (w_path r) (w_flags r).
Definition wire_route (ops : list op) (r : wreq) : option nat :=
  reference_general ops (w_conn_sni r) (wire_host_header r).
Fixpoint wire_spec (ops : list op) (st : nat -> hstate) (reqs : list wreq) : list wire_reply :=
  match reqs with
  | [] => []
  | r :: rest =>
      let (st', rep) := rstep hstate wreq wire_reply wire_serve (wire_route ops) W409 st r in
      rep :: wire_spec ops st' rest
  end.

(** Known class tls-handshake-refused: over TLS the certificate — and with it whether the
    handshake succeeds at all — is chosen by the SNI alone, before any request is read. *)
Definition tls_refused (ops : list op) (r : wreq) : bool :=
  w_tls r && match reference_general ops (w_sni r) None with None => true | Some _ => false end.

(** ==============================================================================
    xval interface. *)
Definition d_hostcfg (x : xval) : option op :=
  match x with
  | XL [d; XB name; alts] =>
      match d_bool d, d_list d_B alts with
      | Some d, Some alts => Some (d, {| h_name := name; h_alts := alts |})
      | _, _ => None
      end
  | _ => None
  end.
Definition d_ops (x : xval) : option (list op) := d_list d_hostcfg x.

Definition x_hostres (r : outcome (option host)) : xval :=
  x_outcome (x_option (fun h => XL [x_nat (hid h); XB (hname h)])) r.

(** a query: (L (N 0) (L [sni]) (L hosthdr...))  get_from_request
             (L (N 1) name)                      get_host
             (L (N 2) name)                      get_or_default
             (L (N 3))                           get_default
             (L (N 4) name)                      clear_page / clear_file target
             (L (N 5) (L [filter]))              clear_*_caches targets (sorted ids)
             (L (N 6) (L [sni]) (L hosthdr...))  handle_connection's choice
             (L (N 7) (L [sni]) (L hosthdr...) authority)  get_from_request, the URI has this authority *)
Fixpoint insert_sorted (n : nat) (l : list nat) : list nat :=
  match l with
  | [] => [n]
  | x :: r => if Nat.leb n x then n :: l else x :: insert_sorted n r
  end.
Definition sort_nats (l : list nat) : list nat := fold_right insert_sorted [] l.

Definition run_query (v : version) (c : collection) (q : xval) : xval :=
  match q with
  | XL [XN 0; sni; hh] =>
      match d_option d_B sni, d_list d_B hh with
      | Some sni, Some hh => x_hostres (get_from_request v c sni hh)
      | _, _ => bad_input
      end
  | XL [XN 7; sni; hh; XB authority] =>
      match d_option d_B sni, d_list d_B hh with
      | Some sni, Some hh => x_hostres (get_from_request_uri true v c sni hh (Some authority))
      | _, _ => bad_input
      end
  | XL [XN 1; XB name] => x_hostres (get_host v c name)
  | XL [XN 2; XB name] => x_hostres (get_or_default v c name)
  | XL [XN 3] => x_hostres (get_default v c)
  | XL [XN 4; XB name] => x_hostres (clear_target v c name)
  | XL [XN 5; f] =>
      match d_option d_B f with
      | Some f => x_list x_nat (sort_nats (map hid (clear_all_targets c f)))
      | None => bad_input
      end
  | XL [XN 6; sni; hh] =>
      match d_option d_B sni, d_list d_B hh with
      | Some sni, Some hh =>
          x_outcome (fun ch => match ch with Refuse409 => XL [XN 409] | ServeWith h => XL [XN 200; x_nat (hid h)] end)
                    (choose_host v c sni hh)
      | _, _ => bad_input
      end
  | _ => bad_input
  end.

(** component input: (L ops (L query...)); output: outcome of the build, then one
    result per query. *)
Definition run_lookup_v (v : version) (x : xval) : xval :=
  match x with
  | XL [ops; XL qs] =>
      match d_ops ops with
      | Some ops =>
          match build ops with
          | Ok c => XL [XN 0; XL (map (run_query v c) qs)]
          | Err e => XL [XN 1; XN e]
          | Panic => XL [XN 2]
          end
      | None => bad_input
      end
  | _ => bad_input
  end.
Definition run_lookup := run_lookup_v V1.
Definition run_lookup_v0 := run_lookup_v V0.

(** spec component (oracle): the reference resolver on the same input.  Only the
    [get_from_request] queries (kinds 0 and 6) have a specified answer. *)
Definition x_ref (r : option nat) : xval := x_option x_nat r.
Definition run_spec_query (ops : list op) (q : xval) : xval :=
  match q with
  | XL [XN k; sni; hh] =>
      match d_option d_B sni, d_list d_B hh with
      | Some sni, Some hh =>
          let hdr := match hh with [] => None | h :: _ => Some h end in
          let r := if no_overlapb (map snd ops)
                   then reference (map snd ops) (default_index O ops) sni hdr
                   else reference_general ops sni hdr in
          XL [XN k; x_ref r]
      | _, _ => bad_input
      end
  (* get_host: the owner of exactly this name; get_or_default: the reference resolver on the name;
     get_default; clear_page / clear_file; clear_*_caches: the ids reached, ascending *)
  (* get_from_request on a request whose URI has an authority: the Host header if it is text, else the authority *)
  | XL [XN 7; sni; hh; XB authority] =>
      match d_option d_B sni, d_list d_B hh with
      | Some sni, Some hh => XL [XN 7; x_ref (reference_general ops sni (first_some (text_hd hh) (Some authority)))]
      | _, _ => bad_input
      end
  | XL [XN 1; XB name] => XL [XN 1; x_ref (option_map hid (owner O (map snd ops) name))]
  | XL [XN 2; XB name] => XL [XN 2; x_ref (reference_general ops (Some name) None)]
  | XL [XN 3] => XL [XN 3; x_ref (reference_general ops None None)]
  | XL [XN 4; XB name] => XL [XN 4; x_ref (clear_reference ops name)]
  | XL [XN 5; f] =>
      match d_option d_B f with
      | Some f => XL [XN 5; x_list x_nat (List.filter (cleared_by_all ops f) (seq O (length ops)))]
      | None => bad_input
      end
  | _ => XL []
  end.
Definition at_most_one_default (ops : list op) : bool :=
  Nat.leb (length (List.filter (fun o => fst o) ops)) 1.
Definition run_lookup_spec (x : xval) : xval :=
  match x with
  | XL [ops; XL qs] =>
      match d_ops ops with
      | Some ops =>
          if at_most_one_default ops then XL [XN 0; XL (map (run_spec_query ops) qs)] else XL [XN 2]
      | None => bad_input
      end
  | _ => bad_input
  end.

(** component input: (L hosts (L req ...)): a history of requests over loopback connections
    against one server; hosts = (L (L default name (L alt...) opts) ...), [opts] says how the
    harness constructs the [Host] (no effect on the model);
    req = (L transport sni v10 method (L hosthdr...) authority path flags). *)
Definition x_wire (r : outcome wire_reply) : xval :=
  x_outcome (fun w => match w with
                      | WClosed => XL [XN 0]
                      | WNoTls => XL [XN 1]
                      | W409 => XL [XN 409]
                      | W304 => XL [XN 304]
                      | W200 h n => XL [XN 200; x_nat h; XN n]
                      end) r.
Definition d_whost (x : xval) : option op :=
  match x with
  | XL [d; XB name; alts; XN _] => d_hostcfg (XL [d; XB name; alts])
  | _ => None
  end.
(** what the clients of the harness can put on the wire, and what the marker model covers: *)
Definition c_upper (c : N) : bool := (65 <=? c) && (c <=? 90).
Definition dns_char (c : N) : bool :=
  ((97 <=? c) && (c <=? 122)) || ((48 <=? c) && (c <=? 57)) || (c =? 45) || (c =? 46).
Definition d_wreq (x : xval) : option wreq :=
  match x with
  | XL [XN tr; sni; v10; XB m; hh; auth; XB path; XN flags] =>
      match d_option d_B sni, d_bool v10, d_list d_B hh, d_option d_B auth with
      | Some sni, Some v10, Some hh, Some auth =>
          if (tr <=? 2)
             && negb ((tr =? 0) && match sni with Some _ => true | None => false end)
             && negb ((tr =? 2) && (v10 || match auth with None => true | Some _ => false end))
             && negb (negb (tr =? 2) && match auth with Some _ => true | None => false end)
             && negb (N.testbit flags 1 && N.testbit flags 2) && (flags <? 8)
             && starts_with [47] path && (starts_with [47; 104] path || (beq m s_GET && (flags <? 2)))
          then Some (mkW tr sni v10 m hh auth path flags) else None
      | _, _, _, _ => None
      end
  | _ => None
  end.
(** [Authority::try_from] in the executable model: the transcription of the crate's parser made for C07
    (Model/Http1Read.v [authority_ok]) *)
Definition auth_ok_http : bytes -> bool := Http1Read.authority_ok.
Definition run_wire (x : xval) : xval :=
  match x with
  | XL [hosts; reqs] =>
      match d_list d_whost hosts, d_list d_wreq reqs with
      | Some ops, Some reqs =>
          match build ops with
          | Ok c => XL [XN 0; XL (map x_wire (wire_history auth_ok_http fixed c (fun _ => hstate0) reqs))]
          | Err e => XL [XN 1; XN e]
          | Panic => XL [XN 2]
          end
      | _, _ => bad_input
      end
  | _ => bad_input
  end.

Definition run_wire_spec (x : xval) : xval :=
  match x with
  | XL [hosts; reqs] =>
      match d_list d_whost hosts, d_list d_wreq reqs with
      | Some ops, Some reqs =>
          if at_most_one_default ops
          then XL [XN 0; XL (map (fun w => x_wire (Ok w)) (wire_spec ops (fun _ => hstate0) reqs));
                   XL (map (fun r => x_bool (tls_refused ops r)) reqs)]
          else XL [XN 2]
      | _, _ => bad_input
      end
  | _ => bad_input
  end.

(** component hosts.wire2: (L hosts (L history ...)): one client per history, all running concurrently against the
    same server.  Only for histories that are routed to pairwise disjoint sets of hosts (otherwise the replies
    depend on the schedule): by Properties/C15.v [wire_concurrent_clients] every client then sees, in every
    interleaving, what it would see alone. *)
Definition wire_touches (ops : list op) (reqs : list wreq) (i : nat) : bool :=
  existsb (fun r => match wire_route ops r with Some j => Nat.eqb j i | None => false end) reqs.
Definition hosts_touched (ops : list op) (reqs : list wreq) : list nat :=
  flat_map (fun r => match wire_route ops r with Some i => [i] | None => [] end) reqs.
Definition disjointb (a b : list nat) : bool := forallb (fun x => negb (existsb (Nat.eqb x) b)) a.
Fixpoint pairwise_disjoint (l : list (list nat)) : bool :=
  match l with
  | [] => true
  | a :: r => forallb (disjointb a) r && pairwise_disjoint r
  end.
Definition run_wire2_with (f : list op -> list wreq -> xval) (x : xval) : xval :=
  match x with
  | XL [hosts; XL hs] =>
      match d_list d_whost hosts, d_all (d_list d_wreq) hs with
      | Some ops, Some hs' =>
          if negb (pairwise_disjoint (map (hosts_touched ops) hs')) then bad_input
          else if negb (at_most_one_default ops) then XL [XN 2]
          else XL [XN 0; XL (map (f ops) hs')]
      | _, _ => bad_input
      end
  | _ => bad_input
  end.
Definition run_wire2 : xval -> xval :=
  run_wire2_with (fun ops reqs =>
    match build ops with
    | Ok c => XL (map x_wire (wire_history auth_ok_http fixed c (fun _ => hstate0) reqs))
    | _ => bad_input
    end).
Definition run_wire2_spec : xval -> xval :=
  run_wire2_with (fun ops reqs => XL (map (fun w => x_wire (Ok w)) (wire_spec ops (fun _ => hstate0) reqs))).

Definition hosts_table : list (bytes * (xval -> xval)) :=
  [ (B "hosts.lookup", run_lookup);
    (B "hosts.lookup_v0", run_lookup_v0);
    (B "hosts.spec", run_lookup_spec);
    (B "hosts.wire", run_wire);
    (B "hosts.wire_spec", run_wire_spec);
    (B "hosts.wire2", run_wire2);
    (B "hosts.wire2_spec", run_wire2_spec) ].
