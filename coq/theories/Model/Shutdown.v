(** C10 — graceful shutdown: an executable small-step labelled transition system of
    [shutdown::Manager] (src/shutdown.rs), the accept future and the accept loop with its
    connection tasks (src/lib.rs [accept], [RunConfig::execute]) and of the users of the manager
    (src/ctl.rs: the [shutdown] / [wait] plugins are a shutdown caller plus a pre-shutdown hook).
    Definitions only; proofs are in Proofs/ShutdownProofs.v.

    Granularity: one transition = one access to shared memory (an atomic load / store /
    fetch_add / fetch_sub / swap, a write of a waker slot, a channel send) together with the
    thread-local code up to the next such access — exactly the blocks between two hook points
    [crate::verif::point] of the instrumented code.  Interleavings are sequentially consistent;
    the Release/Acquire store-buffering executions that C/C++11 allows are NOT executions of
    this model.  [WakerList::notify] (take every waker under the mutex, wake it) is one
    transition: every slot is written by exactly one listener, so per-slot steps commute with
    everything except that listener's own accesses.

    The model is parametric in a [variant]: which of the three repairs are present.
    [today] = kvarn 0.6.3 as found, [repaired] = the code after the three [fix:] commits. *)
From KV Require Export Bytes.
Open Scope nat_scope.

Record variant : Type := {
  fixA : bool;  (* the accept loop holds one count while it can accept, and counts a connection before spawning its task *)
  fixB : bool;  (* remove_connection runs from a drop guard: also when the handler panics *)
  fixC : bool   (* the accept poll reads the flag again after set_waker *)
}.
Definition today : variant := {| fixA := false; fixB := false; fixC := false |}.
Definition repaired : variant := {| fixA := true; fixB := true; fixC := true |}.

(** [remove_connection]: fetch_sub; if the new count <= 0: load flag; if set: [_shutdown] (swap). *)
Inductive rpc : Type := RStart | RCheck | RSwap.

(** One accept-loop task (src/lib.rs [accept] + [AcceptFuture::accept]). *)
Inductive lpc : Type :=
| LTop        (* about to poll the select! of the accept future *)
| LFlag       (* poll_fn loaded flag = false, before set_waker *)
| LWaker      (* waker slot written *)
| LChecked    (* (fixC) second load of the flag = false *)
| LParked     (* both branches Pending *)
| LGot        (* accept() returned a stream (waker slot cleared) *)
| LCounted    (* (fixA) the stream is counted, task not yet spawned *)
| LShut       (* accept() returned Shutdown; listener not yet dropped *)
| LRel (r : rpc) (* (fixA) port closed, releasing the loop's own count *)
| LExited.
Record listener : Type := { l_pc : lpc; l_slot : bool; l_woken : bool; l_queue : nat }.

(** One connection task. *)
Inductive cpc : Type :=
| CSpawned    (* (today) task exists, add_connection not yet executed *)
| CRunning    (* counted, handle_connection running *)
| CPanicked   (* (today) the task unwound without remove_connection *)
| CRem (r : rpc)
| CDone.

(** [Manager::shutdown]. *)
Inductive spc : Type := SNew | SSet | SInit | SSwap | SNotify | SDone.
(** The completion task spawned by [_shutdown]. *)
Inductive kpc : Type := KNone | KSpawned | KSent | KLoop | KFinished.
(** A pre-shutdown hook ([wait_for_pre_shutdown]; ctl's [shutdown]/[wait] plugins). *)
Inductive hpc : Type := HNew | HReg | HSig | HAcked.

Record state : Type := {
  gS : bool;              (* Manager.shutdown *)
  gD : bool;              (* Manager.shutting_down *)
  gC : Z;                 (* Manager.connections *)
  init_sent : bool;       (* inititate_channel (and removal of the handover socket) *)
  pre_count : nat;        (* pre_shutdown_count *)
  pre_sent : bool;        (* pre_shutdown_channel has been sent *)
  want : nat;             (* completion task: wanted *)
  acks : nat;             (* confirmations sent by hooks *)
  received : nat;         (* completion task: recieved *)
  finished : bool;        (* finished_channel has been sent: wait() resolves *)
  comp : kpc;
  ls : list listener;
  cs : list cpc;
  callers : list spc;
  hooks : list hpc;
  waiters : list bool     (* wait() future resolved *)
}.

Inductive label : Type :=
| LStep (i : nat)   (* listener i: its next access *)
| LTake (i : nat)   (* listener i: select! takes a queued connection *)
| EConn (i : nat)   (* environment: a client connects to the port of listener i *)
| CStep (c : nat)   (* connection task c: next access; from CRunning: the handler returns *)
| CPanic (c : nat)  (* connection task c: the handler panics *)
| SStep (k : nat)   (* shutdown caller k *)
| KStep             (* completion task *)
| HStep (h : nat)   (* hook h *)
| WStep (w : nat).  (* waiter w *)

Definition is_env (l : label) : bool := match l with EConn _ => true | _ => false end.

(** ---- state updates ---------------------------------------------------------------- *)
Fixpoint upd {A} (i : nat) (x : A) (l : list A) : list A :=
  match l, i with
  | [], _ => []
  | _ :: r, O => x :: r
  | a :: r, S j => a :: upd j x r
  end.

Definition with_ls (s : state) (v : list listener) : state :=
  {| gS := gS s; gD := gD s; gC := gC s; init_sent := init_sent s; pre_count := pre_count s; pre_sent := pre_sent s;
     want := want s; acks := acks s; received := received s; finished := finished s; comp := comp s;
     ls := v; cs := cs s; callers := callers s; hooks := hooks s; waiters := waiters s |}.
Definition with_cs (s : state) (v : list cpc) : state :=
  {| gS := gS s; gD := gD s; gC := gC s; init_sent := init_sent s; pre_count := pre_count s; pre_sent := pre_sent s;
     want := want s; acks := acks s; received := received s; finished := finished s; comp := comp s;
     ls := ls s; cs := v; callers := callers s; hooks := hooks s; waiters := waiters s |}.
Definition with_callers (s : state) (v : list spc) : state :=
  {| gS := gS s; gD := gD s; gC := gC s; init_sent := init_sent s; pre_count := pre_count s; pre_sent := pre_sent s;
     want := want s; acks := acks s; received := received s; finished := finished s; comp := comp s;
     ls := ls s; cs := cs s; callers := v; hooks := hooks s; waiters := waiters s |}.
Definition with_hooks (s : state) (v : list hpc) : state :=
  {| gS := gS s; gD := gD s; gC := gC s; init_sent := init_sent s; pre_count := pre_count s; pre_sent := pre_sent s;
     want := want s; acks := acks s; received := received s; finished := finished s; comp := comp s;
     ls := ls s; cs := cs s; callers := callers s; hooks := v; waiters := waiters s |}.
Definition with_waiters (s : state) (v : list bool) : state :=
  {| gS := gS s; gD := gD s; gC := gC s; init_sent := init_sent s; pre_count := pre_count s; pre_sent := pre_sent s;
     want := want s; acks := acks s; received := received s; finished := finished s; comp := comp s;
     ls := ls s; cs := cs s; callers := callers s; hooks := hooks s; waiters := v |}.
Definition with_S (s : state) (v : bool) : state :=
  {| gS := v; gD := gD s; gC := gC s; init_sent := init_sent s; pre_count := pre_count s; pre_sent := pre_sent s;
     want := want s; acks := acks s; received := received s; finished := finished s; comp := comp s;
     ls := ls s; cs := cs s; callers := callers s; hooks := hooks s; waiters := waiters s |}.
Definition with_C (s : state) (v : Z) : state :=
  {| gS := gS s; gD := gD s; gC := v; init_sent := init_sent s; pre_count := pre_count s; pre_sent := pre_sent s;
     want := want s; acks := acks s; received := received s; finished := finished s; comp := comp s;
     ls := ls s; cs := cs s; callers := callers s; hooks := hooks s; waiters := waiters s |}.
Definition with_init (s : state) : state :=
  {| gS := gS s; gD := gD s; gC := gC s; init_sent := true; pre_count := pre_count s; pre_sent := pre_sent s;
     want := want s; acks := acks s; received := received s; finished := finished s; comp := comp s;
     ls := ls s; cs := cs s; callers := callers s; hooks := hooks s; waiters := waiters s |}.
(** the completion task's and the hooks' private part *)
Definition with_comp (s : state) (pc : nat) (ps : bool) (w a r : nat) (f : bool) (k : kpc) : state :=
  {| gS := gS s; gD := gD s; gC := gC s; init_sent := init_sent s; pre_count := pc; pre_sent := ps;
     want := w; acks := a; received := r; finished := f; comp := k;
     ls := ls s; cs := cs s; callers := callers s; hooks := hooks s; waiters := waiters s |}.

(** [_shutdown]: [if shutting_down.swap(true) { return }; tokio::spawn(completion)] *)
Definition swapD (s : state) : state :=
  if gD s then s else
  {| gS := gS s; gD := true; gC := gC s; init_sent := init_sent s; pre_count := pre_count s; pre_sent := pre_sent s;
     want := want s; acks := acks s; received := received s; finished := finished s; comp := KSpawned;
     ls := ls s; cs := cs s; callers := callers s; hooks := hooks s; waiters := waiters s |}.

(** one access of [remove_connection]; [None] = the method has returned *)
Definition rstep (s : state) (r : rpc) : state * option rpc :=
  match r with
  | RStart => let n := (gC s - 1)%Z in (with_C s n, if (n <=? 0)%Z then Some RCheck else None)
  | RCheck => (s, if gS s then Some RSwap else None)
  | RSwap => (swapD s, None)
  end.

(** [WakerList::notify] *)
Definition notify_one (l : listener) : listener :=
  if l_slot l then {| l_pc := l_pc l; l_slot := false; l_woken := true; l_queue := l_queue l |} else l.

Definition set_lpc (l : listener) (p : lpc) : listener :=
  {| l_pc := p; l_slot := l_slot l; l_woken := l_woken l; l_queue := l_queue l |}.

Definition l_bound (l : listener) : bool :=
  match l_pc l with LRel _ | LExited => false | _ => true end.

(** both branches of the select! are Pending: park (only when no connection is queued) *)
Definition park (l : listener) : option listener :=
  match l_queue l with O => Some (set_lpc l LParked) | S _ => None end.

(** ---- the transition function ---------------------------------------------------------- *)
Definition step_listener (v : variant) (s : state) (i : nat) (l : listener) : option state :=
  match l_pc l with
  | LTop => Some (with_ls s (upd i (set_lpc l (if gS s then LShut else LFlag)) (ls s)))
  | LFlag => Some (with_ls s (upd i {| l_pc := LWaker; l_slot := true; l_woken := l_woken l; l_queue := l_queue l |} (ls s)))
  | LWaker =>
      if fixC v then Some (with_ls s (upd i (set_lpc l (if gS s then LShut else LChecked)) (ls s)))
      else option_map (fun l' => with_ls s (upd i l' (ls s))) (park l)
  | LChecked => option_map (fun l' => with_ls s (upd i l' (ls s))) (park l)
  | LParked =>
      if l_woken l || negb (Nat.eqb (l_queue l) 0)
      then Some (with_ls s (upd i {| l_pc := LTop; l_slot := l_slot l; l_woken := false; l_queue := l_queue l |} (ls s)))
      else None
  | LGot =>
      if fixA v then Some (with_ls (with_C s (gC s + 1)%Z) (upd i (set_lpc l LCounted) (ls s)))
      else Some (with_cs (with_ls s (upd i (set_lpc l LTop) (ls s))) (cs s ++ [CSpawned]))
  | LCounted => Some (with_cs (with_ls s (upd i (set_lpc l LTop) (ls s))) (cs s ++ [CRunning]))
  | LShut =>
      Some (with_ls s (upd i {| l_pc := if fixA v then LRel RStart else LExited; l_slot := false;
                                 l_woken := l_woken l; l_queue := l_queue l |} (ls s)))
  | LRel r =>
      let (s', o) := rstep s r in
      Some (with_ls s' (upd i (set_lpc l (match o with Some r' => LRel r' | None => LExited end)) (ls s')))
  | LExited => None
  end.

Definition can_take (v : variant) (p : lpc) : bool :=
  match p with
  | LTop => true
  | LWaker => negb (fixC v)
  | LChecked => true
  | _ => false
  end.

Definition step_take (v : variant) (s : state) (i : nat) (l : listener) : option state :=
  match l_queue l with
  | O => None
  | S q =>
      if can_take v (l_pc l)
      then Some (with_ls s (upd i {| l_pc := LGot; l_slot := false; l_woken := l_woken l; l_queue := q |} (ls s)))
      else None
  end.

Definition step_conn (s : state) (c : nat) (p : cpc) : option state :=
  match p with
  | CSpawned => Some (with_cs (with_C s (gC s + 1)%Z) (upd c CRunning (cs s)))
  | CRunning => Some (with_cs s (upd c (CRem RStart) (cs s)))
  | CRem r =>
      let (s', o) := rstep s r in
      Some (with_cs s' (upd c (match o with Some r' => CRem r' | None => CDone end) (cs s')))
  | CPanicked | CDone => None
  end.

Definition step_panic (v : variant) (s : state) (c : nat) (p : cpc) : option state :=
  match p with
  | CRunning => Some (with_cs s (upd c (if fixB v then CRem RStart else CPanicked) (cs s)))
  | _ => None
  end.

Definition step_caller (s : state) (k : nat) (p : spc) : option state :=
  match p with
  | SNew => Some (with_callers (with_S s true) (upd k SSet (callers s)))
  | SSet => Some (with_callers (with_init s) (upd k SInit (callers s)))
  | SInit => Some (with_callers s (upd k (if (gC s <=? 0)%Z then SSwap else SNotify) (callers s)))
  | SSwap => let s' := swapD s in Some (with_callers s' (upd k SNotify (callers s')))
  | SNotify => Some (with_callers (with_ls s (map notify_one (ls s))) (upd k SDone (callers s)))
  | SDone => None
  end.

Definition step_comp (s : state) : option state :=
  match comp s with
  | KNone | KFinished => None
  | KSpawned => Some (with_comp s (pre_count s) true (want s) (acks s) (received s) (finished s) KSent)
  | KSent => Some (with_comp s (pre_count s) (pre_sent s) (pre_count s) (acks s) (received s) (finished s) KLoop)
  | KLoop =>
      if Nat.leb (want s) (received s)
      then Some (with_comp s (pre_count s) (pre_sent s) (want s) (acks s) (received s) true KFinished)
      else if Nat.ltb (received s) (acks s)
      then Some (with_comp s (pre_count s) (pre_sent s) (want s) (acks s) (S (received s)) (finished s) KLoop)
      else None
  end.

Definition step_hook (s : state) (h : nat) (p : hpc) : option state :=
  match p with
  | HNew => Some (with_hooks (with_comp s (S (pre_count s)) (pre_sent s) (want s) (acks s) (received s) (finished s) (comp s))
                             (upd h HReg (hooks s)))
  | HReg => if pre_sent s then Some (with_hooks s (upd h HSig (hooks s))) else None
  | HSig => Some (with_hooks (with_comp s (pre_count s) (pre_sent s) (want s) (S (acks s)) (received s) (finished s) (comp s))
                             (upd h HAcked (hooks s)))
  | HAcked => None
  end.

Definition step (v : variant) (s : state) (lb : label) : option state :=
  match lb with
  | LStep i => match nth_error (ls s) i with Some l => step_listener v s i l | None => None end
  | LTake i => match nth_error (ls s) i with Some l => step_take v s i l | None => None end
  | EConn i =>
      match nth_error (ls s) i with
      | Some l =>
          if l_bound l
          then Some (with_ls s (upd i {| l_pc := l_pc l; l_slot := l_slot l; l_woken := l_woken l; l_queue := S (l_queue l) |} (ls s)))
          else None
      | None => None
      end
  | CStep c => match nth_error (cs s) c with Some p => step_conn s c p | None => None end
  | CPanic c => match nth_error (cs s) c with Some p => step_panic v s c p | None => None end
  | SStep k => match nth_error (callers s) k with Some p => step_caller s k p | None => None end
  | KStep => step_comp s
  | HStep h => match nth_error (hooks s) h with Some p => step_hook s h p | None => None end
  | WStep w =>
      match nth_error (waiters s) w with
      | Some false => if finished s then Some (with_waiters s (upd w true (waiters s))) else None
      | _ => None
      end
  end.

(** Initial state: [nl] listeners bound and in their loop (with the repair each holds one
    count, taken in [execute] before the accept task is spawned), no connection yet, [nc]
    threads that will call [shutdown()], [nh] hooks not yet registered, [nw] tasks in [wait()]. *)
Definition new_listener : listener := {| l_pc := LTop; l_slot := false; l_woken := false; l_queue := 0 |}.
Definition init (v : variant) (nl nc nh nw : nat) : state :=
  {| gS := false; gD := false; gC := if fixA v then Z.of_nat nl else 0%Z; init_sent := false;
     pre_count := 0; pre_sent := false; want := 0; acks := 0; received := 0; finished := false; comp := KNone;
     ls := repeat new_listener nl; cs := []; callers := repeat SNew nc; hooks := repeat HNew nh;
     waiters := repeat false nw |}.

(** A schedule is a list of labels; [run] stops at the first label that is not enabled. *)
Fixpoint run (v : variant) (s : state) (sched : list label) : option state :=
  match sched with
  | [] => Some s
  | lb :: r => match step v s lb with Some s' => run v s' r | None => None end
  end.

Inductive reachable (v : variant) : state -> Prop :=
| reach_init nl nc nh nw : reachable v (init v nl nc nh nw)
| reach_step s lb s' : reachable v s -> step v s lb = Some s' -> reachable v s'.

(** ---- the property's vocabulary -------------------------------------------------------- *)
(** an accepted connection whose handler has not ended: a stream in the hands of the accept
    loop, or a task that is still to run / running *)
Definition l_holds (l : listener) : bool := match l_pc l with LGot | LCounted => true | _ => false end.
Definition c_done (p : cpc) : bool := match p with CSpawned | CRunning => false | _ => true end.
Definition all_done (s : state) : bool := forallb (fun l => negb (l_holds l)) (ls s) && forallb c_done (cs s).

Definition requested (s : state) : bool := gS s.
Definition l_exited (l : listener) : bool := match l_pc l with LExited => true | _ => false end.
Definition h_acked (p : hpc) : bool := match p with HAcked => true | _ => false end.
Definition h_registered (p : hpc) : bool := match p with HNew => false | _ => true end.
Definition c_over (p : cpc) : bool := match p with CDone => true | _ => false end.

(** no thread of the server or of its users can move (the environment still may) *)
Definition quiescent (v : variant) (s : state) : Prop := forall lb, is_env lb = false -> step v s lb = None.

(** the state the property demands once nothing moves any more *)
Definition completed (s : state) : bool :=
  finished s && forallb l_exited (ls s) && forallb c_over (cs s) && forallb h_acked (hooks s)
  && forallb (fun w => w) (waiters s).

(** executable quiescence test (all labels that could be enabled, by thread lists) *)
Definition thread_labels (s : state) : list label :=
  map LStep (seq 0 (length (ls s))) ++ map LTake (seq 0 (length (ls s))) ++
  map CStep (seq 0 (length (cs s))) ++ map CPanic (seq 0 (length (cs s))) ++
  map SStep (seq 0 (length (callers s))) ++ [KStep] ++
  map HStep (seq 0 (length (hooks s))) ++ map WStep (seq 0 (length (waiters s))).
Definition enabledb (v : variant) (s : state) (lb : label) : bool :=
  match step v s lb with Some _ => true | None => false end.
Definition quiescentb (v : variant) (s : state) : bool := negb (existsb (enabledb v s) (thread_labels s)).

(** ---- whole-method steps (method-level differential on a real Manager) ------------------
    A method call runs its thread to the end without interleaving; the completion task runs
    whenever the caller yields to the runtime (after every operation). *)
Fixpoint run_r (fuel : nat) (s : state) (r : rpc) : state :=
  match fuel with
  | O => s
  | S f => let (s', o) := rstep s r in match o with Some r' => run_r f s' r' | None => s' end
  end.
Fixpoint run_comp (fuel : nat) (s : state) : state :=
  match fuel with
  | O => s
  | S f => match step_comp s with Some s' => run_comp f s' | None => s end
  end.
Fixpoint run_caller (fuel : nat) (s : state) (k : nat) : state :=
  match fuel with
  | O => s
  | S f => match step (today) s (SStep k) with Some s' => run_caller f s' k | None => s end
  end.

Inductive mop : Type :=
| MAdd | MRemove | MShutdown | MHookReg | MHookAck (h : nat) | MYield.

Definition settle (s : state) : state := run_comp (4 + want s + pre_count s) s.

Definition mstep (s : state) (o : mop) : state :=
  match o with
  | MAdd => with_C s (gC s + 1)%Z
  | MRemove => run_r 3 s RStart
  | MShutdown => let k := length (callers s) in run_caller 6 (with_callers s (callers s ++ [SNew])) k
  | MHookReg => let h := length (hooks s) in
                match step_hook (with_hooks s (hooks s ++ [HNew])) h HNew with Some s' => s' | None => s end
  | MHookAck h =>
      (* the hook future is polled first (HReg -> HSig when signalled), then the sender is used *)
      let s1 := match nth_error (hooks s) h with
                | Some HReg => match step_hook s h HReg with Some s' => s' | None => s end
                | _ => s end in
      match nth_error (hooks s1) h with
      | Some HSig => match step_hook s1 h HSig with Some s' => s' | None => s1 end
      | _ => s1
      end
  | MYield => s
  end.

(** ---- xval interface ---------------------------------------------------------------------- *)
Definition x_rpc (r : rpc) : N := match r with RStart => 0 | RCheck => 1 | RSwap => 2 end%N.
Definition x_lpc (p : lpc) : N :=
  match p with
  | LTop => 0 | LFlag => 1 | LWaker => 2 | LChecked => 3 | LParked => 4 | LGot => 5 | LCounted => 6 | LShut => 7
  | LRel r => 8 + x_rpc r | LExited => 11
  end%N.
Definition x_cpc (p : cpc) : N :=
  match p with CSpawned => 0 | CRunning => 1 | CPanicked => 2 | CRem r => 3 + x_rpc r | CDone => 6 end%N.
Definition x_spc (p : spc) : N :=
  match p with SNew => 0 | SSet => 1 | SInit => 2 | SSwap => 3 | SNotify => 4 | SDone => 5 end%N.
Definition x_kpc (p : kpc) : N :=
  match p with KNone => 0 | KSpawned => 1 | KSent => 2 | KLoop => 3 | KFinished => 4 end%N.
Definition x_hpc (p : hpc) : N := match p with HNew => 0 | HReg => 1 | HSig => 2 | HAcked => 3 end%N.

(** what the harness can observe of a state: flag, count, finished, program counters *)
Definition x_obs (s : state) : xval :=
  XL [x_bool (gS s); x_Z (gC s); x_bool (finished s);
      XL (map (fun l => XN (x_lpc (l_pc l))) (ls s));
      XL (map (fun p => XN (x_cpc p)) (cs s));
      XL (map (fun p => XN (x_spc p)) (callers s));
      XN (x_kpc (comp s));
      XL (map (fun p => XN (x_hpc p)) (hooks s));
      XL (map x_bool (waiters s))].

Definition d_label (x : xval) : option label :=
  match x with
  | XL [XN 0; XN i] => Some (LStep (N.to_nat i))
  | XL [XN 1; XN i] => Some (LTake (N.to_nat i))
  | XL [XN 2; XN i] => Some (EConn (N.to_nat i))
  | XL [XN 3; XN i] => Some (CStep (N.to_nat i))
  | XL [XN 4; XN i] => Some (CPanic (N.to_nat i))
  | XL [XN 5; XN i] => Some (SStep (N.to_nat i))
  | XL [XN 6; XN _] => Some KStep
  | XL [XN 7; XN i] => Some (HStep (N.to_nat i))
  | XL [XN 8; XN i] => Some (WStep (N.to_nat i))
  | _ => None
  end%N.
Definition d_variant (x : xval) : option variant :=
  match x with
  | XL [a; b; c] =>
      match d_bool a, d_bool b, d_bool c with
      | Some a, Some b, Some c => Some {| fixA := a; fixB := b; fixC := c |}
      | _, _, _ => None
      end
  | _ => None
  end.

(** observations after every label; a label that is not enabled ends the trace with (L (N 77)) *)
Fixpoint trace (v : variant) (s : state) (sched : list label) : list xval :=
  match sched with
  | [] => []
  | lb :: r => match step v s lb with Some s' => x_obs s' :: trace v s' r | None => [XL [XN 77]] end
  end.

(** free run to quiescence: the first enabled thread label, repeatedly (deterministic) *)
Fixpoint drain (v : variant) (fuel : nat) (s : state) : state :=
  match fuel with
  | O => s
  | S f => match find (enabledb v s) (thread_labels s) with
           | Some lb => match step v s lb with Some s' => drain v f s' | None => s end
           | None => s
           end
  end.

(** input (L variant (L (N nl) (N nc) (N nh) (N nw)) (L label ...));
    output (L (L obs ...) final) where final = outcome of letting every thread run on after the
    schedule: (L finished all-listeners-closed all-connections-over all-hooks-acked all-waiters-resolved) *)
Definition small (n : N) : bool := (n <=? 16)%N.
Definition x_final (s : state) : xval :=
  XL [x_bool (finished s); x_bool (forallb l_exited (ls s)); x_bool (forallb (fun p => c_over p || match p with CPanicked => true | _ => false end) (cs s));
      x_bool (forallb h_acked (hooks s)); x_bool (forallb (fun w => w) (waiters s))].
Definition run_replay (x : xval) : xval :=
  match x with
  | XL [xv; XL [XN nl; XN nc; XN nh; XN nw]; xs] =>
      match d_variant xv, d_list d_label xs with
      | Some v, Some sched =>
          if small nl && small nc && small nh && small nw then
            let s0 := init v (N.to_nat nl) (N.to_nat nc) (N.to_nat nh) (N.to_nat nw) in
            let obs := trace v s0 sched in
            match run v s0 sched with
            | Some s1 => XL [XL obs; x_final (drain v (400 + 40 * length sched) s1)]
            | None => XL [XL obs; XL []]
            end
          else bad_input
      | _, _ => bad_input
      end
  | _ => bad_input
  end.

(** the property evaluated on the same schedule (spec component): 1 = both clauses hold at every
    step and after the drain; what is compared with the harness' own evaluation of the two clauses
    on the observed run *)
Fixpoint clause1 (v : variant) (s : state) (sched : list label) : bool :=
  (negb (finished s) || all_done s) &&
  match sched with
  | [] => true
  | lb :: r => match step v s lb with Some s' => clause1 v s' r | None => true end
  end.
Definition run_spec (x : xval) : xval :=
  match x with
  | XL [xv; XL [XN nl; XN nc; XN nh; XN nw]; xs] =>
      match d_variant xv, d_list d_label xs with
      | Some v, Some sched =>
          if small nl && small nc && small nh && small nw then
            let s0 := init v (N.to_nat nl) (N.to_nat nc) (N.to_nat nh) (N.to_nat nw) in
            match run v s0 sched with
            | Some s1 =>
                let s2 := drain v (400 + 40 * length sched) s1 in
                XL [x_bool (clause1 v s0 sched && (negb (finished s2) || all_done s2));
                    x_bool (negb (requested s2) || completed s2)]
            | None => XL []
            end
          else bad_input
      | _, _ => bad_input
      end
  | _ => bad_input
  end.

(** method-level: input (L op ...), op = (L (N code) (N arg)); output after every op:
    (L count flag finished (L hook-status ...) initiate-sent), hook status 0 registered / 1 signalled / 2 acknowledged *)
Definition d_mop (x : xval) : option mop :=
  match x with
  | XL [XN 0; XN _] => Some MAdd
  | XL [XN 1; XN _] => Some MRemove
  | XL [XN 2; XN _] => Some MShutdown
  | XL [XN 3; XN _] => Some MHookReg
  | XL [XN 4; XN h] => Some (MHookAck (N.to_nat h))
  | XL [XN 5; XN _] => Some MYield
  | _ => None
  end%N.
Definition x_mobs (s : state) : xval :=
  XL [x_Z (gC s); x_bool (gS s); x_bool (finished s);
      XL (map (fun p => XN (match p with HNew => 0 | HAcked => 2 | _ => if pre_sent s then 1 else 0 end)%N) (hooks s));
      x_bool (init_sent s)].
Fixpoint mtrace (s : state) (ops : list mop) : list xval :=
  match ops with
  | [] => []
  | o :: r => let s' := settle (mstep s o) in x_mobs s' :: mtrace s' r
  end.
Definition run_methods (x : xval) : xval :=
  match d_list d_mop x with
  | Some ops => if Nat.leb (length ops) 400 then XL (mtrace (init today 0 0 0 0) ops) else bad_input
  | None => bad_input
  end.
Definition shutdown_table : list (bytes * (xval -> xval)) :=
  [ (B "shutdown.replay", run_replay);
    (B "shutdown.spec", run_spec);
    (B "shutdown.methods", run_methods) ].
