(** C18 — model of the buffer and stream helpers:
      [kvarn_utils::WriteableBytes]   (utils/src/lib.rs)  growable write buffer
      [kvarn_utils::BytesCow::replace] (utils/src/lib.rs)  in-place splice
      [kvarn_async::read_to_end_or_max] (async/src/lib.rs) stream -> buffer
      [kvarn::read::file]              (src/read.rs)       file -> bytes, built on the former
    Definitions only; proofs live in Proofs/BuffersProofs.v.

    A [BytesMut] is [(b_data, b_len)]: [b_data] is the *whole allocation* (its length is the
    capacity), [b_len] the visible length.  Bytes at positions >= [b_len] are uninitialised
    memory.  Whatever they contain is decided by the parameter [junk]; how large a grown
    allocation becomes by the parameter [grow].  Both are explicit function arguments after
    the section; the theorems quantify over them. *)
From KV Require Export Bytes RustInt.
Open Scope N_scope.

Record buf := mkbuf { b_data : bytes; b_len : nat }.
Definition capacity (b : buf) : nat := length (b_data b).
(** what a reader of the [BytesMut] sees: [&b[..]] *)
Definition contents (b : buf) : bytes := firstn (b_len b) (b_data b).
Definition wf (b : buf) : Prop := (b_len b <= capacity b)%nat.

(** [unsafe set_len]: bytes 1.x has [debug_assert!(len <= cap)]; beyond the capacity it is
    undefined behaviour in a release build.  The model answers [Panic]; the theorems show
    it is never reached. *)
Definition bm_set_len (b : buf) (n : nat) : outcome buf :=
  if Nat.leb n (capacity b) then Ok (mkbuf (b_data b) n) else Panic.

(** [b[lo..hi].copy_from_slice(src)]: the index is checked against the *visible* length,
    [copy_from_slice] panics when the lengths differ. *)
Definition bm_write_at (b : buf) (lo hi : nat) (src : bytes) : outcome buf :=
  if (Nat.leb lo hi && Nat.leb hi (b_len b) && Nat.eqb (length src) (hi - lo))%bool then
    Ok (mkbuf (firstn lo (b_data b) ++ src ++ skipn hi (b_data b)) (b_len b))
  else Panic.

(** [slice::copy_within(src_start..src_end, dest)] = memmove inside the visible slice.
    Indices are [usize] values ([N]): they may be far outside the buffer. *)
Definition bm_copy_within (b : buf) (src_start src_end dest : N) : outcome buf :=
  let len := N.of_nat (b_len b) in
  if (src_start <=? src_end) && (src_end <=? len) then
    let count := src_end - src_start in
    if dest <=? len - count then
      let d := b_data b in
      let moved := slice (N.to_nat src_start) (N.to_nat src_end) d in
      Ok (mkbuf (firstn (N.to_nat dest) d ++ moved ++ skipn (N.to_nat dest + N.to_nat count) d) (b_len b))
    else Panic
  else Panic.

Definition bm_write_at_N (b : buf) (lo hi : N) (src : bytes) : outcome buf :=
  if (lo <=? hi) && (hi <=? N.of_nat (b_len b)) then bm_write_at b (N.to_nat lo) (N.to_nat hi) src
  else Panic.

Definition bm_set_len_N (b : buf) (n : N) : outcome buf :=
  if n <=? N.of_nat (capacity b) then bm_set_len b (N.to_nat n) else Panic.

(** A stream as the reader sees it: a list of events.  A read of [room] bytes returns
    [min (|chunk|) room] bytes of the head chunk (the rest stays at the head), skips empty
    chunks, fails with [e] at a [Fail e] event (the code stands for an [io::ErrorKind] and a
    message; the helper treats every kind alike), answers [Poll::Pending] at a [Pend] event
    (the task is suspended; when it is polled again the read is issued again with the same
    window); no event left = 0 bytes = end of stream. *)
Inductive chunk := Data (d : bytes) | Fail (e : N) | Pend.
Definition stream := list chunk.

Inductive rdout := RdData (got : bytes) | RdFail (e : N) | RdPending.

Fixpoint rd (cs : stream) (room : nat) : rdout * stream :=
  match cs with
  | [] => (RdData [], [])
  | Data [] :: r => rd r room
  | Data c :: r => (RdData (firstn room c), Data (skipn room c) :: r)
  | Fail e :: r => (RdFail e, r)
  | Pend :: r => (RdPending, r)
  end.

Fixpoint stream_len (cs : stream) : nat :=
  match cs with
  | [] => O
  | Data d :: r => (length d + stream_len r)%nat
  | Fail _ :: r => stream_len r
  | Pend :: r => stream_len r
  end.

Fixpoint stream_pends (cs : stream) : nat :=
  match cs with
  | [] => O
  | Pend :: r => S (stream_pends r)
  | _ :: r => stream_pends r
  end.

(** Result of [read_to_end_or_max]: the buffer afterwards and what is left in the reader. *)
Inductive rres :=
| RDone (b : buf) (rest : stream)        (* Ok(()) *)
| RIoErr (e : N) (b : buf) (rest : stream) (* Err(e) *)
| RCancelled (b : buf) (rest : stream)   (* the caller dropped the future while it was suspended *)
| RPanic
| RFuel.                                  (* the model's loop ran out of fuel: excluded by theorem *)

Section Alloc.
  (** [grow cap need]: capacity chosen by the allocation layer ([Vec::reserve] /
      [BytesMut::reserve_inner]) when at least [need] bytes are required.  The only
      thing the theorems assume is [need <= grow cap need]. *)
  Variable grow : nat -> nat -> nat.
  (** [junk d i]: content of the [i]-th fresh (uninitialised) byte handed out when the
      allocation whose bytes were [d] is replaced or created. *)
  Variable junk : bytes -> nat -> N.

  Definition fresh (d : bytes) (n : nat) : bytes := map (junk d) (seq 0 n).

  (** [BytesMut::with_capacity(c)] *)
  Definition bm_with_capacity (c : nat) : buf := mkbuf (fresh [] c) 0.

  (** A [BytesMut] holding [init] with [spare] bytes of spare capacity. *)
  Definition bm_of (init : bytes) (spare : nat) : buf :=
    mkbuf (init ++ fresh init spare) (length init).

  (** [BytesMut::reserve(additional)]: nothing when the room suffices; otherwise only the
      *visible* [b_len] bytes are guaranteed to survive (every path of [reserve_inner] copies
      [self.len] bytes), everything behind them is fresh memory. *)
  Definition bm_reserve (b : buf) (additional : nat) : buf :=
    if Nat.leb additional (capacity b - b_len b) then b
    else mkbuf (contents b ++ fresh (b_data b) (grow (capacity b) (b_len b + additional) - b_len b))
               (b_len b).

  (** ---- WriteableBytes ---- *)
  Record wbuf := mkwb { w_bytes : buf; w_len : nat }.

  Definition wb_new : wbuf := mkwb (mkbuf [] 0) 0.
  Definition wb_with_capacity (c : nat) : outcome wbuf :=
    let b := bm_with_capacity c in
    obind (bm_set_len b (capacity b)) (fun b' => Ok (mkwb b' 0)).
  (** [impl From<BytesMut> for WriteableBytes] *)
  Definition wb_from (b : buf) : outcome wbuf :=
    let len := b_len b in
    obind (bm_set_len b (capacity b)) (fun b' => Ok (mkwb b' len)).

  (** [Write::write]; the returned count is always [buf.len()]. *)
  Definition wb_write (w : wbuf) (src : bytes) : outcome wbuf :=
    let n := length src in
    obind (if Nat.ltb (capacity (w_bytes w)) (w_len w + n) then
             let b1 := bm_reserve (w_bytes w) (n * 3 / 2 + 128) in
             bm_set_len b1 (capacity b1)
           else Ok (w_bytes w)) (fun b =>
    obind (bm_write_at b (w_len w) (w_len w + n) src) (fun b' =>
    Ok (mkwb b' (w_len w + n)))).

  Definition wb_into_inner (w : wbuf) : outcome buf := bm_set_len (w_bytes w) (w_len w).

  Fixpoint wb_writes (w : wbuf) (l : list bytes) : outcome wbuf :=
    match l with
    | [] => Ok w
    | s :: r => obind (wb_write w s) (fun w' => wb_writes w' r)
    end.

  Inductive wctor := WNew | WCap (c : nat) | WFrom (init : bytes) (spare : nat).
  Definition wb_make (c : wctor) : outcome wbuf :=
    match c with
    | WNew => Ok wb_new
    | WCap c => wb_with_capacity c
    | WFrom init spare => wb_from (bm_of init spare)
    end.
  Definition wctor_init (c : wctor) : bytes :=
    match c with WFrom init _ => init | _ => [] end.

  (** construct; write all; [into_inner]; look at the bytes *)
  Definition wb_session (c : wctor) (l : list bytes) : outcome bytes :=
    obind (wb_make c) (fun w =>
    obind (wb_writes w l) (fun w' =>
    obind (wb_into_inner w') (fun b => Ok (contents b)))).

  (** the same with what [write] returns ([Ok(buf.len())]) added up by the caller, as
      [write_all] / [io::copy] / an encoder do *)
  Definition wb_write_n (w : wbuf) (src : bytes) : outcome (wbuf * nat) :=
    obind (wb_write w src) (fun w' => Ok (w', length src)).
  Fixpoint wb_writes_n (w : wbuf) (l : list bytes) (total : nat) : outcome (wbuf * nat) :=
    match l with
    | [] => Ok (w, total)
    | s :: r => obind (wb_write_n w s) (fun wn => wb_writes_n (fst wn) r (total + snd wn))
    end.
  Definition wb_session_n (c : wctor) (l : list bytes) : outcome (bytes * nat) :=
    obind (wb_make c) (fun w =>
    obind (wb_writes_n w l 0) (fun wn =>
    obind (wb_into_inner (fst wn)) (fun b => Ok (contents b, snd wn)))).

  (** ---- BytesCow::replace ---- ([usize] arithmetic explicit; [checked] = overflow checks on) *)
  Definition cow_replace (checked : bool) (b : buf) (start end_ : N) (rep : bytes) : outcome buf :=
    let start := if end_ <? start then end_ else start in     (* warn; remove.start = remove.end *)
    let rl := N.of_nat (length rep) in
    let len_change := rl - (end_ - start) in                  (* saturating_sub twice *)
    let b1 := bm_reserve b (N.to_nat len_change) in
    let len_before := N.of_nat (b_len b1) in
    obind (add_u64 checked len_before rl) (fun t1 =>
    obind (add_u64 checked t1 start) (fun t2 =>
    if t2 <? end_ then Panic else                             (* checked_sub(..).expect(..) *)
    let new_len := t2 - end_ in
    obind (add_u64 checked len_before len_change) (fun l2 =>
    obind (bm_set_len_N b1 l2) (fun b2 =>
    obind (add_u64 checked start rl) (fun dest =>
    obind (bm_copy_within b2 end_ len_before dest) (fun b3 =>
    obind (add_u64 checked start rl) (fun hi =>
    obind (bm_write_at_N b3 start hi rep) (fun b4 =>
    bm_set_len_N b4 new_len)))))))).

  (** [BytesCow] itself: [Ref(Bytes)] is turned into [Mut] by copying the slice
      ([BytesMut::from(&[u8])]: an exact-size allocation) the first time it is edited;
      [replace] = [take_mut] (which leaves an empty [Mut] behind), the splice on the [BytesMut],
      [*self = Mut(bytes)]. *)
  Inductive cow := CRef (d : bytes) | CMut (b : buf).
  Definition cow_bytes (c : cow) : bytes := match c with CRef d => d | CMut b => contents b end.
  Definition cow_wf (c : cow) : Prop := match c with CRef _ => True | CMut b => wf b end.
  Definition cow_ref_mut (c : cow) : buf := match c with CRef d => bm_of d 0 | CMut b => b end.
  Definition cow_replace_c (checked : bool) (c : cow) (start end_ : N) (rep : bytes) : outcome cow :=
    obind (cow_replace checked (cow_ref_mut c) start end_ rep) (fun b => Ok (CMut b)).
  (** [freeze] / [into_mut]: what the caller reads afterwards *)
  Definition cow_freeze (c : cow) : bytes := cow_bytes c.
  Definition cow_into_mut (c : cow) : buf := cow_ref_mut c.

  (** a chain of edits on the same [BytesCow] (the Present extensions, one after the other) *)
  Definition edit := (N * N * bytes)%type.
  Fixpoint cow_edits (checked : bool) (c : cow) (es : list edit) : outcome cow :=
    match es with
    | [] => Ok c
    | (s, e, rep) :: r => obind (cow_replace_c checked c s e rep) (fun c' => cow_edits checked c' r)
    end.

  (** ---- read_to_end_or_max ---- *)
  (** inner [fn reserve(read, buffer)] *)
  Definition rtm_reserve (read : nat) (b : buf) : outcome buf :=
    let cap := capacity b in
    if Nat.ltb cap read then Panic else                       (* capacity() - read *)
    let left := (cap - read)%nat in
    if Nat.ltb left 32 then
      let lower := 1024%nat in
      let hi := Nat.max (cap * 2 / 3) lower in
      let additional := if Nat.ltb cap lower then lower else if Nat.ltb hi cap then hi else cap in  (* clamp *)
      if Nat.ltb cap (b_len b) then Panic else                (* capacity() - len() *)
      let b1 := bm_reserve b ((cap - b_len b) + additional) in
      bm_set_len b1 (capacity b1)
    else Ok b.

  Definition put (b : buf) (read : nat) (got : bytes) : buf :=
    mkbuf (firstn read (b_data b) ++ got ++ skipn (read + length got) (b_data b)) (b_len b).

  (** The loop, at the level of polls.  The only suspension point of the [async fn] is
      [reader.read(..).await]; while it is suspended the buffer's length is its capacity.
      [patience]: how many [Pending] answers the caller sits through before it drops the
      future ([tokio::time::timeout], [select!]); [None] = it polls until the helper is done.
      [guard = true] is today's code: a drop guard ([struct Restore]) sets the length to the
      number of bytes read on every way out, the drop included; [guard = false] is the code
      before that repair, which restored the length only on the three ways out it wrote itself. *)
  Fixpoint rtm_loop (guard : bool) (fuel : nat) (max_len : N) (read : nat) (b : buf) (cs : stream)
           (patience : option nat) : rres :=
    match fuel with
    | O => RFuel
    | S f =>
        if Nat.ltb (b_len b) read then RPanic else            (* &mut buffer[read..] *)
        let room := (b_len b - read)%nat in
        match rd cs room with
        | (RdFail e, cs') => match bm_set_len b read with Ok b' => RIoErr e b' cs' | _ => RPanic end
        | (RdPending, cs') =>
            match patience with
            | Some O =>                                        (* dropped here *)
                if guard then match bm_set_len b read with Ok b' => RCancelled b' cs' | _ => RPanic end
                else RCancelled b cs'
            | Some (S k) => rtm_loop guard f max_len read b cs' (Some k)
            | None => rtm_loop guard f max_len read b cs' None
            end
        | (RdData got, cs') =>
            match got with
            | [] => match bm_set_len b read with Ok b' => RDone b' cs' | _ => RPanic end   (* 0 => break *)
            | _ :: _ =>
                let b1 := put b read got in
                let read' := (read + length got)%nat in
                if max_len <=? N.of_nat read' then
                  match bm_set_len b1 read' with Ok b' => RDone b' cs' | _ => RPanic end
                else
                  match rtm_reserve read' b1 with
                  | Ok b2 => rtm_loop guard f max_len read' b2 cs' patience
                  | _ => RPanic
                  end
            end
        end
    end.

  (** [legacy = true] is the code before the first repair: the first call was [reserve(0, buffer)]
      (guarded by an always-true [capacity() == len()] after [set_len(capacity())]). *)
  Definition read_poll (legacy guard : bool) (b : buf) (cs : stream) (max_len : N) (patience : option nat) : rres :=
    let read := b_len b in
    if max_len <=? N.of_nat read then RDone b cs else
    match bm_set_len b (capacity b) with
    | Ok b1 =>
        match (if Nat.eqb (capacity b1) (b_len b1)
               then rtm_reserve (if legacy then O else read) b1 else Ok b1) with
        | Ok b2 => rtm_loop guard (S (stream_len cs + stream_pends cs)) max_len read b2 cs patience
        | _ => RPanic
        end
    | _ => RPanic
    end.

  (** awaited to the end (nobody drops the future) *)
  Definition read_to_end_or_max (legacy : bool) (b : buf) (cs : stream) (max_len : N) : rres :=
    read_poll legacy true b cs max_len None.

  (** [kvarn::read::file] without a cache (src/read.rs [read], non-uring): the file is a
      stream; [None] (here [Err 0]) when it cannot be read. *)
  Definition read_file (cs : stream) : outcome bytes :=
    match read_to_end_or_max false (bm_with_capacity 4096) cs u64_max with
    | RDone b _ => Ok (contents b)
    | RIoErr _ _ _ => Err 0
    | RCancelled _ _ => Err 2            (* read::file awaits to the end *)
    | RPanic => Panic
    | RFuel => Err 1
    end.

  (** ---- src/read.rs: [file], [file_cached], [file_cached_with_mtime] over a [FileCache] ---- *)
  (** A file system: path (a number) -> what reading the file delivers and its mtime; a path
      without a binding cannot be opened; a directory opens and fails at the first read. *)
  Record fnode := mkfnode { fn_stream : stream; fn_mtime : N }.
  Definition fsys := list (N * fnode).
  (** [FileCache]: path -> [None] (could not be read) | [Some (mtime, bytes)]; an [insert]
      replaces, no entry is evicted (the harness stays far below moka's capacity). *)
  Definition fcache := list (N * option (N * bytes)).
  Fixpoint alookup {A} (k : N) (l : list (N * A)) : option A :=
    match l with
    | [] => None
    | (k', v) :: r => if k =? k' then Some v else alookup k r
    end.

  (** private [async fn read(path)] (non-uring): [None] when the file cannot be opened or a read fails *)
  Definition fs_read (fs : fsys) (p : N) : outcome (option bytes) :=
    match alookup p fs with
    | None => Ok None
    | Some n => match read_file (fn_stream n) with Ok d => Ok (Some d) | Err _ => Ok None | Panic => Panic end
    end.
  Definition fs_stat (fs : fsys) (p : N) : option N := option_map fn_mtime (alookup p fs).

  Inductive fvariant := VFile | VCached | VCachedMtime.
  (** the answer: the bytes and, for [file_cached_with_mtime], the modification time *)
  Definition fres := option (bytes * option N).

  Section Reader.
    (** the three functions, parametric in how a path is read (the model: [fs_read]; the
        specification: the file's content itself) *)
    Variable reader : fsys -> N -> outcome (option bytes).
    Variable now : N.

    Definition fc_read (v : fvariant) (fs : fsys) (p : N) (cache : option fcache) : outcome (fres * option fcache) :=
      let hit := match cache with Some c => alookup p c | None => None end in
      match hit with
      | Some opt =>                                           (* let (mtime, file) = opt?; *)
          Ok (match opt with
              | None => None
              | Some (m, d) => Some (d, match v with VCachedMtime => Some m | _ => None end)
              end, cache)
      | None =>
          obind (reader fs p) (fun buffer =>
          match v with
          | VFile => Ok (option_map (fun d => (d, None)) buffer, cache)
          | VCached =>
              match cache, buffer with
              | Some c, Some d =>
                  let m := match fs_stat fs p with Some m => m | None => now end in
                  Ok (Some (d, None), Some ((p, Some (m, d)) :: c))
              | Some c, None => Ok (None, Some ((p, None) :: c))
              | None, _ => Ok (option_map (fun d => (d, None)) buffer, None)
              end
          | VCachedMtime =>
              match cache, buffer with
              | Some c, Some d =>
                  match fs_stat fs p with
                  | None => Ok (None, Some c)                 (* stat(..).await? *)
                  | Some m => Ok (Some (d, Some m), Some ((p, Some (m, d)) :: c))
                  end
              | Some c, None => Ok (None, Some ((p, None) :: c))
              | None, Some d => Ok (match fs_stat fs p with Some m => Some (d, Some m) | None => None end, None)
              | None, None => Ok (None, None)
              end
          end)
      end.

    (** a history: the files change, reads go through one [FileCache] or past it *)
    Inductive fop := FWrite (p : N) (cs : stream) (mtime : N) | FRemove (p : N) | FRead (v : fvariant) (p : N) (cached : bool).
    Fixpoint fs_remove (p : N) (fs : fsys) : fsys :=
      match fs with
      | [] => []
      | (k, v) :: r => if p =? k then fs_remove p r else (k, v) :: fs_remove p r
      end.
    Fixpoint files_run (fs : fsys) (c : fcache) (ops : list fop) : outcome (list fres) :=
      match ops with
      | [] => Ok []
      | FWrite p cs m :: r => files_run ((p, mkfnode cs m) :: fs) c r
      | FRemove p :: r => files_run (fs_remove p fs) c r
      | FRead v p cached :: r =>
          obind (fc_read v fs p (if cached then Some c else None)) (fun a =>
          obind (files_run fs (match snd a with Some c' => c' | None => c end) r) (fun rs =>
          Ok (fst a :: rs)))
      end.
  End Reader.
End Alloc.

(** ---- Specifications (independent of buffers, capacities and junk) ---- *)

(** removing [s..e] and inserting [rep] *)
Definition splice (s e : nat) (rep body : bytes) : bytes := firstn s body ++ rep ++ skipn e body.

(** the bytes a stream delivers before its first failure, and that failure
    ([Pend] events delay the bytes, they do not change them) *)
Fixpoint pre_fail (cs : stream) : bytes * option N :=
  match cs with
  | [] => ([], None)
  | Data d :: r => let (p, f) := pre_fail r in (d ++ p, f)
  | Fail e :: _ => ([], Some e)
  | Pend :: r => pre_fail r
  end.

(** What [read_to_end_or_max] may answer for a buffer that held [init], a stream [cs] and
    a soft maximum [max]:
    - [Ok]: the buffer is [init] followed by a prefix [taken] of the stream's bytes, the reader
      keeps exactly the remainder, and either the stream ended (all bytes taken, no failure)
      or the buffer is at least [max] long;
    - [Err e]: [e] is the stream's first failure and the buffer is [init] followed by every
      byte delivered before it;
    - nothing else when the future is awaited to its end. *)
Definition read_spec (init : bytes) (cs : stream) (max : N) (r : rres) : Prop :=
  match r with
  | RDone b' rest =>
      exists taken, contents b' = init ++ taken /\
        fst (pre_fail cs) = taken ++ fst (pre_fail rest) /\ snd (pre_fail rest) = snd (pre_fail cs) /\
        ((fst (pre_fail rest) = [] /\ snd (pre_fail cs) = None) \/ max <= N.of_nat (length (contents b')))
  | RIoErr e b' rest => snd (pre_fail cs) = Some e /\ contents b' = init ++ fst (pre_fail cs)
  | RCancelled _ _ | RPanic | RFuel => False
  end.

(** The point at which a caller with patience [k] drops the future: the bytes delivered before
    the [(k+1)]-th [Pend] and the events behind it; [None] when the stream fails or ends first. *)
Fixpoint before_stall (k : nat) (cs : stream) : option (bytes * stream) :=
  match cs with
  | [] => None
  | Data d :: r => match before_stall k r with Some (p, rest) => Some (d ++ p, rest) | None => None end
  | Fail _ :: _ => None
  | Pend :: r => match k with O => Some ([], r) | S k' => before_stall k' r end
  end.

Definition rres_rest (r : rres) : stream :=
  match r with RDone _ rest | RIoErr _ _ rest | RCancelled _ rest => rest | _ => [] end.

(** The same for a caller that may drop the future:
    - cancelled: the caller's patience [k] ran out at the [(k+1)]-th [Pending]; the buffer is
      well formed again and holds [init] followed by exactly the bytes delivered before that
      point, it is shorter than [max], and the reader keeps everything behind that point;
    - any other answer obeys [read_spec] and was given before the patience ran out. *)
Definition poll_spec (init : bytes) (cs : stream) (max : N) (patience : option nat) (r : rres) : Prop :=
  match r with
  | RCancelled b' rest =>
      exists k pre, patience = Some k /\ before_stall k cs = Some (pre, rest) /\
        wf b' /\ contents b' = init ++ pre /\ N.of_nat (length (contents b')) < max
  | _ => read_spec init cs max r /\
         match patience with Some k => (stream_pends cs <= k + stream_pends (rres_rest r))%nat | None => True end
  end.

(** a chain of splices; an edit whose end lies beyond the body panics *)
Fixpoint splice_edits (body : bytes) (es : list edit) : outcome bytes :=
  match es with
  | [] => Ok body
  | (s, e, rep) :: r =>
      if e <=? N.of_nat (length body) then splice_edits (splice (N.to_nat (N.min s e)) (N.to_nat e) rep body) r
      else Panic
  end.

(** what a file holds: the bytes it delivers when none of its reads fails *)
Definition fs_content (fs : fsys) (p : N) : outcome (option bytes) :=
  Ok (match alookup p fs with
      | None => None
      | Some n => match pre_fail (fn_stream n) with (d, None) => Some d | (_, Some _) => None end
      end).

(** ---- executable instances used by the correspondence run ---- *)

(** [Vec::reserve] (amortised): max(8, max(2*cap, needed)) for one-byte elements. *)
Definition grow_vec (cap need : nat) : nat := Nat.max 8 (Nat.max (2 * cap) need).
(** junk from a pattern chosen by the test case (the real side cannot choose it) *)
Definition junk_of (pat : bytes) (d : bytes) (i : nat) : N := nth i pat (hd 170 pat + N.of_nat (length pat)).

Definition d_chunk (x : xval) : option chunk :=
  match x with XB d => Some (Data d) | XN e => Some (Fail e) | XL [] => Some Pend | _ => None end.

Definition d_wctor (x : xval) : option wctor :=
  match x with
  | XL [XN 0] => Some WNew
  | XL [XN 1; XN c] => Some (WCap (N.to_nat c))
  | XL [XN 2; XB init; XN spare] => Some (WFrom init (N.to_nat spare))
  | XL [XN 2; XB init; XN spare; XN _] => Some (WFrom init (N.to_nat spare))   (* in which representation: no concern of the model *)
  | _ => None
  end.

Fixpoint sum_len (l : list bytes) : nat :=
  match l with [] => O | s :: r => (length s + sum_len r)%nat end.

(** input: (L ctor (L writes...) (B junk) [driver]); the driver (how the real side issues the writes) does not
    concern the model: whatever way the slices are handed to [write], these are the calls it sees *)
Definition run_writeable (x : xval) : xval :=
  match x with
  | XL (c :: ws :: XB pat :: _) =>
      match d_wctor c, d_list d_B ws with
      | Some c, Some ws =>
          x_outcome (fun r => XL [XB (fst r); x_nat (snd r)]) (wb_session_n grow_vec (junk_of pat) c ws)
      | _, _ => bad_input
      end
  | _ => bad_input
  end.
Definition run_writeable_spec (x : xval) : xval :=
  match x with
  | XL (c :: ws :: XB _ :: _) =>
      match d_wctor c, d_list d_B ws with
      | Some c, Some ws => x_outcome (fun r => XL [XB r; x_nat (sum_len ws)]) (Ok (wctor_init c ++ concat ws))
      | _, _ => bad_input
      end
  | _ => bad_input
  end.

(** the body as the storage kind of the real side holds it: kinds 0 and 6 are [BytesCow::Ref] *)
Definition cow_of (pat : bytes) (kind : N) (body : bytes) (spare : N) : cow :=
  if (kind =? 0) || (kind =? 6) then CRef body else CMut (bm_of (junk_of pat) body (N.to_nat spare)).

(** input: (L checked (N kind) (B body) (N spare) (N start) (N end) (B rep) (B junk)) *)
Definition run_replace (x : xval) : xval :=
  match x with
  | XL [c; XN kind; XB body; XN spare; XN s; XN e; XB rep; XB pat] =>
      match d_bool c with
      | Some checked =>
          x_outcome (fun c' => XB (cow_bytes c')) (cow_replace_c grow_vec (junk_of pat) checked (cow_of pat kind body spare) s e rep)
      | None => bad_input
      end
  | _ => bad_input
  end.
(** out of bounds ([end] beyond the body) the only answer that cannot show bytes nobody wrote is the panic
    ("removed more than what was available"); [replace_panics_iff] *)
Definition run_replace_spec (x : xval) : xval :=
  match x with
  | XL [c; XN kind; XB body; XN spare; XN s; XN e; XB rep; XB pat] =>
      let s := N.min s e in
      x_outcome XB (if e <=? N.of_nat (length body) then Ok (splice (N.to_nat s) (N.to_nat e) rep body) else Panic)
  | _ => bad_input
  end.

Definition d_edit (x : xval) : option edit :=
  match x with XL [XN s; XN e; XB rep] => Some (s, e, rep) | _ => None end.
(** input: (L checked (N kind) (B body) (N spare) (L (L (N s) (N e) (B rep))...) (N post) (B junk));
    post: 0 deref, 1 freeze, 2 into_mut, 3 ref_mut *)
Definition run_replace_seq (x : xval) : xval :=
  match x with
  | XL [c; XN kind; XB body; XN spare; es; XN post; XB pat] =>
      match d_bool c, d_list d_edit es with
      | Some checked, Some es =>
          x_outcome XB
            (obind (cow_edits grow_vec (junk_of pat) checked (cow_of pat kind body spare) es) (fun c' =>
             Ok (if post =? 1 then cow_freeze c'
                 else if (post =? 2) || (post =? 3) then contents (cow_into_mut (junk_of pat) c')
                 else cow_bytes c')))
      | _, _ => bad_input
      end
  | _ => bad_input
  end.
Definition run_replace_seq_spec (x : xval) : xval :=
  match x with
  | XL [c; XN kind; XB body; XN spare; es; XN post; XB pat] =>
      match d_list d_edit es with
      | Some es => x_outcome XB (splice_edits body es)
      | None => bad_input
      end
  | _ => bad_input
  end.

Definition x_rres (total : nat) (r : rres) : xval :=
  match r with
  | RDone b rest => XL [XN 0; XB (contents b); x_nat (total - stream_len rest)]
  | RIoErr e b rest => XL [XN 1; XN e; XB (contents b); x_nat (total - stream_len rest)]
  | RCancelled b rest => XL [XN 4; XB (contents b); x_nat (total - stream_len rest)]
  | RPanic => XL [XN 2]
  | RFuel => XL [XN 3]
  end.

(** the caller's patience: absent or (L) = awaits to the end; (L (N k)) = drops the future at the (k+1)-th Pending;
    (L (N 0) (N ms)) = the same by [tokio::time::timeout] (how long is no concern of the model) *)
Definition d_patience (l : list xval) : option (option nat) :=
  match l with
  | [] => Some None
  | XL [] :: _ => Some None
  | XL [XN k] :: _ => Some (Some (N.to_nat k))
  | XL [XN 0; XN _] :: _ => Some (Some O)
  | _ => None
  end.

(** input: (L (B init) (N spare) (N max) (L ev...) (B junk) [patience [storage]]); the storage (which representation
    of [BytesMut] the real side hands in) only changes how the allocation grows, which the theorems leave open *)
Definition run_read_gen (legacy guard : bool) (x : xval) : xval :=
  match x with
  | XL (XB init :: XN spare :: XN max :: evs :: XB pat :: pt) =>
      match d_list d_chunk evs, d_patience pt with
      | Some cs, Some patience =>
          x_rres (stream_len cs)
            (read_poll grow_vec (junk_of pat) legacy guard (bm_of (junk_of pat) init (N.to_nat spare)) cs max patience)
      | _, _ => bad_input
      end
  | _ => bad_input
  end.
Definition run_read := run_read_gen false true.
(** the code before the drop guard, and the code before both repairs *)
Definition run_read_unguarded := run_read_gen false false.
Definition run_read_legacy := run_read_gen true false.

(** spec component for the oracle:
    (L (B init) (B bytes-before-first-failure) (L [failure]) (N max) (L [bytes-before-the-point-of-cancellation]));
    the relation [poll_spec] itself is evaluated by the driver on the implementation's answer. *)
Definition run_read_spec (x : xval) : xval :=
  match x with
  | XL (XB init :: XN spare :: XN max :: evs :: XB pat :: pt) =>
      match d_list d_chunk evs, d_patience pt with
      | Some cs, Some patience =>
          XL [XB init; XB (fst (pre_fail cs)); x_option XN (snd (pre_fail cs)); XN max;
              x_option XB (match patience with
                           | Some k => option_map fst (before_stall k cs)
                           | None => None
                           end)]
      | _, _ => bad_input
      end
  | _ => bad_input
  end.

(** input: (L (B content) (B junk)); the file is delivered as one chunk (the result does
    not depend on the chunking: [read_chunking_irrelevant]). *)
Definition run_file (x : xval) : xval :=
  match x with
  | XL [XB content; XB pat] => x_outcome XB (read_file grow_vec (junk_of pat) [Data content])
  | _ => bad_input
  end.
Definition run_file_spec (x : xval) : xval :=
  match x with
  | XL [XB content; XB pat] => x_outcome XB (Ok content)
  | _ => bad_input
  end.

(** histories of file operations:
    (L (N 0) (N p) (B content) (N mtime))   write file p
    (L (N 1) (N p))                          remove it
    (L (N 2) (N p) (N mtime))                make p a directory (it opens; reading it fails)
    (L (N 3) (N variant) (N p) (N cached))   read it: variant 0 file, 1 file_cached, 2 file_cached_with_mtime;
                                             cached 1 = through the case's FileCache, 0 = with no cache
    (L (N 4) (N p) (B path) (B content))     p stands for a file the harness did not make (e.g. /proc/version) *)
Definition d_fop (x : xval) : option fop :=
  match x with
  | XL [XN 0; XN p; XB content; XN m] => Some (FWrite p [Data content] m)
  | XL [XN 1; XN p] => Some (FRemove p)
  | XL [XN 2; XN p; XN m] => Some (FWrite p [Fail 21] m)
  | XL [XN 3; XN v; XN p; c] =>
      match d_bool c with
      | Some c => if v =? 0 then Some (FRead VFile p c) else if v =? 1 then Some (FRead VCached p c)
                  else if v =? 2 then Some (FRead VCachedMtime p c) else None
      | None => None
      end
  | XL [XN 4; XN p; XB _; XB content] => Some (FWrite p [Data content] 0)
  | _ => None
  end.
Definition x_fres (r : fres) : xval :=
  match r with
  | None => XL []
  | Some (d, None) => XL [XB d]
  | Some (d, Some m) => XL [XB d; XN m]
  end.
(** input: (L (L op...) (B junk)) *)
Definition run_files (x : xval) : xval :=
  match x with
  | XL [ops; XB pat] =>
      match d_list d_fop ops with
      | Some ops => x_outcome (x_list x_fres) (files_run (fs_read grow_vec (junk_of pat)) 0 [] [] ops)
      | None => bad_input
      end
  | _ => bad_input
  end.
Definition run_files_spec (x : xval) : xval :=
  match x with
  | XL [ops; XB pat] =>
      match d_list d_fop ops with
      | Some ops => x_outcome (x_list x_fres) (files_run fs_content 0 [] [] ops)
      | None => bad_input
      end
  | _ => bad_input
  end.

(** input: (L (N codec) (N level) (B body) (B junk)): a real encoder writes the compressed body into a
    [WriteableBytes] (which by [writeable_is_append] holds exactly the bytes written, in order) and the standard
    decoder reads it back: what comes out is the body.  The codecs themselves are not modelled. *)
Definition run_encode (x : xval) : xval :=
  match x with
  | XL [XN codec; XN level; XB body; XB pat] => x_outcome XB (Ok body)
  | _ => bad_input
  end.

Definition buffers_table : list (bytes * (xval -> xval)) :=
  [ (B "buf.encode", run_encode);
    (B "buf.encode.spec", run_encode);
    (B "buf.writeable", run_writeable);
    (B "buf.writeable.spec", run_writeable_spec);
    (B "buf.replace", run_replace);
    (B "buf.replace.spec", run_replace_spec);
    (B "buf.replace_seq", run_replace_seq);
    (B "buf.replace_seq.spec", run_replace_seq_spec);
    (B "buf.read", run_read);
    (B "buf.read.unguarded", run_read_unguarded);
    (B "buf.read.legacy", run_read_legacy);
    (B "buf.read.spec", run_read_spec);
    (B "buf.file", run_file);
    (B "buf.file.spec", run_file_spec);
    (B "buf.files", run_files);
    (B "buf.files.spec", run_files_spec) ].
