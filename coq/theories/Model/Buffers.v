(** C18 — model of the buffer and stream helpers:
      [kvarn_utils::WriteableBytes]   (utils/src/lib.rs)  growable write buffer
      [kvarn_utils::BytesCow::replace] (utils/src/lib.rs)  in-place splice
      [kvarn_async::read_to_end_or_max] (async/src/lib.rs) stream -> buffer
      [kvarn::read::file]              (src/read.rs)       file -> bytes, built on the former
    Definitions only; proofs live in Proofs/BuffersProofs.v.

    A [BytesMut] is [(b_data, b_len)]: [b_data] is the *whole allocation* (its length is the
    capacity), [b_len] the visible length.  Bytes at positions >= [b_len] are uninitialised
    memory.  Whatever they contain is decided by the parameter [junk]; how large a grown
    allocation becomes by the parameter [grow].  Both are explicit function arguments after
    the section; the theorems quantify over them. *)
From KV Require Export Bytes RustInt.
Open Scope N_scope.

Record buf := mkbuf { b_data : bytes; b_len : nat }.
Definition capacity (b : buf) : nat := length (b_data b).
(** what a reader of the [BytesMut] sees: [&b[..]] *)
Definition contents (b : buf) : bytes := firstn (b_len b) (b_data b).
Definition wf (b : buf) : Prop := (b_len b <= capacity b)%nat.

(** [unsafe set_len]: bytes 1.x has [debug_assert!(len <= cap)]; beyond the capacity it is
    undefined behaviour in a release build.  The model answers [Panic]; the theorems show
    it is never reached. *)
Definition bm_set_len (b : buf) (n : nat) : outcome buf :=
  if Nat.leb n (capacity b) then Ok (mkbuf (b_data b) n) else Panic.

(** [b[lo..hi].copy_from_slice(src)]: the index is checked against the *visible* length,
    [copy_from_slice] panics when the lengths differ. *)
Definition bm_write_at (b : buf) (lo hi : nat) (src : bytes) : outcome buf :=
  if (Nat.leb lo hi && Nat.leb hi (b_len b) && Nat.eqb (length src) (hi - lo))%bool then
    Ok (mkbuf (firstn lo (b_data b) ++ src ++ skipn hi (b_data b)) (b_len b))
  else Panic.

(** [slice::copy_within(src_start..src_end, dest)] = memmove inside the visible slice.
    Indices are [usize] values ([N]): they may be far outside the buffer. *)
Definition bm_copy_within (b : buf) (src_start src_end dest : N) : outcome buf :=
  let len := N.of_nat (b_len b) in
  if (src_start <=? src_end) && (src_end <=? len) then
    let count := src_end - src_start in
    if dest <=? len - count then
      let d := b_data b in
      let moved := slice (N.to_nat src_start) (N.to_nat src_end) d in
      Ok (mkbuf (firstn (N.to_nat dest) d ++ moved ++ skipn (N.to_nat dest + N.to_nat count) d) (b_len b))
    else Panic
  else Panic.

Definition bm_write_at_N (b : buf) (lo hi : N) (src : bytes) : outcome buf :=
  if (lo <=? hi) && (hi <=? N.of_nat (b_len b)) then bm_write_at b (N.to_nat lo) (N.to_nat hi) src
  else Panic.

Definition bm_set_len_N (b : buf) (n : N) : outcome buf :=
  if n <=? N.of_nat (capacity b) then bm_set_len b (N.to_nat n) else Panic.

(** A stream as the reader sees it: a list of events.  A read of [room] bytes returns
    [min (|chunk|) room] bytes of the head chunk (the rest stays at the head), skips empty
    chunks, fails with [e] at a [Fail e] event; no event left = 0 bytes = end of stream. *)
Inductive chunk := Data (d : bytes) | Fail (e : N).
Definition stream := list chunk.

Fixpoint rd (cs : stream) (room : nat) : outcome bytes * stream :=
  match cs with
  | [] => (Ok [], [])
  | Data [] :: r => rd r room
  | Data c :: r => (Ok (firstn room c), Data (skipn room c) :: r)
  | Fail e :: r => (Err e, r)
  end.

Fixpoint stream_len (cs : stream) : nat :=
  match cs with
  | [] => O
  | Data d :: r => (length d + stream_len r)%nat
  | Fail _ :: r => stream_len r
  end.

(** Result of [read_to_end_or_max]: the buffer afterwards and what is left in the reader. *)
Inductive rres :=
| RDone (b : buf) (rest : stream)        (* Ok(()) *)
| RIoErr (e : N) (b : buf) (rest : stream) (* Err(e) *)
| RPanic
| RFuel.                                  (* the model's loop ran out of fuel: excluded by theorem *)

Section Alloc.
  (** [grow cap need]: capacity chosen by the allocation layer ([Vec::reserve] /
      [BytesMut::reserve_inner]) when at least [need] bytes are required.  The only
      thing the theorems assume is [need <= grow cap need]. *)
  Variable grow : nat -> nat -> nat.
  (** [junk d i]: content of the [i]-th fresh (uninitialised) byte handed out when the
      allocation whose bytes were [d] is replaced or created. *)
  Variable junk : bytes -> nat -> N.

  Definition fresh (d : bytes) (n : nat) : bytes := map (junk d) (seq 0 n).

  (** [BytesMut::with_capacity(c)] *)
  Definition bm_with_capacity (c : nat) : buf := mkbuf (fresh [] c) 0.

  (** A [BytesMut] holding [init] with [spare] bytes of spare capacity. *)
  Definition bm_of (init : bytes) (spare : nat) : buf :=
    mkbuf (init ++ fresh init spare) (length init).

  (** [BytesMut::reserve(additional)]: nothing when the room suffices; otherwise only the
      *visible* [b_len] bytes are guaranteed to survive (every path of [reserve_inner] copies
      [self.len] bytes), everything behind them is fresh memory. *)
  Definition bm_reserve (b : buf) (additional : nat) : buf :=
    if Nat.leb additional (capacity b - b_len b) then b
    else mkbuf (contents b ++ fresh (b_data b) (grow (capacity b) (b_len b + additional) - b_len b))
               (b_len b).

  (** ---- WriteableBytes ---- *)
  Record wbuf := mkwb { w_bytes : buf; w_len : nat }.

  Definition wb_new : wbuf := mkwb (mkbuf [] 0) 0.
  Definition wb_with_capacity (c : nat) : outcome wbuf :=
    let b := bm_with_capacity c in
    obind (bm_set_len b (capacity b)) (fun b' => Ok (mkwb b' 0)).
  (** [impl From<BytesMut> for WriteableBytes] *)
  Definition wb_from (b : buf) : outcome wbuf :=
    let len := b_len b in
    obind (bm_set_len b (capacity b)) (fun b' => Ok (mkwb b' len)).

  (** [Write::write]; the returned count is always [buf.len()]. *)
  Definition wb_write (w : wbuf) (src : bytes) : outcome wbuf :=
    let n := length src in
    obind (if Nat.ltb (capacity (w_bytes w)) (w_len w + n) then
             let b1 := bm_reserve (w_bytes w) (n * 3 / 2 + 128) in
             bm_set_len b1 (capacity b1)
           else Ok (w_bytes w)) (fun b =>
    obind (bm_write_at b (w_len w) (w_len w + n) src) (fun b' =>
    Ok (mkwb b' (w_len w + n)))).

  Definition wb_into_inner (w : wbuf) : outcome buf := bm_set_len (w_bytes w) (w_len w).

  Fixpoint wb_writes (w : wbuf) (l : list bytes) : outcome wbuf :=
    match l with
    | [] => Ok w
    | s :: r => obind (wb_write w s) (fun w' => wb_writes w' r)
    end.

  Inductive wctor := WNew | WCap (c : nat) | WFrom (init : bytes) (spare : nat).
  Definition wb_make (c : wctor) : outcome wbuf :=
    match c with
    | WNew => Ok wb_new
    | WCap c => wb_with_capacity c
    | WFrom init spare => wb_from (bm_of init spare)
    end.
  Definition wctor_init (c : wctor) : bytes :=
    match c with WFrom init _ => init | _ => [] end.

  (** construct; write all; [into_inner]; look at the bytes *)
  Definition wb_session (c : wctor) (l : list bytes) : outcome bytes :=
    obind (wb_make c) (fun w =>
    obind (wb_writes w l) (fun w' =>
    obind (wb_into_inner w') (fun b => Ok (contents b)))).

  (** ---- BytesCow::replace ---- ([usize] arithmetic explicit; [checked] = overflow checks on) *)
  Definition cow_replace (checked : bool) (b : buf) (start end_ : N) (rep : bytes) : outcome buf :=
    let start := if end_ <? start then end_ else start in     (* warn; remove.start = remove.end *)
    let rl := N.of_nat (length rep) in
    let len_change := rl - (end_ - start) in                  (* saturating_sub twice *)
    let b1 := bm_reserve b (N.to_nat len_change) in
    let len_before := N.of_nat (b_len b1) in
    obind (add_u64 checked len_before rl) (fun t1 =>
    obind (add_u64 checked t1 start) (fun t2 =>
    if t2 <? end_ then Panic else                             (* checked_sub(..).expect(..) *)
    let new_len := t2 - end_ in
    obind (add_u64 checked len_before len_change) (fun l2 =>
    obind (bm_set_len_N b1 l2) (fun b2 =>
    obind (add_u64 checked start rl) (fun dest =>
    obind (bm_copy_within b2 end_ len_before dest) (fun b3 =>
    obind (add_u64 checked start rl) (fun hi =>
    obind (bm_write_at_N b3 start hi rep) (fun b4 =>
    bm_set_len_N b4 new_len)))))))).

  (** ---- read_to_end_or_max ---- *)
  (** inner [fn reserve(read, buffer)] *)
  Definition rtm_reserve (read : nat) (b : buf) : outcome buf :=
    let cap := capacity b in
    if Nat.ltb cap read then Panic else                       (* capacity() - read *)
    let left := (cap - read)%nat in
    if Nat.ltb left 32 then
      let lower := 1024%nat in
      let hi := Nat.max (cap * 2 / 3) lower in
      let additional := if Nat.ltb cap lower then lower else if Nat.ltb hi cap then hi else cap in  (* clamp *)
      if Nat.ltb cap (b_len b) then Panic else                (* capacity() - len() *)
      let b1 := bm_reserve b ((cap - b_len b) + additional) in
      bm_set_len b1 (capacity b1)
    else Ok b.

  Definition put (b : buf) (read : nat) (got : bytes) : buf :=
    mkbuf (firstn read (b_data b) ++ got ++ skipn (read + length got) (b_data b)) (b_len b).

  Fixpoint rtm_loop (fuel : nat) (max_len : N) (read : nat) (b : buf) (cs : stream) : rres :=
    match fuel with
    | O => RFuel
    | S f =>
        if Nat.ltb (b_len b) read then RPanic else            (* &mut buffer[read..] *)
        let room := (b_len b - read)%nat in
        match rd cs room with
        | (Err e, cs') => match bm_set_len b read with Ok b' => RIoErr e b' cs' | _ => RPanic end
        | (Panic, _) => RPanic
        | (Ok got, cs') =>
            match got with
            | [] => match bm_set_len b read with Ok b' => RDone b' cs' | _ => RPanic end   (* 0 => break *)
            | _ :: _ =>
                let b1 := put b read got in
                let read' := (read + length got)%nat in
                if max_len <=? N.of_nat read' then
                  match bm_set_len b1 read' with Ok b' => RDone b' cs' | _ => RPanic end
                else
                  match rtm_reserve read' b1 with
                  | Ok b2 => rtm_loop f max_len read' b2 cs'
                  | _ => RPanic
                  end
            end
        end
    end.

  (** [legacy = true] is the code before the repair: the first call was [reserve(0, buffer)]
      (guarded by an always-true [capacity() == len()] after [set_len(capacity())]). *)
  Definition read_to_end_or_max (legacy : bool) (b : buf) (cs : stream) (max_len : N) : rres :=
    let read := b_len b in
    if max_len <=? N.of_nat read then RDone b cs else
    match bm_set_len b (capacity b) with
    | Ok b1 =>
        match (if Nat.eqb (capacity b1) (b_len b1)
               then rtm_reserve (if legacy then O else read) b1 else Ok b1) with
        | Ok b2 => rtm_loop (S (stream_len cs)) max_len read b2 cs
        | _ => RPanic
        end
    | _ => RPanic
    end.

  (** [kvarn::read::file] without a cache (src/read.rs [read], non-uring): the file is a
      stream; [None] (here [Err 0]) when it cannot be read. *)
  Definition read_file (cs : stream) : outcome bytes :=
    match read_to_end_or_max false (bm_with_capacity 4096) cs u64_max with
    | RDone b _ => Ok (contents b)
    | RIoErr _ _ _ => Err 0
    | RPanic => Panic
    | RFuel => Err 1
    end.
End Alloc.

(** ---- Specifications (independent of buffers, capacities and junk) ---- *)

(** removing [s..e] and inserting [rep] *)
Definition splice (s e : nat) (rep body : bytes) : bytes := firstn s body ++ rep ++ skipn e body.

(** the bytes a stream delivers before its first failure, and that failure *)
Fixpoint pre_fail (cs : stream) : bytes * option N :=
  match cs with
  | [] => ([], None)
  | Data d :: r => let (p, f) := pre_fail r in (d ++ p, f)
  | Fail e :: _ => ([], Some e)
  end.

(** What [read_to_end_or_max] may answer for a buffer that held [init], a stream [cs] and
    a soft maximum [max]:
    - [Ok]: the buffer is [init] followed by a prefix [taken] of the stream's bytes, the reader
      keeps exactly the remainder, and either the stream ended (all bytes taken, no failure)
      or the buffer is at least [max] long;
    - [Err e]: [e] is the stream's first failure and the buffer is [init] followed by every
      byte delivered before it. *)
Definition read_spec (init : bytes) (cs : stream) (max : N) (r : rres) : Prop :=
  match r with
  | RDone b' rest =>
      exists taken, contents b' = init ++ taken /\
        fst (pre_fail cs) = taken ++ fst (pre_fail rest) /\ snd (pre_fail rest) = snd (pre_fail cs) /\
        ((fst (pre_fail rest) = [] /\ snd (pre_fail cs) = None) \/ max <= N.of_nat (length (contents b')))
  | RIoErr e b' rest => snd (pre_fail cs) = Some e /\ contents b' = init ++ fst (pre_fail cs)
  | RPanic | RFuel => False
  end.

(** ---- executable instances used by the correspondence run ---- *)

(** [Vec::reserve] (amortised): max(8, max(2*cap, needed)) for one-byte elements. *)
Definition grow_vec (cap need : nat) : nat := Nat.max 8 (Nat.max (2 * cap) need).
(** junk from a pattern chosen by the test case (the real side cannot choose it) *)
Definition junk_of (pat : bytes) (d : bytes) (i : nat) : N := nth i pat (hd 170 pat + N.of_nat (length pat)).

Definition d_chunk (x : xval) : option chunk :=
  match x with XB d => Some (Data d) | XN e => Some (Fail e) | _ => None end.

Definition d_wctor (x : xval) : option wctor :=
  match x with
  | XL [XN 0] => Some WNew
  | XL [XN 1; XN c] => Some (WCap (N.to_nat c))
  | XL [XN 2; XB init; XN spare] => Some (WFrom init (N.to_nat spare))
  | _ => None
  end.

Fixpoint sum_len (l : list bytes) : nat :=
  match l with [] => O | s :: r => (length s + sum_len r)%nat end.

(** input: (L ctor (L writes...) (B junk)) *)
Definition run_writeable (x : xval) : xval :=
  match x with
  | XL [c; ws; XB pat] =>
      match d_wctor c, d_list d_B ws with
      | Some c, Some ws =>
          x_outcome (fun r => XL [XB r; x_nat (sum_len ws)]) (wb_session grow_vec (junk_of pat) c ws)
      | _, _ => bad_input
      end
  | _ => bad_input
  end.
Definition run_writeable_spec (x : xval) : xval :=
  match x with
  | XL [c; ws; XB _] =>
      match d_wctor c, d_list d_B ws with
      | Some c, Some ws => x_outcome (fun r => XL [XB r; x_nat (sum_len ws)]) (Ok (wctor_init c ++ concat ws))
      | _, _ => bad_input
      end
  | _ => bad_input
  end.

(** input: (L checked (N kind) (B body) (N spare) (N start) (N end) (B rep) (B junk));
    kind 0 ([BytesCow::Ref]): [take_mut] copies the slice, no spare capacity. *)
Definition run_replace (x : xval) : xval :=
  match x with
  | XL [c; XN kind; XB body; XN spare; XN s; XN e; XB rep; XB pat] =>
      match d_bool c with
      | Some checked =>
          let b := bm_of (junk_of pat) body (if N.eqb kind 0 then O else N.to_nat spare) in
          x_outcome (fun b' => XB (contents b')) (cow_replace grow_vec (junk_of pat) checked b s e rep)
      | None => bad_input
      end
  | _ => bad_input
  end.
Definition run_replace_spec (x : xval) : xval :=
  match x with
  | XL [c; XN kind; XB body; XN spare; XN s; XN e; XB rep; XB pat] =>
      let s := N.min s e in
      x_outcome XB (if e <=? N.of_nat (length body) then Ok (splice (N.to_nat s) (N.to_nat e) rep body) else Panic)
  | _ => bad_input
  end.

Definition stream_rest_len (cs : stream) : nat := stream_len cs.

Definition x_rres (total : nat) (r : rres) : xval :=
  match r with
  | RDone b rest => XL [XN 0; XB (contents b); x_nat (total - stream_len rest)]
  | RIoErr e b rest => XL [XN 1; XN e; XB (contents b); x_nat (total - stream_len rest)]
  | RPanic => XL [XN 2]
  | RFuel => XL [XN 3]
  end.

(** input: (L (B init) (N spare) (N max) (L ev...) (B junk)) *)
Definition run_read_gen (legacy : bool) (x : xval) : xval :=
  match x with
  | XL [XB init; XN spare; XN max; evs; XB pat] =>
      match d_list d_chunk evs with
      | Some cs =>
          x_rres (stream_len cs)
            (read_to_end_or_max grow_vec (junk_of pat) legacy (bm_of (junk_of pat) init (N.to_nat spare)) cs max)
      | None => bad_input
      end
  | _ => bad_input
  end.
Definition run_read := run_read_gen false.
Definition run_read_legacy := run_read_gen true.

(** spec component for the oracle: (L (B init) (B bytes-before-first-failure) (L [failure]) (N max));
    the relation [read_spec] itself is evaluated by the driver on the implementation's answer. *)
Definition run_read_spec (x : xval) : xval :=
  match x with
  | XL [XB init; XN spare; XN max; evs; XB pat] =>
      match d_list d_chunk evs with
      | Some cs => XL [XB init; XB (fst (pre_fail cs)); x_option XN (snd (pre_fail cs)); XN max]
      | None => bad_input
      end
  | _ => bad_input
  end.

(** input: (L (B content) (B junk)); the file is delivered as one chunk (the result does
    not depend on the chunking: [read_chunking_irrelevant]). *)
Definition run_file (x : xval) : xval :=
  match x with
  | XL [XB content; XB pat] => x_outcome XB (read_file grow_vec (junk_of pat) [Data content])
  | _ => bad_input
  end.
Definition run_file_spec (x : xval) : xval :=
  match x with
  | XL [XB content; XB pat] => x_outcome XB (Ok content)
  | _ => bad_input
  end.

Definition buffers_table : list (bytes * (xval -> xval)) :=
  [ (B "buf.writeable", run_writeable);
    (B "buf.writeable.spec", run_writeable_spec);
    (B "buf.replace", run_replace);
    (B "buf.replace.spec", run_replace_spec);
    (B "buf.read", run_read);
    (B "buf.read.legacy", run_read_legacy);
    (B "buf.read.spec", run_read_spec);
    (B "buf.file", run_file);
    (B "buf.file.spec", run_file_spec) ].
