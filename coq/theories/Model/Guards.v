(** C17 — the access-guarding file directives in the request pipeline.

    Layer below the cache ([handle_cache_helpers::get_response] + [handle_request], src/lib.rs;
    [Extensions::resolve_present], src/extensions.rs; [kvarn_extensions::{ip_allow, hide, cache,
    download, templates, mount_all}], extensions/src/lib.rs; [error::default], src/error.rs) for a host that
    serves files ([Extensions::empty()] or [Extensions::new()] + [mount_all]): raw URI path -> percent-decoded
    path -> file read -> Present extensions selected by the decoded path's file extension ([present_file]:
    "private" -> hide) and by the [!> ] line of the file ([present_internal]) -> [FatResponse].  On top of it
    the response cache in full (Model/CacheX.v [serveX]: lookup under the override URI, admission of new items
    and of pushed variants, 304 only for a stored variant, [clear_page] with the redirect target): hits never
    re-run Present extensions.

    Switches select the code before the repairs of this property (only used for the [..._refuted]
    witnesses):  [fix_ext = false]: the file extension is taken from the RAW path; [fix_lock = false]: a
    [cache] directive after [allow-ips] overrides the server preference; [fix_errline = false]: the error page
    that replaces a guarded file keeps the [!> ] line of [errors/404.html].
    Definitions only; proofs live in Proofs/GuardsProofs.v. *)
From KV Require Export Bytes RustInt Range CacheControl Cache Fixture CacheX.
From KV Require PathSan PresentLine Templates.
Open Scope N_scope.

(** ---------------------------------------------------------------------------
    [std::path::Path::extension] (Unix) of a relative path string:
    [file_name] = the last component if it is a normal one (empty components and "." are
    skipped by [Components], a final ".." has no file name); [rsplit_file_at_dot]: the text after
    the last '.', unless there is no '.' or nothing stands before it. *)
Definition seg_skipped (s : bytes) : bool :=
  match s with [] => true | [c] => c =? 46 | _ => false end.
Definition file_name (s : bytes) : option bytes :=
  match rev (filter (fun x => negb (seg_skipped x)) (PathSan.split_on 47 s)) with
  | [] => None
  | n :: _ => if beq n [46; 46] then None else Some n
  end.
(** [r]: reversed file name; result (before, after) of [rsplitn(2, '.')] *)
Fixpoint rsplit_dot (r : bytes) (acc : bytes) : option (bytes * bytes) :=
  match r with
  | [] => None
  | c :: r' => if c =? 46 then Some (rev r', acc) else rsplit_dot r' (c :: acc)
  end.
Definition path_extension (s : bytes) : option bytes :=
  match file_name s with
  | None => None
  | Some n =>
      match rsplit_dot (rev n) [] with
      | Some (before, after) => match before with [] => None | _ => Some after end
      | None => None
      end
  end.

Definition EXT_PRIVATE : bytes := Eval vm_compute in B "private".
Definition N_HIDE : bytes := Eval vm_compute in B "hide".
Definition N_ALLOW : bytes := Eval vm_compute in B "allow-ips".
Definition N_CACHE : bytes := Eval vm_compute in B "cache".
Definition N_DOWNLOAD : bytes := Eval vm_compute in B "download".
Definition N_TMPL : bytes := Eval vm_compute in B "tmpl".

(** the path whose extension selects the [present_file] extension in [resolve_present]:
    repaired code: [parse::uri(&utils::percent_decode(request.uri().path()))];
    before: [parse::uri(request.uri().path())] *)
Definition ext_source (fix_ext : bool) (raw : bytes) : option bytes :=
  PathSan.parse_uri (if fix_ext then PathSan.util_percent_decode raw else raw).
Definition private_hit (fix_ext : bool) (raw : bytes) : bool :=
  match ext_source fix_ext raw with
  | Some s => match path_extension s with Some e => beq e EXT_PRIVATE | None => false end
  | None => false
  end.

(** ---------------------------------------------------------------------------
    [<IpAddr as FromStr>::from_str] ([core::net::parser], Rust 1.95): [read_ipv4_addr] — four groups of
    1..3 decimal digits separated by '.', no leading zero in a group of more than one digit, each at
    most 255 — else [read_ipv6_addr] — up to eight groups of 1..4 hex digits separated by ':', at most
    one "::" standing for one or more zero groups, an embedded IPv4 address as the last 32 bits (not
    before "::") —; in either case nothing may follow.  Parsers return the value and the rest. *)
Fixpoint take_digits (s : bytes) (acc : bytes) : bytes * bytes :=
  match s with
  | c :: r => if is_digit c then take_digits r (c :: acc) else (rev acc, s)
  | [] => (rev acc, [])
  end.
(** [read_number(10, Some(3), false)] into a [u8] *)
Definition read_octet (s : bytes) : option (N * bytes) :=
  let '(ds, rest) := take_digits s [] in
  match ds with
  | [] => None
  | d0 :: tl =>
      if Nat.ltb 3 (length ds) then None
      else if (d0 =? 48) && negb (match tl with [] => true | _ => false end) then None
      else let v := fold_left (fun a c => a * 10 + (c - 48)) ds 0 in
           if v <=? 255 then Some (v, rest) else None
  end.
Definition expect_dot (s : bytes) : option bytes :=
  match s with c :: r => if c =? 46 then Some r else None | [] => None end.
Definition quad := (N * N * N * N)%type.
Definition read_ipv4 (s : bytes) : option (quad * bytes) :=
  match read_octet s with
  | Some (a, s1) =>
    match expect_dot s1 with
    | Some s2 =>
      match read_octet s2 with
      | Some (b, s3) =>
        match expect_dot s3 with
        | Some s4 =>
          match read_octet s4 with
          | Some (c, s5) =>
            match expect_dot s5 with
            | Some s6 =>
              match read_octet s6 with
              | Some (d, rest) => Some ((a, b, c, d), rest)
              | None => None
              end
            | None => None
            end
          | None => None
          end
        | None => None
        end
      | None => None
      end
    | None => None
    end
  | None => None
  end.
Definition quad_eqb (x y : quad) : bool :=
  let '(a, b, c, d) := x in let '(a', b', c', d') := y in
  (a =? a') && (b =? b') && (c =? c') && (d =? d').

Definition is_hex (c : N) : bool := match PathSan.hex_val c with Some _ => true | None => false end.
Definition hex_of (c : N) : N := match PathSan.hex_val c with Some v => v | None => 0 end.
Fixpoint take_hex (s : bytes) (acc : bytes) : bytes * bytes :=
  match s with
  | c :: r => if is_hex c then take_hex r (c :: acc) else (rev acc, s)
  | [] => (rev acc, [])
  end.
(** [read_number(16, Some(4), true)] into a [u16] *)
Definition read_hex4 (s : bytes) : option (N * bytes) :=
  let '(ds, rest) := take_hex s [] in
  match ds with
  | [] => None
  | _ => if Nat.ltb 4 (length ds) then None
         else Some (fold_left (fun a c => a * 16 + hex_of c) ds 0, rest)
  end.
(** [read_separator(':', i, inner)]: from the second group on a ':' comes first *)
Definition sep_colon (i : nat) (s : bytes) : option bytes :=
  match i with
  | O => Some s
  | S _ => match s with c :: r => if c =? 58 then Some r else None | [] => None end
  end.
(** [read_groups(p, &mut groups[..limit])] from index [i] on ([fuel] = groups still to fill):
    the groups read, whether an embedded IPv4 address ended them, the rest *)
Fixpoint read_groups (fuel limit i : nat) (s : bytes) : list N * bool * bytes :=
  match fuel with
  | O => ([], false, s)
  | S fuel' =>
      let v4 := if Nat.ltb i (limit - 1)
                then match sep_colon i s with Some s1 => read_ipv4 s1 | None => None end
                else None in
      match v4 with
      | Some ((a, b, c, d), rest) => ([a * 256 + b; c * 256 + d], true, rest)
      | None =>
          match (match sep_colon i s with Some s1 => read_hex4 s1 | None => None end) with
          | Some (g, rest) => let '(gs, v, r) := read_groups fuel' limit (S i) rest in (g :: gs, v, r)
          | None => ([], false, s)
          end
      end
  end.
Definition read_ipv6 (s : bytes) : option (list N * bytes) :=
  let '(head, head_v4, r1) := read_groups 8 8 0 s in
  if Nat.eqb (length head) 8 then Some (head, r1)
  else if head_v4 then None
  else match r1 with
       | c1 :: c2 :: r2 =>
           if (c1 =? 58) && (c2 =? 58) then
             let limit := (8 - (length head + 1))%nat in
             let '(tail, _, r3) := read_groups limit limit 0 r2 in
             Some (head ++ repeat 0 (8 - length head - length tail) ++ tail, r3)
           else None
       | _ => None
       end.

Inductive ip := IPv4 (q : quad) | IPv6 (g : list N).
(** [Parser::parse_with(|p| p.read_ip_addr())]: IPv4 first; if that read an address, IPv6 is not tried *)
Definition parse_ip (s : bytes) : option ip :=
  match read_ipv4 s with
  | Some (q, rest) => match rest with [] => Some (IPv4 q) | _ => None end
  | None => match read_ipv6 s with
            | Some (g, []) => Some (IPv6 g)
            | _ => None
            end
  end.
Fixpoint groups_eqb (a c : list N) : bool :=
  match a, c with
  | [], [] => true
  | x :: a', y :: c' => (x =? y) && groups_eqb a' c'
  | _, _ => false
  end.
(** [IpAddr == IpAddr]: an IPv4 address never equals an IPv6 one (not even its mapped form) *)
Definition ip_eqb (a c : ip) : bool :=
  match a, c with
  | IPv4 x, IPv4 y => quad_eqb x y
  | IPv6 x, IPv6 y => groups_eqb x y
  | _, _ => false
  end.

(** the client address [rq_addr] of a request, as a number:
      n < 65536                    10.0.(n/256).(n mod 256)           (c00pipe.rs [sockaddr])
      65536 <= n < 65536 + 2^32    the IPv4 address with the 32-bit value n - 65536
      otherwise                    the IPv6 address with the 128-bit value n - 65536 - 2^32 (mod 2^128) *)
Definition V4_BASE : N := 65536.
Definition V6_BASE : N := 65536 + 4294967296.
Definition quad_of_addr (n : N) : quad := (10, 0, (n / 256) mod 256, n mod 256).
Definition quad_of_u32 (v : N) : quad := ((v / 16777216) mod 256, (v / 65536) mod 256, (v / 256) mod 256, v mod 256).
Definition groups_of_u128 (v : N) : list N :=
  map (fun k => (v / 2 ^ (16 * (7 - N.of_nat k))) mod 65536) (seq 0 8).
Definition ip_of_addr (n : N) : ip :=
  if n <? V4_BASE then IPv4 (quad_of_addr n)
  else if n <? V6_BASE then IPv4 (quad_of_u32 (n - V4_BASE))
  else IPv6 (groups_of_u128 (n - V6_BASE)).
(** [denied.parse::<IpAddr>()] is [Ok(ip)] with [data.address.ip() == ip] *)
Definition arg_matches (addr : N) (arg : bytes) : bool :=
  match parse_ip arg with Some a => ip_eqb a (ip_of_addr addr) | None => false end.

(** ---------------------------------------------------------------------------
    [ClientCachePreference], its [FromStr] and [as_header]; [ServerCachePreference::from_str]. *)
Inductive cpref := CIgnore | CNone | CChanging | CFull | CMaxAge (secs : N).

Definition strip_suffix_s (s : bytes) : option bytes :=
  match rev s with c :: r => if c =? 115 then Some (rev r) else None | [] => None end.
Definition secs_form (s : bytes) : option N :=
  match strip_suffix_s s with Some i => parse_u64 i | None => None end.

Definition parse_cpref (s : bytes) : option cpref :=
  match secs_form s with
  | Some n => if n =? 0 then None else Some (CMaxAge n)
  | None =>
      if beq s (B "ignore") then Some CIgnore
      else if beq s (B "full") then Some CFull
      else if beq s (B "changing") then Some CChanging
      else if beq s (B "none") then Some CNone
      else None
  end.
Definition parse_spref (s : bytes) : option N :=
  if beq s (B "full") then Some SP_FULL
  else if beq s (B "query_matters") || beq s (B "query-matters") || beq s (B "QueryMatters") || beq s (B "queryMatters")
  then Some SP_QUERY
  else if beq s (B "none") then Some SP_NONE
  else match s with
       | [] => None
       | _ => match secs_form s with
              | Some n => if n =? 0 then None else Some SP_MAXAGE
              | None => None
              end
       end.

Definition cpref_header (c : cpref) : option bytes :=
  match c with
  | CIgnore => None
  | CNone => Some (B "no-store")
  | CChanging => Some (B "max-age=120")
  | CFull => Some (B "public, max-age=604800, immutable")
  | CMaxAge n => Some (B "public, max-age=" ++ dec n ++ B ", immutable")
  end.
(** [CompressedResponse::set_client_cache]: [entry("cache-control").or_insert] *)
Definition with_cpref (c : cpref) (hs : list (bytes * bytes)) : list (bytes * bytes) :=
  match cpref_header c, assoc (B "cache-control") hs with
  | Some v, None => hs ++ [(B "cache-control", v)]
  | _, _ => hs
  end.

(** the [cache] Present extension's argument parser: [arg.split(':')], first two parts *)
Fixpoint split_colon (s : bytes) (acc : bytes) : bytes * option bytes :=
  match s with
  | [] => (rev acc, None)
  | c :: r => if c =? 58 then (rev acc, Some r) else split_colon r (c :: acc)
  end.
Definition cache_arg (a : bytes) : option (bytes * bytes) :=
  match split_colon a [] with
  | (domain, Some rest) => Some (domain, fst (split_colon rest []))
  | (_, None) => None
  end.
Fixpoint cache_parse (args : list bytes) (c : option cpref) (s : option N) : option cpref * option N :=
  match args with
  | [] => (c, s)
  | a :: r =>
      match cache_arg a with
      | Some (domain, v) =>
          if beq domain (B "client") then
            cache_parse r (match parse_cpref v with Some p => Some p | None => c end) s
          else if beq domain (B "server") then
            cache_parse r c (match parse_spref v with Some p => Some p | None => s end)
          else cache_parse r c s
      | None => cache_parse r c s
      end
  end.

(** ---------------------------------------------------------------------------
    The response while the Present extensions work on it. *)
Record pst := mkP {
  ps_status : N;
  ps_headers : list (bytes * bytes);
  ps_body : bytes;
  ps_spref : N;
  ps_cpref : cpref;
  ps_locked : bool }.     (* the [NoServerCache] marker in the response's extensions *)

Definition err_headers : list (bytes * bytes) :=
  [(B "content-type", B "text/html; charset=utf-8"); (B "content-encoding", B "identity")].

Fixpoint set_header (k v : bytes) (hs : list (bytes * bytes)) : list (bytes * bytes) :=
  match hs with
  | [] => [(k, v)]
  | (k', v') :: r => if beq k k' then (k, v) :: r else (k', v') :: set_header k v r
  end.

Section Guards.
  Variable fix_ext fix_lock fix_errline : bool.
  (** the host was made with [Extensions::new()]: the Prepare extension bound to "/./cors_fail" exists *)
  Variable cors : bool.
  (** [read_file(<host.path>/<public>/<t>)] for the decoded path [t] (leading '/' stripped); what the server
      holds for a path does not change during a history (see Section FileCache below for the file cache) *)
  Variable fs : bytes -> option bytes.
  (** body of [error::default(status, host)]: [<host.path>/errors/<status>.html] or the hard-coded page *)
  Variable errpage : N -> bytes.
  (** [templates::handle_template] with the template files named by the arguments: body -> body *)
  Variable tmpl : list bytes -> bytes -> bytes.

  (** [PresentExtensions::new] of a body (total: Proofs/PresentLineProofs.v [present_parse_total]) *)
  Definition line_of (c : bytes) : option PresentLine.parsed :=
    match PresentLine.present_parse c with Ok r => r | _ => None end.
  Definition first_tmpl (es : list PresentLine.entry) : option (list bytes) :=
    option_map snd (find (fun e => beq (fst e) N_TMPL) es).

  (** the body of the 404 response that [ip_allow] puts in place: [default_error(404)], after the repair
      without the page's own [!> ] line *)
  Definition error_body_allow (code : N) : bytes :=
    match line_of (errpage code) with
    | Some p => if fix_errline then PresentLine.p_body p else errpage code
    | None => errpage code
    end.
  (** ... and [hide]: an error page that is a [!> tmpl] template is rendered *)
  Definition error_body_hide (code : N) : bytes :=
    match line_of (errpage code) with
    | Some p =>
        match first_tmpl (PresentLine.p_entries p) with
        | Some args => tmpl args (PresentLine.p_body p)
        | None => if fix_errline then PresentLine.p_body p else errpage code
        end
    | None => errpage code
    end.

  (** [*data.response = default_error(code).map(Into::into)]: a new response (its extensions are empty) *)
  Definition to_error (st : pst) (code : N) (body : bytes) : pst :=
    mkP code err_headers body (ps_spref st) (ps_cpref st) false.

  (** [kvarn_extensions::hide] *)
  Definition do_hide (st : pst) : pst := to_error st 404 (error_body_hide 404).

  (** [kvarn_extensions::ip_allow] *)
  Definition do_allow (addr : N) (args : list bytes) (st : pst) : pst :=
    let matched := existsb (arg_matches addr) args in
    let st1 := mkP (ps_status st) (ps_headers st) (ps_body st) SP_NONE CChanging (ps_locked st) in
    let st2 := if matched then st1 else to_error st1 404 (error_body_allow 404) in
    mkP (ps_status st2) (ps_headers st2) (ps_body st2) (ps_spref st2) (ps_cpref st2) true.

  (** [kvarn_extensions::cache] *)
  Definition do_cache (args : list bytes) (st : pst) : pst :=
    let '(c, s) := cache_parse args None None in
    let cp := match c with Some p => p | None => ps_cpref st end in
    let sp := match s with
              | Some p => if fix_lock && ps_locked st then ps_spref st else p
              | None => ps_spref st
              end in
    mkP (ps_status st) (ps_headers st) (ps_body st) sp cp (ps_locked st).

  Definition do_download (st : pst) : pst :=
    mkP (ps_status st) (set_header (B "content-type") (B "application/octet-stream") (ps_headers st))
        (ps_body st) (ps_spref st) (ps_cpref st) (ps_locked st).

  (** [kvarn_extensions::templates] *)
  Definition do_tmpl (args : list bytes) (st : pst) : pst :=
    mkP (ps_status st) (ps_headers st) (tmpl args (ps_body st)) (ps_spref st) (ps_cpref st) (ps_locked st).

  (** one [present_internal] extension of the line; names that are not mounted do nothing *)
  Definition step (addr : N) (st : pst) (e : PresentLine.entry) : pst :=
    let '(name, args) := e in
    if beq name N_HIDE then do_hide st
    else if beq name N_ALLOW then do_allow addr args st
    else if beq name N_CACHE then do_cache args st
    else if beq name N_DOWNLOAD then do_download st
    else if beq name N_TMPL then do_tmpl args st
    else st.

  (** [resolve_present]: parse the line of the body, cut it off, the file-extension extension, then
      the line's extensions in order *)
  Definition present (r : request) (st : pst) : pst :=
    let parsed := line_of (ps_body st) in
    let st0 := match parsed with
               | Some p => mkP (ps_status st) (ps_headers st) (PresentLine.p_body p) (ps_spref st) (ps_cpref st) (ps_locked st)
               | None => st
               end in
    let st1 := if private_hit fix_ext (rq_path r) then do_hide st0 else st0 in
    fold_left (step (rq_addr r)) (match parsed with Some p => PresentLine.p_entries p | None => [] end) st1.

  (** [sanitize_error_into_response] = [error::default_response]: server preference None, client Full;
      [handle_request] keeps only the [.response] of [default_response] and wraps it in
      [FatResponse::cache]: server Full, client Full *)
  Definition err_pst (code : N) (spref : N) : pst := mkP code err_headers (errpage code) spref CFull false.
  Definition file_pst (c : bytes) : pst := mkP 200 [] c SP_FULL CFull false.
  (** the answer of the Prepare extension that [Extensions::new] binds to "/./cors_fail" (server cache
      preference None since kvarn d00feae) *)
  Definition cors_pst : pst := mkP 403 [] (B "CORS request denied") SP_NONE CFull false.

  (** the decoded path a file is read from ([get_response]) *)
  Definition served_file (raw : bytes) : outcome (option bytes) :=
    match PathSan.decoded_for_use raw with
    | None => Ok None                                  (* "Invalid percent encoding in path." *)
    | Some d => match PathSan.parse_uri d with
                | Some t => Ok (Some t)
                | None => Panic                        (* utils::parse::uri(&decoded).unwrap() *)
                end
    end.

  Definition is_cors_fail (ov : option (bytes * option bytes)) : bool :=
    match ov with Some (p, _) => beq p CORS_FAIL | None => false end.

  (** [get_response] up to [resolve_present]: sanitize error page, or [handle_request]: the Prepare
      extension bound to the override URI, else the file named by the REQUEST's path *)
  Definition base (r : request) (ov : option (bytes * option bytes)) (ok : bool) : outcome pst :=
    if negb ok then
      Ok (err_pst (match PathSan.sanitize_path (rq_path r) with Ok _ => 416 | _ => 400 end) SP_NONE)
    else
      match served_file (rq_path r) with
      | Panic => Panic
      | Err e => Err e
      | Ok None => if cors && is_cors_fail ov then Ok cors_pst else Ok (err_pst 404 SP_FULL)
      | Ok (Some t) =>
          if cors && is_cors_fail ov then Ok cors_pst
          else if get_or_head (rq_method r) then
            match fs t with
            | Some c => Ok (file_pst c)
            | None => Ok (err_pst 404 SP_FULL)
            end
          else Ok (err_pst 405 SP_FULL)
      end.

  Definition fat_of (st : pst) : fat :=
    {| f_status := ps_status st; f_headers := with_cpref (ps_cpref st) (ps_headers st);
       f_body := ps_body st; f_spref := ps_spref st; f_compress := true |}.
  (** a panic inside [handle_cache]: no response at all *)
  Definition panic_fat : fat :=
    {| f_status := 0; f_headers := []; f_body := []; f_spref := SP_NONE; f_compress := false |}.

  Definition layer_b (r : request) (ov : option (bytes * option bytes)) (ok : bool) : fat :=
    match base r ov ok with
    | Ok st => fat_of (present r st)
    | _ => panic_fat
    end.

  Definition compute_g (hs : unit) (r : request) (ov : option (bytes * option bytes)) (ok : bool)
    : fatx * unit * list bytes := (plain (layer_b r ov ok), hs, []).

  Definition sanitize_ok_g (r : request) : bool :=
    match PathSan.sanitize_path (rq_path r) with
    | Ok _ => match sanitize_range (header (B "range") r) with Ok _ => true | _ => false end
    | _ => false
    end.

  (** [clone_preferred] may refuse (406): the body is then the 406 error page as [error::default] gives it *)
  Definition negotiate_g (refuses : request -> fatx -> bool) (r : request) (x : fatx) : option (N * bytes) :=
    if refuses r x then Some (406, errpage 406) else None.

  (** the whole server: Model/CacheX.v [runX] (the repaired [handle_vary_missing]; the other repairs of the
      cache layer are parameters) above [compute_g].  [prime]: the URI rewriting of the non-internal Prime
      extensions (identity for [Extensions::empty()] + [mount_all]; "Expand . and /" for [Extensions::new()] +
      [mount_all]); [override]: the internal URI a Prime extension answers with (the CORS denial of
      [Extensions::new()]); sanitize looks at the request before, everything else at the request after the
      rewriting *)
  Definition run_g (cache_on ims_on fix_ovkey fix_clear fix_svary fix_qmkey fix_ims : bool) (sfilter : N -> bool)
      (parse_ims : bytes -> option Z) (prime : request -> request)
      (override : request -> option (bytes * option bytes))
      (refuses : request -> fatx -> bool) (vary_tuple : request -> option (bytes * option bytes) -> tuple)
      (vary_header : request -> option (bytes * option bytes) -> fatx -> list (bytes * bytes))
      (clear_alias : request -> option request)
      (c : cachex) (now : N) (ops : list opx) : list obsx :=
    runX unit compute_g cache_on ims_on true fix_ovkey fix_clear fix_svary fix_qmkey fix_ims sfilter parse_ims
         sanitize_ok_g prime override (negotiate_g refuses) vary_tuple vary_header clear_alias (c, tt) now ops.
End Guards.

(** ---------------------------------------------------------------------------
    Files that CHANGE during a history (a page is deployed, a public page gets an [!> allow-ips] line, a list is
    edited ...).  A [world] is what the server reads at one moment: public files, error pages, template engine.  A history
    is a list of (world, operation): every operation runs in the world of its moment — any sequence of worlds, so every
    pattern of writes, deletions and renames between two operations is covered — while the response cache lives
    through the whole history.  [fix_vary]: the admission test of [handle_vary_missing] (src/lib.rs; [false] = the code
    before kvarn 8fe98d4, which pushed every computed variant into an item that is already cached). *)
Record world := mkW {
  wd_fs : bytes -> option bytes;
  wd_err : N -> bytes;
  wd_tmpl : list bytes -> bytes -> bytes }.

Section Changing.
  Variable fix_ext fix_lock fix_errline cors : bool.
  Variable cache_on ims_on fix_vary fix_ovkey fix_clear fix_svary fix_qmkey fix_ims : bool.
  Variable sfilter : N -> bool.
  Variable parse_ims : bytes -> option Z.
  Variable prime : request -> request.
  Variable override : request -> option (bytes * option bytes).
  Variable refuses : request -> fatx -> bool.
  Variable vary_tuple : request -> option (bytes * option bytes) -> tuple.
  Variable vary_header : request -> option (bytes * option bytes) -> fatx -> list (bytes * bytes).
  Variable clear_alias : request -> option request.

  Definition step_gw (w : world) (st : cachex * unit) (now : N) (o : opx) : (cachex * unit) * N * obsx :=
    stepX unit (compute_g fix_ext fix_lock fix_errline cors (wd_fs w) (wd_err w) (wd_tmpl w)) cache_on ims_on fix_vary fix_ovkey
          fix_clear fix_svary fix_qmkey fix_ims sfilter parse_ims sanitize_ok_g prime override
          (negotiate_g (wd_err w) refuses) vary_tuple vary_header clear_alias st now o.

  Fixpoint run_gw (st : cachex * unit) (now : N) (wops : list (world * opx)) : list obsx :=
    match wops with
    | [] => []
    | (w, o) :: rest => let '(st', now', ob) := step_gw w st now o in ob :: run_gw st' now' rest
    end.
End Changing.

(** ---------------------------------------------------------------------------
    Specification vocabulary (independent of the order in which the code does things). *)
Definition entries_of (content : bytes) : list PresentLine.entry :=
  match PresentLine.present_parse content with
  | Ok (Some p) => PresentLine.p_entries p
  | _ => []
  end.
Definition has_name (n : bytes) (es : list PresentLine.entry) : bool :=
  existsb (fun e => beq (fst e) n) es.
(** the address is listed by every [allow-ips] directive of the line *)
Definition listed (addr : N) (es : list PresentLine.entry) : bool :=
  forallb (fun e => if beq (fst e) N_ALLOW then existsb (arg_matches addr) (snd e) else true) es.
(** named [*.private]: the last path component is [<non-empty stem>.private] *)
Definition is_private (t : bytes) : bool :=
  match path_extension t with Some e => beq e EXT_PRIVATE | None => false end.
Definition is_hidden (t content : bytes) : bool := is_private t || has_name N_HIDE (entries_of content).
Definition is_allow_ips (content : bytes) : bool := has_name N_ALLOW (entries_of content).
Definition guarded (t content : bytes) : bool := is_hidden t content || is_allow_ips content.

(** the only way a reply to [r] may carry guarded content: [r]'s decoded path is a file marked
    [allow-ips] (and neither hidden nor private) and [r]'s client address is listed *)
Definition permitted (fs : bytes -> option bytes) (r : request) : Prop :=
  exists t c, served_file (rq_path r) = Ok (Some t) /\ fs t = Some c /\
              is_hidden t c = false /\ is_allow_ips c = true /\ listed (rq_addr r) (entries_of c) = true.
Definition permitted_b (fs : bytes -> option bytes) (r : request) : bool :=
  match served_file (rq_path r) with
  | Ok (Some t) =>
      match fs t with
      | Some c => negb (is_hidden t c) && is_allow_ips c && listed (rq_addr r) (entries_of c)
      | None => false
      end
  | _ => false
  end.

Definition leaks (secret : bytes) (rp : replyx) : bool :=
  contains_sub secret (rx_body rp) || contains_sub secret (rx_identity rp).

(** what the property demands of one observation of a history *)
Definition reply_ok (fs : bytes -> option bytes) (secret : bytes) (prime : request -> request) (o : opx) (ob : obsx) : Prop :=
  match o, ob with
  | XReq r, XbReply rp _ => leaks secret rp = true -> permitted fs (prime r)
  | _, _ => True
  end.

(** ... with files that change: every world of the history keeps the secret inside guarded files, and a reply is judged by
    the world of its own moment *)
Definition world_ok (secret : bytes) (w : world) : Prop :=
  (forall t c, wd_fs w t = Some c -> contains_sub secret c = true -> guarded t c = true) /\
  (forall s, contains_sub secret (wd_err w s) = false) /\
  (forall args b, contains_sub secret (wd_tmpl w args b) = true -> contains_sub secret b = true).
Definition reply_ok_w (secret : bytes) (prime : request -> request) (wo : world * opx) (ob : obsx) : Prop :=
  reply_ok (wd_fs (fst wo)) secret prime (snd wo) ob.

(** every percent-encoded spelling of a byte string: position by position either the byte itself or
    [%XY] with each hex digit in either case ([None] = literal, [Some (u1, u2)] = encoded, upper case?) *)
Definition hex_digit (upper : bool) (n : N) : N :=
  if n <? 10 then 48 + n else (if upper then 55 else 87) + n.
Fixpoint pct_encode (mask : list (option (bool * bool))) (d : bytes) : bytes :=
  match d with
  | [] => []
  | c :: r =>
      match mask with
      | Some (u1, u2) :: m => 37 :: hex_digit u1 (c / 16) :: hex_digit u2 (c mod 16) :: pct_encode m r
      | None :: m => c :: pct_encode m r
      | [] => c :: pct_encode [] r
      end
  end.
(** a literal '%' must itself be encoded for the spelling to denote [d] *)
Fixpoint mask_ok (mask : list (option (bool * bool))) (d : bytes) : bool :=
  match d with
  | [] => true
  | c :: r =>
      match mask with
      | Some _ :: m => mask_ok m r
      | None :: m => negb (c =? 37) && mask_ok m r
      | [] => negb (c =? 37) && mask_ok [] r
      end
  end.

(** ---------------------------------------------------------------------------
    The fixture: files of a scenario as a tree (PathSan's resolution: ENOTDIR, empty and "."
    components, ".."), error pages [errors/<code>.html] (else the hard-coded page, written [ERRPAGE:<code>]),
    template files [templates/<arg>] (Model/Templates.v), the scenario decoder.  Component ["guards.run"]. *)
Fixpoint tree_insert (segs : list bytes) (content : bytes) (n : PathSan.node) : PathSan.node :=
  match segs with
  | [] => PathSan.File content
  | s :: rest =>
      let ch := match n with PathSan.Dir ch => ch | PathSan.File _ => [] end in
      let sub := match PathSan.assoc s ch with Some m => m | None => PathSan.Dir [] end in
      PathSan.Dir ((s, tree_insert rest content sub) :: ch)
  end.
Definition tree_of (files : list (bytes * bytes)) : PathSan.node :=
  fold_left (fun n '(name, content) => tree_insert (PathSan.split_on 47 name) content n) files (PathSan.Dir []).
Definition PUBLIC_SLASH : bytes := Eval vm_compute in B "public/".
Definition ERRORS_SLASH : bytes := Eval vm_compute in B "errors/".
Definition TEMPLATES_SLASH : bytes := Eval vm_compute in B "templates/".
Definition tree_read (tree : PathSan.node) (p : bytes) : option bytes :=
  PathSan.read_path (tree, []) (tree, []) p.

(** what the server reads, over a reader [rd] of paths relative to the host directory:
    [read_file(make_path(host.path, "public", t))], [error::default]: [make_path(host.path, "errors", code, Some("html"))]
    or the hard-coded page (written [ERRPAGE:<code>]), and [templates::Cache::resolve_template]: the files
    [make_path(host.path, "templates", arg, None)] named by the arguments, last argument first; the first one that can be
    read and defines the name *)
Definition fs_of (rd : bytes -> option bytes) (t : bytes) : option bytes := rd (PUBLIC_SLASH ++ t).
Definition ERRPAGE_COLON : bytes := Eval vm_compute in B "ERRPAGE:".
Definition errpage_fix (code : N) : bytes := ERRPAGE_COLON ++ dec code.
Definition errpage_of (rd : bytes -> option bytes) (code : N) : bytes :=
  match rd (ERRORS_SLASH ++ dec code ++ B ".html") with
  | Some c => c
  | None => errpage_fix code
  end.
Fixpoint resolve_template (rd : bytes -> option bytes) (files : list bytes) (name : bytes) : outcome (option bytes) :=
  match files with
  | [] => Ok None
  | f :: rest =>
      match rd (TEMPLATES_SLASH ++ f) with
      | Some content =>
          obind (Templates.extract_templates false content) (fun m =>
          match Templates.t_get name m with
          | Some t => Ok (Some t)
          | None => resolve_template rd rest name
          end)
      | None => resolve_template rd rest name
      end
  end.
Definition TMPL_PANIC : bytes := Eval vm_compute in B "<<template engine panicked>>".
Definition tmpl_of (rd : bytes -> option bytes) (args : list bytes) (body : bytes) : bytes :=
  match Templates.handle_template (resolve_template rd (rev args)) body with
  | Ok b => b
  | _ => TMPL_PANIC       (* never: Proofs/TemplatesProofs.v *)
  end.
Definition fs_of_tree (tree : PathSan.node) : bytes -> option bytes := fs_of (tree_read tree).
Definition errpage_of_tree (tree : PathSan.node) : N -> bytes := errpage_of (tree_read tree).
Definition tmpl_of_tree (tree : PathSan.node) : list bytes -> bytes -> bytes := tmpl_of (tree_read tree).

(** ---------------------------------------------------------------------------
    The file cache ([host.file_cache], src/read.rs): a map from the path text to the content or to "no such
    file" (negative entry).  [read::file] (public files) consults it and never fills it; [read::file_cached]
    (error pages, template files) consults it and stores what it read from the disk.  What the server holds for a
    path is the entry if there is one — also a stale or a negative one — and the disk otherwise. *)
Definition fcache := list (bytes * option bytes).
Fixpoint fc_find (p : bytes) (fc : fcache) : option (option bytes) :=
  match fc with
  | [] => None
  | (q, v) :: r => if beq p q then Some v else fc_find p r
  end.
Definition fc_view (on : bool) (disk : bytes -> option bytes) (fc : fcache) (p : bytes) : option bytes :=
  if on then match fc_find p fc with Some v => v | None => disk p end else disk p.
Definition fc_fill1 (on : bool) (disk : bytes -> option bytes) (fc : fcache) (p : bytes) : fcache :=
  if on then match fc_find p fc with Some _ => fc | None => (p, disk p) :: fc end else fc.
Definition fc_fill (on : bool) (disk : bytes -> option bytes) (fc : fcache) (ps : list bytes) : fcache :=
  fold_left (fc_fill1 on disk) ps fc.

(** the server with its file cache as state: every read sees [fc_view] of the current cache; [reads] names the paths
    a request reads through [file_cached] (ANY choice: the theorem [file_cache_transparent] does not depend on it).
    The 406 page of the negotiation is read in [handle_cache] itself. *)
Definition compute_gf (fix_ext fix_lock fix_errline cors on : bool) (disk : bytes -> option bytes)
    (reads : request -> option (bytes * option bytes) -> bool -> list bytes)
    (fc : fcache) (r : request) (ov : option (bytes * option bytes)) (ok : bool) : fatx * fcache * list bytes :=
  let rd := fc_view on disk fc in
  (plain (layer_b fix_ext fix_lock fix_errline cors (fs_of rd) (errpage_of rd) (tmpl_of rd) r ov ok),
   fc_fill on disk fc (reads r ov ok), []).
Definition run_gf (fix_ext fix_lock fix_errline cors on : bool) (disk : bytes -> option bytes)
    (reads : request -> option (bytes * option bytes) -> bool -> list bytes) (fc0 : fcache)
    (cache_on ims_on fix_ovkey fix_clear fix_svary fix_qmkey fix_ims : bool) (sfilter : N -> bool)
    (parse_ims : bytes -> option Z) (prime : request -> request)
    (override : request -> option (bytes * option bytes))
    (refuses : request -> fatx -> bool) (vary_tuple : request -> option (bytes * option bytes) -> tuple)
    (vary_header : request -> option (bytes * option bytes) -> fatx -> list (bytes * bytes))
    (clear_alias : request -> option request)
    (c : cachex) (now : N) (ops : list opx) : list obsx :=
  runX fcache (compute_gf fix_ext fix_lock fix_errline cors on disk reads) cache_on ims_on true fix_ovkey fix_clear fix_svary
       fix_qmkey fix_ims sfilter parse_ims sanitize_ok_g prime override
       (negotiate_g (errpage_of (fc_view on disk fc0)) refuses) vary_tuple vary_header clear_alias (c, fc0) now ops.

Record gconfig := mkG {
  g_cache : bool; g_default_ext : bool; g_ims : bool; g_files : list (bytes * bytes);
  g_vary : list (bytes * list vrule); g_report : list bytes; g_phase : N;
  g_fcache : bool; g_fseed : fcache }.     (* file cache on?; what it holds before the first request *)

Definition d_fseed (x : xval) : option (bytes * option bytes) :=
  match x with
  | XL [XB p; XL []] => Some (p, None)
  | XL [XB p; XL [XB c]] => Some (p, Some c)
  | _ => None
  end.
Definition d_gconfig (x : xval) : option gconfig :=
  match x with
  | XL l =>
      let fl := match kv_get (B "files") l with Some v => d_list d_pair_bb v | None => Some [] end in
      let vr := match kv_get (B "vary") l with Some v => d_list d_varyrule v | None => Some [] end in
      let rp := match kv_get (B "report") l with Some v => d_list d_B v | None => Some [] end in
      let sd := match kv_get (B "fcache_seed") l with Some v => d_list d_fseed v | None => Some [] end in
      let ph := match kv_get (B "phase") l with Some (XN n) => n | _ => 500 end in
      match fl, vr, rp, sd with
      | Some fl', Some vr', Some rp', Some sd' =>
          Some (mkG (kv_flag (B "cache") l true) (kv_flag (B "default_ext") l false) (negb (kv_flag (B "disable_ims") l false)) fl' vr' rp' ph
                    (kv_flag (B "fcache") l true) sd')
      | _, _, _, _ => None
      end
  | _ => None
  end.
(** what the server holds for a path of the scenario: the seeded file-cache entry (file cache on), else the fixture tree.
    ([MokaCache::insert] replaces: of several seeds for one path the last one counts.) *)
Definition g_held (g : gconfig) : bytes -> option bytes :=
  fc_view (g_fcache g) (tree_read (tree_of (g_files g))) (rev (g_fseed g)).

(** the client address of an operation: [(N n)] (n < 65536), [(L (N 4) (N v))], [(L (N 6) (N v))] *)
Definition d_addr (x : xval) : option N :=
  match x with
  | XN n => if n <? V4_BASE then Some n else None
  | XL [XN 4; XN v] => if v <? 4294967296 then Some (V4_BASE + v) else None
  | XL [XN 6; XN v] => if v <? 2 ^ 128 then Some (V6_BASE + v) else None
  | _ => None
  end.
Definition d_gop (x : xval) : option opx :=
  match x with
  | XL [XN 0; a; XB m; XB t; hs; XB _] =>
      match d_addr a, d_list d_pair_bb hs with
      | Some addr, Some h => Some (XReq (d_request addr m t h))
      | _, _ => None
      end
  | XL [XN 1; XB t] => Some (XClearPage (d_request 0 (B "GET") t []))
  | XL [XN 2] => Some XClearAll
  | XL [XN 3; XN ms] => Some (XWait ms)
  | _ => None
  end.

Definition g_prime (g : gconfig) : request -> request :=
  if g_default_ext g then uri_redirect else (fun r => r).

(** operations of a scenario: those of the cache layer, and [(L (N 4) (B rel) (B content))]: the fixture (re)writes the
    file [public/<rel>] between two requests (of several files of one name the last one written counts: [tree_insert]
    puts the new node in front).  Only public files are rewritten: [read::file] never fills the file cache, so the
    server holds the seeded file-cache entry if there is one and the new disk content otherwise. *)
Inductive gop := GOp (o : opx) | GWrite (rel content : bytes).
Definition d_gop_w (x : xval) : option gop :=
  match x with
  | XL [XN 4; XB rel; XB content] => Some (GWrite rel content)
  | _ => option_map GOp (d_gop x)
  end.
Definition g_write (g : gconfig) (rel content : bytes) : gconfig :=
  mkG (g_cache g) (g_default_ext g) (g_ims g) (g_files g ++ [(PUBLIC_SLASH ++ rel, content)]) (g_vary g) (g_report g) (g_phase g)
      (g_fcache g) (g_fseed g).
Definition world_of_g (g : gconfig) : world :=
  let held := g_held g in mkW (fs_of held) (errpage_of held) (tmpl_of held).
(** the world of every operation; a write is a change of the world and, for the cache layer, a wait of 0 ms *)
Fixpoint g_wops (g : gconfig) (w : world) (ops : list gop) : list (world * opx) :=
  match ops with
  | [] => []
  | GOp o :: rest => (w, o) :: g_wops g w rest
  | GWrite rel content :: rest =>
      let g' := g_write g rel content in
      let w' := world_of_g g' in
      (w', XWait 0) :: g_wops g' w' rest
  end.
(** the configuration at every operation (for the spec component) *)
Fixpoint g_cfgs (g : gconfig) (ops : list gop) : list (gconfig * gop) :=
  match ops with
  | [] => []
  | GOp o :: rest => (g, GOp o) :: g_cfgs g rest
  | GWrite rel content :: rest => let g' := g_write g rel content in (g', GWrite rel content) :: g_cfgs g' rest
  end.

Definition run_gcfg (fix_ext fix_lock fix_errline : bool) (g : gconfig) (ops : list opx) : list obsx :=
  let held := g_held g in
  run_g fix_ext fix_lock fix_errline (g_default_ext g) (fs_of held) (errpage_of held) (tmpl_of held)
        (g_cache g) (g_ims g) true true true true true status_filter_drop parse_ims_fix
        (g_prime g) (override_x (g_default_ext g) None) (fun _ _ => false)
        (vary_tuple_x true (g_vary g)) (vary_header_x true (g_vary g)) clear_alias_fix [] (g_phase g) ops.

Definition run_gcfg_w (fix_ext fix_lock fix_errline fix_vary : bool) (g : gconfig) (ops : list gop) : list obsx :=
  run_gw fix_ext fix_lock fix_errline (g_default_ext g)
         (g_cache g) (g_ims g) fix_vary true true true true true status_filter_drop parse_ims_fix
         (g_prime g) (override_x (g_default_ext g) None) (fun _ _ => false)
         (vary_tuple_x true (g_vary g)) (vary_header_x true (g_vary g)) clear_alias_fix ([], tt) (g_phase g)
         (g_wops g (world_of_g g) ops).

Definition obs_panicked (o : obsx) : bool :=
  match o with XbReply rp _ => rx_status rp =? 0 | _ => false end.

Definition x_gobs (report : list bytes) (o : obsx) : xval :=
  match o with
  | XbReply rp lg =>
      XL [XN (rx_status rp); report_headers_x report rp; XB (rx_body rp); XN 1; XB (rx_identity rp); XL (map XB lg)]
  | XbCleared f c => XL [x_bool f; x_bool c]
  | XbNone => XL []
  end.

Definition run_guards_with (fix_ext fix_lock fix_errline : bool) (x : xval) : xval :=
  match x with
  | XL [c; XL ops] =>
      match d_gconfig c, d_all d_gop_w ops with
      | Some g, Some ops' =>
          let obs := run_gcfg_w fix_ext fix_lock fix_errline true g ops' in
          if existsb obs_panicked obs then XL [XN 2]
          else XL (map (x_gobs (g_report g)) obs)
      | _, _ => bad_input
      end
  | _ => bad_input
  end.
Definition run_guards := run_guards_with true true true.
Definition run_guards_v0 := run_guards_with false false false.

(** spec component: per operation, may the reply carry content of a guarded file?  (L (N 0/1) (B t))
    for a request: [permitted_b] over what the server holds AT THAT MOMENT and the decoded path; (L) for other operations *)
Definition run_guards_spec (x : xval) : xval :=
  match x with
  | XL [c; XL ops] =>
      match d_gconfig c, d_all d_gop_w ops with
      | Some g, Some ops' =>
          XL (map (fun go => match go with
                             | (g1, GOp (XReq r0)) =>
                                 let r := g_prime g1 r0 in
                                 XL [x_bool (permitted_b (fs_of (g_held g1)) r);
                                     XB (match served_file (rq_path r) with Ok (Some t) => t | _ => [] end)]
                             | _ => XL []
                             end) (g_cfgs g ops'))
      | _, _ => bad_input
      end
  | _ => bad_input
  end.

(** component ["guards.wire"] (harness/src/c17.rs): the list of violations the harness finds on the wire
    (a marker of a guarded file in an answer that may not carry it; an answer for a guarded file that
    differs from the answer for a path that does not exist) is empty *)
Definition run_guards_wire (x : xval) : xval :=
  match x with
  | XL [c; XL _] => match d_gconfig c with Some _ => XL [] | None => bad_input end
  | _ => bad_input
  end.

(** component ["guards.push"]: the same for what the server PUSHES over HTTP/2 for a page that links guarded files *)
Definition guards_table : list (bytes * (xval -> xval)) :=
  [ (B "guards.run", run_guards); (B "guards.run_v0", run_guards_v0); (B "guards.spec", run_guards_spec);
    (B "guards.wire", run_guards_wire); (B "guards.push", run_guards_wire) ].
