(** C17 — the access-guarding file directives in the request pipeline.

    Layer below the cache ([handle_cache_helpers::get_response] + [handle_request], src/lib.rs;
    [Extensions::resolve_present], src/extensions.rs; [kvarn_extensions::{ip_allow, hide, cache,
    download, mount_all}], extensions/src/lib.rs) for a host that serves files only
    ([Extensions::empty()] + [mount_all]): raw URI path -> percent-decoded path -> file read ->
    Present extensions selected by the decoded path's file extension ([present_file]: "private" ->
    hide) and by the [!> ] line of the file ([present_internal]) -> [FatResponse].  On top of it the
    response cache of Model/Cache.v ([serve]): hits never re-run Present extensions.

    Two switches select the code before the two repairs of this property (only used for the
    [..._refuted] witnesses):  [fix_ext = false]: the file extension is taken from the RAW path;
    [fix_lock = false]: a [cache] directive after [allow-ips] overrides the server preference.
    Definitions only; proofs live in Proofs/GuardsProofs.v. *)
From KV Require Export Bytes RustInt Range CacheControl Cache Fixture.
From KV Require PathSan PresentLine.
Open Scope N_scope.

(** ---------------------------------------------------------------------------
    [std::path::Path::extension] (Unix) of a relative path string:
    [file_name] = the last component if it is a normal one (empty components and "." are
    skipped by [Components], a final ".." has no file name); [rsplit_file_at_dot]: the text after
    the last '.', unless there is no '.' or nothing stands before it. *)
Definition seg_skipped (s : bytes) : bool :=
  match s with [] => true | [c] => c =? 46 | _ => false end.
Definition file_name (s : bytes) : option bytes :=
  match rev (filter (fun x => negb (seg_skipped x)) (PathSan.split_on 47 s)) with
  | [] => None
  | n :: _ => if beq n [46; 46] then None else Some n
  end.
(** [r]: reversed file name; result (before, after) of [rsplitn(2, '.')] *)
Fixpoint rsplit_dot (r : bytes) (acc : bytes) : option (bytes * bytes) :=
  match r with
  | [] => None
  | c :: r' => if c =? 46 then Some (rev r', acc) else rsplit_dot r' (c :: acc)
  end.
Definition path_extension (s : bytes) : option bytes :=
  match file_name s with
  | None => None
  | Some n =>
      match rsplit_dot (rev n) [] with
      | Some (before, after) => match before with [] => None | _ => Some after end
      | None => None
      end
  end.

Definition EXT_PRIVATE : bytes := Eval vm_compute in B "private".
Definition N_HIDE : bytes := Eval vm_compute in B "hide".
Definition N_ALLOW : bytes := Eval vm_compute in B "allow-ips".
Definition N_CACHE : bytes := Eval vm_compute in B "cache".
Definition N_DOWNLOAD : bytes := Eval vm_compute in B "download".

(** the path whose extension selects the [present_file] extension in [resolve_present]:
    repaired code: [parse::uri(&utils::percent_decode(request.uri().path()))];
    before: [parse::uri(request.uri().path())] *)
Definition ext_source (fix_ext : bool) (raw : bytes) : option bytes :=
  PathSan.parse_uri (if fix_ext then PathSan.util_percent_decode raw else raw).
Definition private_hit (fix_ext : bool) (raw : bytes) : bool :=
  match ext_source fix_ext raw with
  | Some s => match path_extension s with Some e => beq e EXT_PRIVATE | None => false end
  | None => false
  end.

(** ---------------------------------------------------------------------------
    [<IpAddr as FromStr>::from_str] as far as it can equal an IPv4 client address:
    [core::net::parser::read_ipv4_addr] — four groups of 1..3 decimal digits separated by '.',
    no leading zero in a group of more than one digit, each at most 255, nothing after.
    (A text that only parses as IPv6 never equals a V4 address.) *)
Fixpoint take_digits (s : bytes) (acc : bytes) : bytes * bytes :=
  match s with
  | c :: r => if is_digit c then take_digits r (c :: acc) else (rev acc, s)
  | [] => (rev acc, [])
  end.
Definition read_octet (s : bytes) : option (N * bytes) :=
  let '(ds, rest) := take_digits s [] in
  match ds with
  | [] => None
  | d0 :: tl =>
      if Nat.ltb 3 (length ds) then None
      else if (d0 =? 48) && negb (match tl with [] => true | _ => false end) then None
      else let v := fold_left (fun a c => a * 10 + (c - 48)) ds 0 in
           if v <=? 255 then Some (v, rest) else None
  end.
Definition expect_dot (s : bytes) : option bytes :=
  match s with c :: r => if c =? 46 then Some r else None | [] => None end.
Definition quad := (N * N * N * N)%type.
Definition parse_ipv4 (s : bytes) : option quad :=
  match read_octet s with
  | Some (a, s1) =>
    match expect_dot s1 with
    | Some s2 =>
      match read_octet s2 with
      | Some (b, s3) =>
        match expect_dot s3 with
        | Some s4 =>
          match read_octet s4 with
          | Some (c, s5) =>
            match expect_dot s5 with
            | Some s6 =>
              match read_octet s6 with
              | Some (d, []) => Some (a, b, c, d)
              | _ => None
              end
            | None => None
            end
          | None => None
          end
        | None => None
        end
      | None => None
      end
    | None => None
    end
  | None => None
  end.
Definition quad_eqb (x y : quad) : bool :=
  let '(a, b, c, d) := x in let '(a', b', c', d') := y in
  (a =? a') && (b =? b') && (c =? c') && (d =? d').

(** client address number [n] of a scenario = 10.0.(n/256 mod 256).(n mod 256) (c00pipe.rs [sockaddr]) *)
Definition quad_of_addr (n : N) : quad := (10, 0, (n / 256) mod 256, n mod 256).
(** [denied.parse::<IpAddr>()] is [Ok(ip)] with [data.address.ip() == ip] *)
Definition arg_matches (addr : N) (arg : bytes) : bool :=
  match parse_ipv4 arg with Some q => quad_eqb q (quad_of_addr addr) | None => false end.

(** ---------------------------------------------------------------------------
    [ClientCachePreference], its [FromStr] and [as_header]; [ServerCachePreference::from_str]. *)
Inductive cpref := CIgnore | CNone | CChanging | CFull | CMaxAge (secs : N).

Definition strip_suffix_s (s : bytes) : option bytes :=
  match rev s with c :: r => if c =? 115 then Some (rev r) else None | [] => None end.
Definition secs_form (s : bytes) : option N :=
  match strip_suffix_s s with Some i => parse_u64 i | None => None end.

Definition parse_cpref (s : bytes) : option cpref :=
  match secs_form s with
  | Some n => if n =? 0 then None else Some (CMaxAge n)
  | None =>
      if beq s (B "ignore") then Some CIgnore
      else if beq s (B "full") then Some CFull
      else if beq s (B "changing") then Some CChanging
      else if beq s (B "none") then Some CNone
      else None
  end.
Definition parse_spref (s : bytes) : option N :=
  if beq s (B "full") then Some SP_FULL
  else if beq s (B "query_matters") || beq s (B "query-matters") || beq s (B "QueryMatters") || beq s (B "queryMatters")
  then Some SP_QUERY
  else if beq s (B "none") then Some SP_NONE
  else match s with
       | [] => None
       | _ => match secs_form s with
              | Some n => if n =? 0 then None else Some SP_MAXAGE
              | None => None
              end
       end.

Definition cpref_header (c : cpref) : option bytes :=
  match c with
  | CIgnore => None
  | CNone => Some (B "no-store")
  | CChanging => Some (B "max-age=120")
  | CFull => Some (B "public, max-age=604800, immutable")
  | CMaxAge n => Some (B "public, max-age=" ++ dec n ++ B ", immutable")
  end.
(** [CompressedResponse::set_client_cache]: [entry("cache-control").or_insert] *)
Definition with_cpref (c : cpref) (hs : list (bytes * bytes)) : list (bytes * bytes) :=
  match cpref_header c, assoc (B "cache-control") hs with
  | Some v, None => hs ++ [(B "cache-control", v)]
  | _, _ => hs
  end.

(** the [cache] Present extension's argument parser: [arg.split(':')], first two parts *)
Fixpoint split_colon (s : bytes) (acc : bytes) : bytes * option bytes :=
  match s with
  | [] => (rev acc, None)
  | c :: r => if c =? 58 then (rev acc, Some r) else split_colon r (c :: acc)
  end.
Definition cache_arg (a : bytes) : option (bytes * bytes) :=
  match split_colon a [] with
  | (domain, Some rest) => Some (domain, fst (split_colon rest []))
  | (_, None) => None
  end.
Fixpoint cache_parse (args : list bytes) (c : option cpref) (s : option N) : option cpref * option N :=
  match args with
  | [] => (c, s)
  | a :: r =>
      match cache_arg a with
      | Some (domain, v) =>
          if beq domain (B "client") then
            cache_parse r (match parse_cpref v with Some p => Some p | None => c end) s
          else if beq domain (B "server") then
            cache_parse r c (match parse_spref v with Some p => Some p | None => s end)
          else cache_parse r c s
      | None => cache_parse r c s
      end
  end.

(** ---------------------------------------------------------------------------
    The response while the Present extensions work on it. *)
Record pst := mkP {
  ps_status : N;
  ps_headers : list (bytes * bytes);
  ps_body : bytes;
  ps_spref : N;
  ps_cpref : cpref;
  ps_locked : bool }.     (* the [NoServerCache] marker in the response's extensions *)

Definition err_headers : list (bytes * bytes) :=
  [(B "content-type", B "text/html; charset=utf-8"); (B "content-encoding", B "identity")].

Fixpoint set_header (k v : bytes) (hs : list (bytes * bytes)) : list (bytes * bytes) :=
  match hs with
  | [] => [(k, v)]
  | (k', v') :: r => if beq k k' then (k, v) :: r else (k', v') :: set_header k v r
  end.

Section Guards.
  Variable fix_ext fix_lock : bool.
  (** [read_file(<host.path>/<public>/<t>)] for the decoded path [t] (leading '/' stripped);
      the file system does not change during a history (the file cache is then transparent) *)
  Variable fs : bytes -> option bytes.
  (** body of [error::default(status, host)]: [<host.path>/errors/<status>.html] or the hard-coded page *)
  Variable errpage : N -> bytes.

  (** [*data.response = default_error(code).map(Into::into)]: a new response (its extensions are empty) *)
  Definition to_error (st : pst) (code : N) : pst :=
    mkP code err_headers (errpage code) (ps_spref st) (ps_cpref st) false.

  (** [kvarn_extensions::hide] (the 404 page is not a [!> tmpl] template) *)
  Definition do_hide (st : pst) : pst := to_error st 404.

  (** [kvarn_extensions::ip_allow] *)
  Definition do_allow (addr : N) (args : list bytes) (st : pst) : pst :=
    let matched := existsb (arg_matches addr) args in
    let st1 := mkP (ps_status st) (ps_headers st) (ps_body st) SP_NONE CChanging (ps_locked st) in
    let st2 := if matched then st1 else to_error st1 404 in
    mkP (ps_status st2) (ps_headers st2) (ps_body st2) (ps_spref st2) (ps_cpref st2) true.

  (** [kvarn_extensions::cache] *)
  Definition do_cache (args : list bytes) (st : pst) : pst :=
    let '(c, s) := cache_parse args None None in
    let cp := match c with Some p => p | None => ps_cpref st end in
    let sp := match s with
              | Some p => if fix_lock && ps_locked st then ps_spref st else p
              | None => ps_spref st
              end in
    mkP (ps_status st) (ps_headers st) (ps_body st) sp cp (ps_locked st).

  Definition do_download (st : pst) : pst :=
    mkP (ps_status st) (set_header (B "content-type") (B "application/octet-stream") (ps_headers st))
        (ps_body st) (ps_spref st) (ps_cpref st) (ps_locked st).

  (** one [present_internal] extension of the line; names that are not mounted do nothing *)
  Definition step (addr : N) (st : pst) (e : PresentLine.entry) : pst :=
    let '(name, args) := e in
    if beq name N_HIDE then do_hide st
    else if beq name N_ALLOW then do_allow addr args st
    else if beq name N_CACHE then do_cache args st
    else if beq name N_DOWNLOAD then do_download st
    else st.

  (** [resolve_present]: parse the line of the body, cut it off, the file-extension extension, then
      the line's extensions in order *)
  Definition present (r : request) (st : pst) : outcome pst :=
    match PresentLine.present_parse (ps_body st) with
    | Panic => Panic
    | Err e => Err e
    | Ok parsed =>
        let st0 := match parsed with
                   | Some p => mkP (ps_status st) (ps_headers st) (PresentLine.p_body p) (ps_spref st) (ps_cpref st) (ps_locked st)
                   | None => st
                   end in
        let st1 := if private_hit fix_ext (rq_path r) then do_hide st0 else st0 in
        Ok (fold_left (step (rq_addr r)) (match parsed with Some p => PresentLine.p_entries p | None => [] end) st1)
    end.

  (** [sanitize_error_into_response] = [error::default_response]: server preference None, client Full;
      [handle_request] keeps only the [.response] of [default_response] and wraps it in
      [FatResponse::cache]: server Full, client Full *)
  Definition err_pst (code : N) (spref : N) : pst := mkP code err_headers (errpage code) spref CFull false.
  Definition file_pst (c : bytes) : pst := mkP 200 [] c SP_FULL CFull false.

  (** the decoded path a file is read from ([get_response]) *)
  Definition served_file (raw : bytes) : outcome (option bytes) :=
    match PathSan.decoded_for_use raw with
    | None => Ok None                                  (* "Invalid percent encoding in path." *)
    | Some d => match PathSan.parse_uri d with
                | Some t => Ok (Some t)
                | None => Panic                        (* utils::parse::uri(&decoded).unwrap() *)
                end
    end.

  (** [get_response] up to [resolve_present]: sanitize error page, or [handle_request] without
      Prepare extensions *)
  Definition base (r : request) (ok : bool) : outcome pst :=
    if negb ok then
      Ok (err_pst (match PathSan.sanitize_path (rq_path r) with Ok _ => 416 | _ => 400 end) SP_NONE)
    else
      match served_file (rq_path r) with
      | Panic => Panic
      | Err e => Err e
      | Ok None => Ok (err_pst 404 SP_FULL)
      | Ok (Some t) =>
          if get_or_head (rq_method r) then
            match fs t with
            | Some c => Ok (file_pst c)
            | None => Ok (err_pst 404 SP_FULL)
            end
          else Ok (err_pst 405 SP_FULL)
      end.

  Definition fat_of (st : pst) : fat :=
    {| f_status := ps_status st; f_headers := with_cpref (ps_cpref st) (ps_headers st);
       f_body := ps_body st; f_spref := ps_spref st; f_compress := true |}.
  (** a panic inside [handle_cache]: no response at all *)
  Definition panic_fat : fat :=
    {| f_status := 0; f_headers := []; f_body := []; f_spref := SP_NONE; f_compress := false |}.

  Definition layer_b (r : request) (ok : bool) : fat :=
    match obind (base r ok) (present r) with
    | Ok st => fat_of st
    | _ => panic_fat
    end.

  Definition compute_g (hs : unit) (r : request) (ok : bool) : fat * unit * list bytes :=
    (layer_b r ok, hs, []).

  Definition sanitize_ok_g (r : request) : bool :=
    match PathSan.sanitize_path (rq_path r) with
    | Ok _ => match sanitize_range (header (B "range") r) with Ok _ => true | _ => false end
    | _ => false
    end.

  (** [clone_preferred] may refuse (406): the body is then the 406 error page *)
  Definition negotiate_g (refuses : request -> fat -> bool) (r : request) (f : fat) : option (N * bytes) :=
    if refuses r f then Some (406, errpage 406) else None.

  (** the whole server: Model/Cache.v [run] above [compute_g]. [prime]: the URI rewriting of the
      non-internal Prime extensions (identity for [Extensions::empty()] + [mount_all]; "Expand . and /"
      for [Extensions::new()] + [mount_all]); sanitize looks at the request before, everything else
      at the request after the rewriting *)
  Definition run_g (cache_on ims_on : bool) (parse_ims : bytes -> option Z) (prime : request -> request)
      (refuses : request -> fat -> bool) (vary_tuple : request -> tuple)
      (vary_header : request -> fat -> list (bytes * bytes))
      (c : cache) (now : N) (ops : list op) : list obs :=
    run unit compute_g cache_on ims_on parse_ims sanitize_ok_g prime
        (negotiate_g refuses) vary_tuple vary_header (c, tt) now ops.
End Guards.

(** ---------------------------------------------------------------------------
    Specification vocabulary (independent of the order in which the code does things). *)
Definition entries_of (content : bytes) : list PresentLine.entry :=
  match PresentLine.present_parse content with
  | Ok (Some p) => PresentLine.p_entries p
  | _ => []
  end.
Definition has_name (n : bytes) (es : list PresentLine.entry) : bool :=
  existsb (fun e => beq (fst e) n) es.
(** the address is listed by every [allow-ips] directive of the line *)
Definition listed (addr : N) (es : list PresentLine.entry) : bool :=
  forallb (fun e => if beq (fst e) N_ALLOW then existsb (arg_matches addr) (snd e) else true) es.
(** named [*.private]: the last path component is [<non-empty stem>.private] *)
Definition is_private (t : bytes) : bool :=
  match path_extension t with Some e => beq e EXT_PRIVATE | None => false end.
Definition is_hidden (t content : bytes) : bool := is_private t || has_name N_HIDE (entries_of content).
Definition is_allow_ips (content : bytes) : bool := has_name N_ALLOW (entries_of content).
Definition guarded (t content : bytes) : bool := is_hidden t content || is_allow_ips content.

(** the only way a reply to [r] may carry guarded content: [r]'s decoded path is a file marked
    [allow-ips] (and neither hidden nor private) and [r]'s client address is listed *)
Definition permitted (fs : bytes -> option bytes) (r : request) : Prop :=
  exists t c, served_file (rq_path r) = Ok (Some t) /\ fs t = Some c /\
              is_hidden t c = false /\ is_allow_ips c = true /\ listed (rq_addr r) (entries_of c) = true.
Definition permitted_b (fs : bytes -> option bytes) (r : request) : bool :=
  match served_file (rq_path r) with
  | Ok (Some t) =>
      match fs t with
      | Some c => negb (is_hidden t c) && is_allow_ips c && listed (rq_addr r) (entries_of c)
      | None => false
      end
  | _ => false
  end.

Definition leaks (secret : bytes) (rp : reply) : bool :=
  contains_sub secret (rp_body rp) || contains_sub secret (rp_identity rp).

(** what the property demands of one observation of a history *)
Definition reply_ok (fs : bytes -> option bytes) (secret : bytes) (prime : request -> request) (o : op) (ob : obs) : Prop :=
  match o, ob with
  | OReq r, ObReply rp _ => leaks secret rp = true -> permitted fs (prime r)
  | _, _ => True
  end.

(** every percent-encoded spelling of a byte string: position by position either the byte itself or
    [%XY] with each hex digit in either case ([None] = literal, [Some (u1, u2)] = encoded, upper case?) *)
Definition hex_digit (upper : bool) (n : N) : N :=
  if n <? 10 then 48 + n else (if upper then 55 else 87) + n.
Fixpoint pct_encode (mask : list (option (bool * bool))) (d : bytes) : bytes :=
  match d with
  | [] => []
  | c :: r =>
      match mask with
      | Some (u1, u2) :: m => 37 :: hex_digit u1 (c / 16) :: hex_digit u2 (c mod 16) :: pct_encode m r
      | None :: m => c :: pct_encode m r
      | [] => c :: pct_encode [] r
      end
  end.
(** a literal '%' must itself be encoded for the spelling to denote [d] *)
Fixpoint mask_ok (mask : list (option (bool * bool))) (d : bytes) : bool :=
  match d with
  | [] => true
  | c :: r =>
      match mask with
      | Some _ :: m => mask_ok m r
      | None :: m => negb (c =? 37) && mask_ok m r
      | [] => negb (c =? 37) && mask_ok [] r
      end
  end.

(** ---------------------------------------------------------------------------
    The fixture: files of a scenario as a tree (PathSan's resolution: ENOTDIR, empty and "."
    components, ".."), the hard-coded error page, the scenario decoder.  Component ["guards.run"]. *)
Fixpoint tree_insert (segs : list bytes) (content : bytes) (n : PathSan.node) : PathSan.node :=
  match segs with
  | [] => PathSan.File content
  | s :: rest =>
      let ch := match n with PathSan.Dir ch => ch | PathSan.File _ => [] end in
      let sub := match PathSan.assoc s ch with Some m => m | None => PathSan.Dir [] end in
      PathSan.Dir ((s, tree_insert rest content sub) :: ch)
  end.
Definition tree_of (files : list (bytes * bytes)) : PathSan.node :=
  fold_left (fun n '(name, content) => tree_insert (PathSan.split_on 47 name) content n) files (PathSan.Dir []).
Definition PUBLIC_SLASH : bytes := Eval vm_compute in B "public/".
Definition fs_of_tree (tree : PathSan.node) (t : bytes) : option bytes :=
  PathSan.read_path (tree, []) (tree, []) (PUBLIC_SLASH ++ t).

Definition errpage_fix (code : N) : bytes := ERRPAGE.

Record gconfig := mkG {
  g_cache : bool; g_default_ext : bool; g_ims : bool; g_files : list (bytes * bytes);
  g_vary : list (bytes * list vrule); g_report : list bytes; g_phase : N }.

Definition d_gconfig (x : xval) : option gconfig :=
  match x with
  | XL l =>
      let fl := match kv_get (B "files") l with Some v => d_list d_pair_bb v | None => Some [] end in
      let vr := match kv_get (B "vary") l with Some v => d_list d_varyrule v | None => Some [] end in
      let rp := match kv_get (B "report") l with Some v => d_list d_B v | None => Some [] end in
      let ph := match kv_get (B "phase") l with Some (XN n) => n | _ => 500 end in
      match fl, vr, rp with
      | Some fl', Some vr', Some rp' =>
          Some (mkG (kv_flag (B "cache") l true) (kv_flag (B "default_ext") l false) (negb (kv_flag (B "disable_ims") l false)) fl' vr' rp' ph)
      | _, _, _ => None
      end
  | _ => None
  end.

Definition g_prime (g : gconfig) : request -> request :=
  if g_default_ext g then uri_redirect else (fun r => r).

Definition run_gcfg (fix_ext fix_lock : bool) (g : gconfig) (ops : list op) : list obs :=
  run_g fix_ext fix_lock (fs_of_tree (tree_of (g_files g))) errpage_fix (g_cache g) (g_ims g) parse_ims_fix
        (g_prime g) (fun _ _ => false) (vary_tuple_fix (g_vary g)) (vary_header_fix (g_vary g)) [] (g_phase g) ops.

Definition obs_panicked (o : obs) : bool :=
  match o with ObReply rp _ => rp_status rp =? 0 | _ => false end.

Definition run_guards_with (fix_ext fix_lock : bool) (x : xval) : xval :=
  match x with
  | XL [c; XL ops] =>
      match d_gconfig c, d_all d_op ops with
      | Some g, Some ops' =>
          let obs := run_gcfg fix_ext fix_lock g ops' in
          if existsb obs_panicked obs then XL [XN 2]
          else XL (map (x_obs (g_report g)) obs)
      | _, _ => bad_input
      end
  | _ => bad_input
  end.
Definition run_guards := run_guards_with true true.
Definition run_guards_v0 := run_guards_with false false.

(** spec component: per operation, may the reply carry content of a guarded file?  (L (N 0/1) (B t))
    for a request: [permitted_b] and the decoded path; (L) for other operations *)
Definition run_guards_spec (x : xval) : xval :=
  match x with
  | XL [c; XL ops] =>
      match d_gconfig c, d_all d_op ops with
      | Some g, Some ops' =>
          let fs := fs_of_tree (tree_of (g_files g)) in
          XL (map (fun o => match o with
                            | OReq r0 => let r := g_prime g r0 in
                                        XL [x_bool (permitted_b fs r);
                                            XB (match served_file (rq_path r) with Ok (Some t) => t | _ => [] end)]
                            | _ => XL []
                            end) ops')
      | _, _ => bad_input
      end
  | _ => bad_input
  end.

Definition guards_table : list (bytes * (xval -> xval)) :=
  [ (B "guards.run", run_guards); (B "guards.run_v0", run_guards_v0); (B "guards.spec", run_guards_spec) ].
