(** C01 — the pipeline model [PathSan.serve] as a runnable component: it is evaluated over the
    same fixture tree and the same history of requests as the real [kvarn::handle_cache]
    (harness/src/c01pipe.rs) on every run.

    The fixture (files on disk) becomes a [node] tree, [rd := read_path root root]; the state threaded
    through a history is the response cache and the file cache.
    The response cache ([Host::response_cache], moka) is an association list from [UriKey]s to the
    stored responses:
      - looked up under [UriKey::PathQuery] of the Prime override if there is one, else of the request
        URI after [resolve_prime], then under [UriKey::Path] of the same
        ([handle_cache]: [UriKey::path_and_query(overide_uri.unwrap_or(request.uri()))]);
      - filled under the same URI ([get_response]: [PathQuery::from(overide_uri.unwrap_or(request.uri()))],
        [maybe_cache]: the [PathQuery] key when the server cache preference is [QueryMatters], else the
        [Path] key) for GET / HEAD when the status passes [default_status_code_cache_filter] and the
        server cache preference is not [None].
    The file cache is [PathSanServe.fcache].  Each answer also lists the objects the operating system
    was asked to open while the request was handled (observed on the real side with inotify).
    Definitions only. *)
From KV Require Export Bytes PathSan PathSanServe.
Open Scope N_scope.

(** ---------------------------------------------------------------------------
    The extensions of the fixture host. *)
Definition cors_fail : bytes := B "/./cors_fail".
Definition cors_options : bytes := B "/./cors_options".
Definition m_options : bytes := B "OPTIONS".

(** The two CORS Prime extensions of [Extensions::new()] ([with_disallow_cors]); they run in this
    order, the later result wins ([resolve_prime]).  [okind]: 0 no Origin header, 1 Origin of the
    same site, 2 Origin of another site, 3 = 2 + access-control-request-method, 4 = 1 + acrm. *)
Definition override_of (default_ext : bool) (m : bytes) (okind : N) : option bytes :=
  if negb default_ext then None
  else
    let cross := (okind =? 2) || (okind =? 3) in
    let acrm := (okind =? 3) || (okind =? 4) in
    if beq m m_options && acrm then Some cors_options
    else if cross then Some cors_fail
    else None.

Definition meth_of (m : bytes) : meth :=
  if beq m (B "GET") then MGet else if beq m (B "HEAD") then MHead else MOther.

(** a concrete response: status, body as the harness reports it, server cache preference is not
    [None], server cache preference is [QueryMatters] *)
Record cresp := { c_status : N; c_body : bytes; c_store : bool; c_qm : bool }.

Definition errpage : bytes := B "ERRPAGE".
Definition cors_denied : bytes := B "CORS request denied".

(** [host::default_status_code_cache_filter] *)
Definition status_cacheable (s : N) : bool :=
  negb (((400 <=? s) && (s <=? 403)) || ((405 <=? s) && (s <=? 409)) || ((411 <=? s) && (s <=? 499)) ||
        ((100 <=? s) && (s <=? 199)) || (s =? 304)).

Record pcfg := {
  pc_default_ext : bool;
  pc_cache : bool;
  pc_fcache : bool;
  pc_host : host_cfg;
  pc_fs : bytes -> option bytes;                 (* what the operating system returns for a path string *)
  pc_tree : node;                                (* the same tree, for the list of opened objects *)
  pc_host_header : bytes;                        (* what the client writes into the Host header (HTTP/1.1, in process) *)
  pc_handlers : list (bytes * (bytes * N))       (* path -> body, spref (0 = None, 1 = QueryMatters, 2 = Full) *)
}.

(** [HashMap::insert]: a later handler for the same path replaces the earlier one *)
Fixpoint handler_last (k : bytes) (i : N) (l : list (bytes * (bytes * N))) (acc : option (N * (bytes * N)))
  : option (N * (bytes * N)) :=
  match l with
  | [] => acc
  | (k', v) :: r => handler_last k (i + 1) r (if beq k' k then Some (i, v) else acc)
  end.

Fixpoint find_run (ev : list event) : option bytes :=
  match ev with
  | [] => None
  | EPrepareRun k :: _ => Some k
  | _ :: r => find_run r
  end.

Definition log_of (c : pcfg) (ev : list event) : list bytes :=
  flat_map (fun e =>
    match e with
    | EPrepareFn => [B "pf"]
    | EPrepareRun k =>
        match handler_last k 0 (pc_handlers c) None with
        | Some (i, _) => [B "h" ++ dec i]
        | None => []
        end
    | _ => []
    end) ev.

(** what the Prepare extension bound to [k] answers ([okind] as above, [m] the method) *)
Definition prepare_response (c : pcfg) (k : bytes) (okind : N) : cresp :=
  match handler_last k 0 (pc_handlers c) None with
  | Some (_, (body, spref)) => {| c_status := 200; c_body := body; c_store := negb (spref =? 0); c_qm := spref =? 1 |}
  | None =>
      if beq k cors_options && ((okind =? 0) || (okind =? 1) || (okind =? 4)) then
        (* [options_prepare] with [Cors::empty()]: same-origin requests are allowed: 204, cache preference None *)
        {| c_status := 204; c_body := []; c_store := false; c_qm := false |}
      else {| c_status := 403; c_body := cors_denied; c_store := true; c_qm := false |}
  end.

(** [comprash::UriKey]: [Path(path)] | [PathQuery { string = path ++ query, query_start = |path| }] *)
Inductive ckey := KPath (p : bytes) | KPQ (s : bytes) (i : nat).
Definition ckey_eqb (a b : ckey) : bool :=
  match a, b with
  | KPath p, KPath q => beq p q
  | KPQ s i, KPQ t j => beq s t && Nat.eqb i j
  | _, _ => false
  end.

Definition cache_t := list (ckey * cresp).
Fixpoint cache_get (k : ckey) (l : cache_t) : option cresp :=
  match l with
  | [] => None
  | (k', v) :: r => if ckey_eqb k' k then Some v else cache_get k r
  end.

Definition abstract (r : cresp) : reply := {| r_status := c_status r; r_body := None; r_err := None; r_from_cache := false |}.

(** ---------------------------------------------------------------------------
    Fixture: a list of (path relative to the run directory, content) becomes a tree. *)
Fixpoint set_assoc (k : bytes) (v : node) (l : list (bytes * node)) : list (bytes * node) :=
  match l with
  | [] => [(k, v)]
  | (k', v') :: r => if beq k' k then (k, v) :: r else (k', v') :: set_assoc k v r
  end.

Fixpoint insert_at (segs : list bytes) (c : bytes) (n : node) : node :=
  match segs with
  | [] => File c
  | s :: r =>
      let ch := match n with Dir ch => ch | File _ => [] end in
      let sub := match assoc s ch with Some x => x | None => Dir [] end in
      Dir (set_assoc s (insert_at r c sub) ch)
  end.

Definition tree_of (files : list (bytes * bytes)) : node :=
  fold_left (fun n f => insert_at (segments (fst f)) (snd f) n) files (Dir []).

(** where the run directory sits in the model's tree (the real one is
    [<verif>/.run/<pid>-<n>]; nothing in the output depends on its name) *)
Definition run_dir : bytes := B "/srv/run".
Definition run_names : list bytes := [B "srv"; B "run"].
Definition fixture_tree (files : list (bytes * bytes)) : node :=
  Dir [(B "srv", Dir [(B "run", tree_of files)])].
Definition fixture_root (files : list (bytes * bytes)) : pos := (fixture_tree files, []).

(** the objects opened below the run directory, as the harness names them: the path relative to the
    run directory, "." for the run directory itself, a directory with a trailing '/'; what lies
    above the run directory is not watched *)
Fixpoint strip_names (pre l : list bytes) : option (list bytes) :=
  match pre, l with
  | [], _ => Some l
  | a :: pre', b :: l' => if beq a b then strip_names pre' l' else None
  | _ :: _, [] => None
  end.
Fixpoint join_names (l : list bytes) : bytes :=
  match l with
  | [] => []
  | [a] => a
  | a :: r => a ++ [c_slash] ++ join_names r
  end.
Definition open_name (tree : node) (path : bytes) : list bytes :=
  match opened tree path with
  | Some (names, isdir) =>
      match strip_names run_names names with
      | Some [] => [B "."]
      | Some rel => [join_names rel ++ (if isdir then [c_slash] else [])]
      | None => []
      end
  | None => []
  end.
Definition opens_of (c : pcfg) (os : list bytes) : list bytes := flat_map (open_name (pc_tree c)) os.

Definition x_cresp (r : cresp) (log opens : list bytes) : xval :=
  XL [XN (c_status r); XB (c_body r); x_list XB log; x_list XB opens].

Definition pstate : Type := (cache_t * fcache)%type.

(** the keys of a request: [UriKey::path_and_query] of the override / the primed URI, and its [Path] form *)
Definition keys_of (ov : option bytes) (p' : bytes) (q : option bytes) : ckey * ckey :=
  let kpath := match ov with Some k => k | None => p' end in
  let qtext := match ov, q with None, Some q => q | _, _ => [] end in
  (KPQ (kpath ++ qtext) (length kpath), KPath kpath).

Definition cache_lookup (on : bool) (kpq kp : ckey) (cache : cache_t) : option cresp :=
  if on then match cache_get kpq cache with Some e => Some e | None => cache_get kp cache end else None.

(** [Cors::is_part_of_origin]: the request is of the same origin as its [Origin] header when the scheme and the
    AUTHORITY of its URI equal the header's.  The URI is "http://localhost" ++ target: a target that does not
    start with '/', '?' or '#' lengthens the authority, so an [Origin] of the site itself (kinds 1, 4) is then a
    foreign one (kinds 2, 3); and a Host header naming the other site makes ITS [Origin] the request's own. *)
Fixpoint take_authority (s : bytes) : bytes :=
  match s with
  | [] => []
  | c :: r => if (c =? 47) || (c =? 63) || (c =? 35) then [] else c :: take_authority r
  end.
Definition eff_kind_h (host_header target : bytes) (okind : N) : N :=
  let a := take_authority (host_header ++ target) in
  let own := beq a (B "localhost") in            (* kinds 1, 4: Origin: http://localhost *)
  let other := beq a (B "other.example") in      (* kinds 2, 3: Origin: http://other.example *)
  if okind =? 1 then (if own then 1 else 2)
  else if okind =? 4 then (if own then 4 else 3)
  else if okind =? 2 then (if other then 1 else 2)
  else if okind =? 3 then (if other then 4 else 3)
  else okind.
Definition eff_kind : bytes -> N -> N := eff_kind_h (B "localhost").

(** what can be written into an HTTP/1.1 request line (or an HTTP/2 header field) without changing its framing *)
Definition wire_ok (s : bytes) : bool :=
  negb (is_empty s) && forallb (fun c => (32 <? c) && negb (c =? 127)) s.

(** A front end: how a request target (HTTP/1.1) / [:path] (HTTP/2) becomes the URI of the request, which
    [Origin] headers are the site's own, what the client can put on the connection at all, and whether a HEAD
    answer arrives without its body. *)
Record front := {
  f_uri : bytes -> option (bytes * option bytes);
  f_kind : bytes -> N -> N;
  f_sendable : bytes -> bytes -> bool;
  f_headless : bool
}.
(** in process (harness/src/c00pipe.rs make_request) and kvarn's HTTP/1 readers: "http://" ++ Host header ++ target *)
Definition front_inproc_h (hh : bytes) : front :=
  {| f_uri := uri_of hh; f_kind := eff_kind_h hh; f_sendable := fun _ _ => true; f_headless := false |}.
Definition front_h1_h (hh : bytes) : front :=
  {| f_uri := uri_of hh; f_kind := eff_kind_h hh; f_sendable := fun m t => wire_ok m && wire_ok t; f_headless := true |}.
Definition front_inproc : front := front_inproc_h (B "localhost").
Definition front_h1 : front := front_h1_h (B "localhost").
(** HTTP/2: the h2 crate builds the URI from [:scheme], [:authority] and [PathAndQuery::from_maybe_shared(:path)];
    the authority is the site's whatever the path is; a CONNECT request carries no [:path].  [front_h2]: the h2
    crate's client, which sends origin-form paths only; [front_h2raw]: a client that writes the HEADERS frame
    itself and can put any text into [:path]. *)
Definition h2_ok (m t : bytes) : bool :=
  wire_ok m && wire_ok t && starts_with [c_slash] t && negb (beq m (B "CONNECT")).
Definition front_h2 : front :=
  {| f_uri := pq_parse; f_kind := fun _ k => k; f_sendable := h2_ok; f_headless := true |}.
Definition front_h2raw : front :=
  {| f_uri := fun t => if utf8_valid t then pq_parse t else None;   (* HPACK: the whole [:path] value has to be UTF-8 ([BytesStr]) *)
     f_kind := fun _ k => k;
     f_sendable := fun m t => wire_ok m && wire_ok t && negb (beq m (B "CONNECT")); f_headless := true |}.

(** one request: the answer as the harness reports it ([fmt]: from the response, the Prepare log and the
    path strings handed to the operating system) and the new state *)
Definition step_request_with (f : front) (fmt : cresp -> list bytes -> list bytes -> xval)
    (c : pcfg) (st : pstate) (m target : bytes) (okind0 : N) : xval * pstate :=
  match f_uri f target with
  | None => (XL [XN 96], st)
  | Some (p, q) =>
      let h := pc_host c in
      let okind := f_kind f target okind0 in
      let ov := override_of (pc_default_ext c) m okind in
      let p' := primed_path h p in
      let '(kpq, kp) := keys_of ov p' q in
      let hit := cache_lookup (pc_cache c) kpq kp (fst st) in
      let '(r, ev, fc', os) := serve_st h (pc_fs c) (pc_fcache c) (snd st) (meth_of m) ov (option_map abstract hit) p in
      if r_status r =? 0 then (XL [XN 2], st) else
      let log := log_of c ev in
      match r_from_cache r, hit with
      | true, Some cr => (fmt cr log os, (fst st, fc'))
      | _, _ =>
          let cr :=
            match find_run ev with
            | Some k => prepare_response c k okind
            | None =>
                (* [handle_request] answers with [FatResponse::cache] (preference Full); the 400 of
                   [sanitize_error_into_response] has the preference None *)
                let body := match r_body r, r_err r with
                            | Some content, _ => content
                            | None, Some page => page
                            | None, None => errpage
                            end in
                {| c_status := r_status r; c_body := body; c_store := negb (r_status r =? E_UNSAFE); c_qm := false |}
            end in
          let store := pc_cache c && c_store cr && status_cacheable (c_status cr) &&
                       match meth_of m with MOther => false | _ => true end in
          (fmt cr log os, (if store then ((if c_qm cr then kpq else kp), cr) :: fst st else fst st, fc'))
      end
  end.

(** status, body, Prepare log, the objects opened (what inotify reports) *)
Definition fmt_std (c : pcfg) (cr : cresp) (log os : list bytes) : xval := x_cresp cr log (opens_of c os).
Definition step_request (c : pcfg) : pstate -> bytes -> bytes -> N -> xval * pstate :=
  step_request_with front_inproc (fmt_std c) c.

(** status and the distinct path strings handed to the operating system (what a system-call trace of the
    file-related calls shows: open and stat, successful or not), relative to the run directory *)
Definition strip_run (f : bytes) : bytes :=
  if starts_with (run_dir ++ [c_slash]) f then skipn (length run_dir + 1) f else f.
Fixpoint dedup (seen l : list bytes) : list bytes :=
  match l with
  | [] => []
  | a :: r => if existsb (beq a) seen then dedup seen r else a :: dedup (a :: seen) r
  end.
(** a path string with a NUL byte never reaches a system call: [std::fs] refuses it (CString) *)
Definition fmt_sys (cr : cresp) (log os : list bytes) : xval :=
  XL [XN (c_status cr); x_list XB (dedup [] (map strip_run (filter (fun f => negb (mem_byte 0 f)) os)))].

(** a history is made of requests and of "alias" steps that copy the cache entry stored under the
    [Path] key of one path to the [Path] key of another (any cache content: theorem 2b quantifies
    over the entry found) *)
Inductive op :=
| OReq (m t : bytes) (k : N)
| OAlias (from to_ : bytes).

Definition strip_head_body (m : bytes) (x : xval) : xval :=
  if beq m (B "HEAD") then
    match x with
    | XL [XN s; XB _; l; o] => XL [XN s; XB []; l; o]
    | _ => x
    end
  else x.

(** one step of a history through the front end [f]: a request the client cannot put on the connection is not
    sent (96) *)
Definition step_op_with (f : front) (fmt : cresp -> list bytes -> list bytes -> xval)
    (c : pcfg) (st : pstate) (o : op) : xval * pstate :=
  match o with
  | OReq m t k =>
      if f_sendable f m t then
        let '(out, st') := step_request_with f fmt c st m t k in
        ((if f_headless f then strip_head_body m out else out), st')
      else (XL [XN 96], st)
  | OAlias from to_ =>
      match (if pc_cache c then cache_get (KPath from) (fst st) else None) with
      | Some cr => (XL [XN 1], ((KPath to_, cr) :: fst st, snd st))
      | None => (XL [XN 0], st)
      end
  end.

Fixpoint run_history_with (f : front) (fmt : cresp -> list bytes -> list bytes -> xval)
    (c : pcfg) (st : pstate) (ops : list op) : list xval :=
  match ops with
  | [] => []
  | o :: r => let '(out, st') := step_op_with f fmt c st o in out :: run_history_with f fmt c st' r
  end.

(** the in-process history *)
Definition step_op (c : pcfg) : pstate -> op -> xval * pstate := step_op_with front_inproc (fmt_std c) c.
Definition run_history (c : pcfg) : pstate -> list op -> list xval := run_history_with front_inproc (fmt_std c) c.

Definition empty_state : pstate := ([], []).

(** ---------------------------------------------------------------------------
    xval interface *)
Definition d_pair_BB (x : xval) : option (bytes * bytes) :=
  match x with XL [XB a; XB b] => Some (a, b) | _ => None end.
Definition d_handler (x : xval) : option (bytes * (bytes * N)) :=
  match x with XL [XB a; XB b; XN s] => Some (a, (b, s)) | _ => None end.
Definition d_request (x : xval) : option op :=
  match x with
  | XL [XB m; XB t; XN k] => Some (OReq m t k)
  | XL [XN 1; XB a; XB b] => Some (OAlias a b)
  | _ => None
  end.

Definition internal_keys (default_ext : bool) : list bytes :=
  if default_ext then [cors_fail; cors_options] else [].

(** host options: (L (B errors_dir) (B extension_default) (B folder_default) (N disable_fs) (B host_header)) *)
Definition decode_scenario (x : xval) : option (pcfg * list op) :=
  match x with
  | XL [XL [de; ca; fc; XB public; files; handlers; XL [XB errors; XB ext; XB folder; nofs; XB hh]]; reqs] =>
      match d_bool de, d_bool ca, d_bool fc, d_bool nofs, d_list d_pair_BB files, d_list d_handler handlers, d_list d_request reqs with
      | Some de, Some ca, Some fc, Some nofs, Some files, Some handlers, Some reqs =>
          let root := fixture_root files in
          Some ({| pc_default_ext := de; pc_cache := ca; pc_fcache := fc;
                   pc_host := {| h_path := run_dir ++ B "/host"; h_public := public; h_errors := errors; h_fs := negb nofs;
                                 h_redirect := de; h_ext_default := ext; h_folder_default := folder;
                                 h_prepare_single := map fst handlers ++ internal_keys de |};
                   pc_fs := read_path root root;
                   pc_tree := fixture_tree files;
                   pc_host_header := hh;
                   pc_handlers := handlers |}, reqs)
      | _, _, _, _, _, _, _ => None
      end
  | _ => None
  end.

(** Spec component, independent of [serve_st] and of [sanitize_path]: per request, must the answer be
    400?  — exactly when the percent-decoded bytes of the URI path are [unsafe_b]. *)
Definition spec_request (f : front) (o : op) : xval :=
  match o with
  | OAlias _ _ => XN 97
  | OReq m t _ =>
      if f_sendable f m t then
        match f_uri f t with
        | None => XN 96
        | Some (p, _) => x_bool (unsafe_b (percent_decode p))
        end
      else XN 96
  end.

(** is the host's configuration benign (hypothesis of the confinement theorems)?  executable form of
    [PathSanServeProofs.benign_host] *)
Definition benign_suffix_b (a : bytes) : bool :=
  negb (has_dot_slash_b (percent_decode a)) && negb (match percent_decode a with c :: _ => c =? c_slash | [] => false end).
Definition benign_host_b (h : host_cfg) : bool := benign_suffix_b (h_ext_default h) && benign_suffix_b (h_folder_default h).

(** [pathsanpipe.run] (in process), [pathsanpipe.wire] (HTTP/1.1 text to [kvarn::handle_connection] over a
    loopback connection), [pathsanpipe.h2] (TLS + HTTP/2, the h2 crate's client), [pathsanpipe.h2raw] (TLS + HTTP/2,
    hand-written HEADERS frames: any [:path]), [pathsanpipe.sys] (in process under a system-call trace).
    input: (L (L default_ext cache fcache (B public_dir) files handlers options) requests), see harness/src/c01pipe.rs.
    The spec components' output: (L (N benign) per-request ...). *)
Definition run_front (f : bytes -> front) (sys : bool) (x : xval) : xval :=
  match decode_scenario x with
  | Some (c, reqs) => XL (run_history_with (f (pc_host_header c)) (if sys then fmt_sys else fmt_std c) c empty_state reqs)
  | None => bad_input
  end.
Definition run_front_spec (f : bytes -> front) (x : xval) : xval :=
  match decode_scenario x with
  | Some (c, reqs) => XL (x_bool (benign_host_b (pc_host c)) :: map (spec_request (f (pc_host_header c))) reqs)
  | None => bad_input
  end.
Definition run_pipe : xval -> xval := run_front front_inproc_h false.

Definition pathsanpipe_table : list (bytes * (xval -> xval)) :=
  [ (B "pathsanpipe.run", run_front front_inproc_h false);
    (B "pathsanpipe.spec", run_front_spec front_inproc_h);
    (B "pathsanpipe.wire", run_front front_h1_h false);
    (B "pathsanpipe.wire_spec", run_front_spec front_h1_h);
    (B "pathsanpipe.h2", run_front (fun _ => front_h2) false);
    (B "pathsanpipe.h2_spec", run_front_spec (fun _ => front_h2));
    (B "pathsanpipe.h2raw", run_front (fun _ => front_h2raw) false);
    (B "pathsanpipe.h2raw_spec", run_front_spec (fun _ => front_h2raw));
    (B "pathsanpipe.sys", run_front front_inproc_h true) ].
