(** C01 — the pipeline model [PathSan.serve] as a runnable component: it is evaluated over the
    same fixture tree and the same history of requests as the real [kvarn::handle_cache]
    (harness/src/c01pipe.rs) on every run.

    The fixture (files on disk) becomes a [node] tree, [fs := read_path root root]; the response
    cache ([Host::response_cache], moka) is an association list from the cache key to the stored
    response, threaded through the history:
      - looked up under the key of the Prime override if there is one, else of the request URI
        after [resolve_prime] ([handle_cache]: [UriKey::path_and_query(overide_uri.unwrap_or(request.uri()))]);
      - filled under the path of the request URI after [resolve_prime]
        ([get_response]: [PathQuery::from(request.uri())], [maybe_cache]) for GET / HEAD when the
        status passes [default_status_code_cache_filter] and the server cache preference is not [None].
    Definitions only. *)
From KV Require Export Bytes PathSan.
Open Scope N_scope.

(** ---------------------------------------------------------------------------
    Fixture: a list of (path relative to the run directory, content) becomes a tree. *)
Fixpoint set_assoc (k : bytes) (v : node) (l : list (bytes * node)) : list (bytes * node) :=
  match l with
  | [] => [(k, v)]
  | (k', v') :: r => if beq k' k then (k, v) :: r else (k', v') :: set_assoc k v r
  end.

Fixpoint insert_at (segs : list bytes) (c : bytes) (n : node) : node :=
  match segs with
  | [] => File c
  | s :: r =>
      let ch := match n with Dir ch => ch | File _ => [] end in
      let sub := match assoc s ch with Some x => x | None => Dir [] end in
      Dir (set_assoc s (insert_at r c sub) ch)
  end.

Definition tree_of (files : list (bytes * bytes)) : node :=
  fold_left (fun n f => insert_at (segments (fst f)) (snd f) n) files (Dir []).

(** where the run directory sits in the model's tree (the real one is
    [<verif>/.run/<pid>-<n>]; nothing in the output depends on its name) *)
Definition run_dir : bytes := B "/srv/run".
Definition fixture_root (files : list (bytes * bytes)) : pos :=
  (Dir [(B "srv", Dir [(B "run", tree_of files)])], []).

(** ---------------------------------------------------------------------------
    The extensions of the fixture host. *)
Definition cors_fail : bytes := B "/./cors_fail".
Definition cors_options : bytes := B "/./cors_options".
Definition m_options : bytes := B "OPTIONS".

(** The two CORS Prime extensions of [Extensions::new()] ([with_disallow_cors]); they run in this
    order, the later result wins ([resolve_prime]).  [okind]: 0 no Origin header, 1 Origin of the
    same site, 2 Origin of another site, 3 = 2 + access-control-request-method, 4 = 1 + acrm. *)
Definition override_of (default_ext : bool) (m : bytes) (okind : N) : option bytes :=
  if negb default_ext then None
  else
    let cross := (okind =? 2) || (okind =? 3) in
    let acrm := (okind =? 3) || (okind =? 4) in
    if beq m m_options && acrm then Some cors_options
    else if cross then Some cors_fail
    else None.

Definition meth_of (m : bytes) : meth :=
  if beq m (B "GET") then MGet else if beq m (B "HEAD") then MHead else MOther.

(** a concrete response: status, body as the harness reports it, server cache preference is not None *)
Record cresp := { c_status : N; c_body : bytes; c_store : bool }.

Definition errpage : bytes := B "ERRPAGE".
Definition cors_denied : bytes := B "CORS request denied".

(** [host::default_status_code_cache_filter] *)
Definition status_cacheable (s : N) : bool :=
  negb (((400 <=? s) && (s <=? 403)) || ((405 <=? s) && (s <=? 409)) || ((411 <=? s) && (s <=? 499)) ||
        ((100 <=? s) && (s <=? 199)) || (s =? 304)).

Record pcfg := {
  pc_default_ext : bool;
  pc_cache : bool;
  pc_host : host_cfg;
  pc_fs : bytes -> option bytes;
  pc_handlers : list (bytes * (bytes * N))     (* path -> body, spref (0 = None) *)
}.

(** [HashMap::insert]: a later handler for the same path replaces the earlier one *)
Fixpoint handler_last (k : bytes) (i : N) (l : list (bytes * (bytes * N))) (acc : option (N * (bytes * N)))
  : option (N * (bytes * N)) :=
  match l with
  | [] => acc
  | (k', v) :: r => handler_last k (i + 1) r (if beq k' k then Some (i, v) else acc)
  end.

Fixpoint find_run (ev : list event) : option bytes :=
  match ev with
  | [] => None
  | EPrepareRun k :: _ => Some k
  | _ :: r => find_run r
  end.

Definition log_of (c : pcfg) (ev : list event) : list bytes :=
  flat_map (fun e =>
    match e with
    | EPrepareFn => [B "pf"]
    | EPrepareRun k =>
        match handler_last k 0 (pc_handlers c) None with
        | Some (i, _) => [B "h" ++ dec i]
        | None => []
        end
    | _ => []
    end) ev.

(** what the Prepare extension bound to [k] answers ([okind] as above, [m] the method) *)
Definition prepare_response (c : pcfg) (k : bytes) (okind : N) : cresp :=
  match handler_last k 0 (pc_handlers c) None with
  | Some (_, (body, spref)) => {| c_status := 200; c_body := body; c_store := negb (spref =? 0) |}
  | None =>
      if beq k cors_options && ((okind =? 0) || (okind =? 1) || (okind =? 4)) then
        (* [options_prepare] with [Cors::empty()]: same-origin requests are allowed: 204, cache preference None *)
        {| c_status := 204; c_body := []; c_store := false |}
      else {| c_status := 403; c_body := cors_denied; c_store := true |}
  end.

Definition cache_t := list (bytes * cresp).
Fixpoint cache_get (k : bytes) (l : cache_t) : option cresp :=
  match l with
  | [] => None
  | (k', v) :: r => if beq k' k then Some v else cache_get k r
  end.

Definition abstract (r : cresp) : reply := {| r_status := c_status r; r_body := None; r_from_cache := false |}.

Definition x_cresp (r : cresp) (log : list bytes) : xval := XL [XN (c_status r); XB (c_body r); x_list XB log].

(** one request: the answer as the harness reports it and the new cache *)
Definition step_request (c : pcfg) (cache : cache_t) (m target : bytes) (okind : N) : xval * cache_t :=
  if negb (starts_with [c_slash] target) then (XL [XN 96], cache) else
  match uri_path target with
  | None => (XL [XN 96], cache)
  | Some p =>
      let h := pc_host c in
      let ov := override_of (pc_default_ext c) m okind in
      let p' := primed_path h p in
      let key := match ov with Some k => k | None => p' end in
      let hit := if pc_cache c then cache_get key cache else None in
      let '(r, ev) := serve h (pc_fs c) (meth_of m) ov (option_map abstract hit) p in
      if r_status r =? 0 then (XL [XN 2], cache) else
      let log := log_of c ev in
      match r_from_cache r, hit with
      | true, Some cr => (x_cresp cr log, cache)
      | _, _ =>
          let cr :=
            match find_run ev with
            | Some k => prepare_response c k okind
            | None =>
                match r_body r with
                | Some content => {| c_status := r_status r; c_body := content; c_store := true |}
                | None => {| c_status := r_status r; c_body := errpage; c_store := true |}
                end
            end in
          let store := pc_cache c && c_store cr && status_cacheable (c_status cr) &&
                       match meth_of m with MOther => false | _ => true end in
          (x_cresp cr log, if store then (p', cr) :: cache else cache)
      end
  end.

(** a history is made of requests and of "alias" steps that copy the cache entry stored under one
    key to another key (any cache content: theorem 2b quantifies over the entry found) *)
Inductive op :=
| OReq (m t : bytes) (k : N)
| OAlias (from to_ : bytes).

Definition step_op (c : pcfg) (cache : cache_t) (o : op) : xval * cache_t :=
  match o with
  | OReq m t k => step_request c cache m t k
  | OAlias from to_ =>
      match (if pc_cache c then cache_get from cache else None) with
      | Some cr => (XL [XN 1], (to_, cr) :: cache)
      | None => (XL [XN 0], cache)
      end
  end.

Fixpoint run_history (c : pcfg) (cache : cache_t) (ops : list op) : list xval :=
  match ops with
  | [] => []
  | o :: r => let '(out, cache') := step_op c cache o in out :: run_history c cache' r
  end.

(** ---------------------------------------------------------------------------
    xval interface *)
Definition d_pair_BB (x : xval) : option (bytes * bytes) :=
  match x with XL [XB a; XB b] => Some (a, b) | _ => None end.
Definition d_handler (x : xval) : option (bytes * (bytes * N)) :=
  match x with XL [XB a; XB b; XN s] => Some (a, (b, s)) | _ => None end.
Definition d_request (x : xval) : option op :=
  match x with
  | XL [XB m; XB t; XN k] => Some (OReq m t k)
  | XL [XN 1; XB a; XB b] => Some (OAlias a b)
  | _ => None
  end.

Definition internal_keys (default_ext : bool) : list bytes :=
  if default_ext then [cors_fail; cors_options] else [].

Definition decode_scenario (x : xval) : option (pcfg * list op) :=
  match x with
  | XL [XL [de; ca; _fc; XB public; files; handlers]; reqs] =>
      match d_bool de, d_bool ca, d_list d_pair_BB files, d_list d_handler handlers, d_list d_request reqs with
      | Some de, Some ca, Some files, Some handlers, Some reqs =>
          let root := fixture_root files in
          Some ({| pc_default_ext := de; pc_cache := ca;
                   pc_host := {| h_path := run_dir ++ B "/host"; h_public := public; h_redirect := de;
                                 h_ext_default := B "html"; h_folder_default := B "index.html";
                                 h_prepare_single := map fst handlers ++ internal_keys de |};
                   pc_fs := read_path root root;
                   pc_handlers := handlers |}, reqs)
      | _, _, _, _, _ => None
      end
  | _ => None
  end.

(** input: (L (L default_ext cache fcache (B public_dir) files handlers) requests), see harness/src/c01pipe.rs *)
Definition run_pipe (x : xval) : xval :=
  match decode_scenario x with
  | Some (c, reqs) => XL (run_history c [] reqs)
  | None => bad_input
  end.

(** Spec component, independent of [serve] and of [sanitize_path]: per request, must the answer be
    400?  — exactly when the percent-decoded bytes of the URI path are [unsafe_b]. *)
Definition spec_request (o : op) : xval :=
  match o with
  | OAlias _ _ => XN 97
  | OReq _ t _ =>
      if negb (starts_with [c_slash] t) then XN 96 else
      match uri_path t with
      | None => XN 96
      | Some p => x_bool (unsafe_b (percent_decode p))
      end
  end.
Definition run_pipe_spec (x : xval) : xval :=
  match decode_scenario x with
  | Some (_, reqs) => XL (map spec_request reqs)
  | None => bad_input
  end.

(** ---------------------------------------------------------------------------
    The same history written as HTTP/1.1 text to a real server on a loopback port
    ([pathsanpipe.wire]): a request line cannot carry bytes <= ' ' or DEL (not sent: 96), a HEAD
    answer has no body; everything else is [step_op]. *)
Definition wire_ok (s : bytes) : bool :=
  negb (is_empty s) && forallb (fun c => (32 <? c) && negb (c =? 127)) s.
Definition strip_head_body (m : bytes) (x : xval) : xval :=
  if beq m (B "HEAD") then
    match x with
    | XL [XN s; XB _; l] => XL [XN s; XB []; l]
    | _ => x
    end
  else x.
Definition step_op_wire (c : pcfg) (cache : cache_t) (o : op) : xval * cache_t :=
  match o with
  | OReq m t k =>
      if wire_ok m && wire_ok t then
        let '(out, cache') := step_request c cache m t k in (strip_head_body m out, cache')
      else (XL [XN 96], cache)
  | OAlias _ _ => step_op c cache o
  end.
Fixpoint run_history_wire (c : pcfg) (cache : cache_t) (ops : list op) : list xval :=
  match ops with
  | [] => []
  | o :: r => let '(out, cache') := step_op_wire c cache o in out :: run_history_wire c cache' r
  end.
Definition run_pipe_wire (x : xval) : xval :=
  match decode_scenario x with
  | Some (c, reqs) => XL (run_history_wire c [] reqs)
  | None => bad_input
  end.
Definition spec_request_wire (o : op) : xval :=
  match o with
  | OReq m t _ => if wire_ok m && wire_ok t then spec_request o else XN 96
  | OAlias _ _ => XN 97
  end.
Definition run_pipe_spec_wire (x : xval) : xval :=
  match decode_scenario x with
  | Some (_, reqs) => XL (map spec_request_wire reqs)
  | None => bad_input
  end.

Definition pathsanpipe_table : list (bytes * (xval -> xval)) :=
  [ (B "pathsanpipe.run", run_pipe);
    (B "pathsanpipe.spec", run_pipe_spec);
    (B "pathsanpipe.wire", run_pipe_wire);
    (B "pathsanpipe.wire_spec", run_pipe_spec_wire) ].
