(** C09 — model of the [Range] handling:
    [kvarn_utils::parse::sanitize_request] (range part) and
    [CriticalRequestComponents::apply_to_response] (utils/src/parse.rs).
    Definitions only; proofs live in Proofs/RangeProofs.v. *)
From KV Require Export Bytes RustInt.
Open Scope N_scope.

(** [HeaderValue::to_str]: succeeds iff every byte is visible ASCII or TAB. *)
Definition visible (c : N) : bool := ((32 <=? c) && (c <? 127)) || (c =? 9).
Definition to_str_ok (v : bytes) : bool := forallb visible v.

Definition c_comma := 44. Definition c_space := 32. Definition c_dash := 45.

(** The closure in [sanitize_request]: header value -> Option<(u64,u64)>. *)
Definition parse_range (v : bytes) : option (N * N) :=
  if negb (to_str_ok v) then None else
  if negb (starts_with (B "bytes=") v) then None else
  if existsb (fun c => (c =? c_comma) || (c =? c_space)) v then None else
  match find_byte c_dash v with
  | None => None
  | Some sep =>
      match slice_get 6 sep v with
      | None => None
      | Some f =>
          match parse_u64 f with
          | None => None
          | Some first =>
              match slice_get (S sep) (length v) v with
              | None => None
              | Some s =>
                  match parse_u64 s with
                  | None => None
                  | Some second => Some (first, second)
                  end
              end
          end
      end
  end.

(** Error codes used in [outcome]. *)
Definition E_RANGE : N := 416.

(** Range part of [sanitize_request].  [hdr = None] when there is no Range
    header.  Result: the stored [(start, end_exclusive)] pair. *)
Definition sanitize_range (hdr : option bytes) : outcome (option (N * N)) :=
  match hdr with
  | None => Ok None
  | Some v =>
      match parse_range v with
      | None => Ok None
      | Some (start, e) =>
          if e <? start then Err E_RANGE
          else Ok (Some (start, sat_add_u64 e 1))
      end
  end.

Record ranged := {
  r_status : N;
  r_content_range : option bytes;
  r_accept_ranges : bool;
  r_body : bytes }.

(** [apply_to_response] with [is_stream = false], [overriden_len = None]. *)
Definition apply_range (checked : bool) (range : option (N * N)) (status : N) (body : bytes)
  : outcome ranged :=
  let len := N.of_nat (length body) in
  match range with
  | None =>
      Ok {| r_status := status; r_content_range := None;
            r_accept_ranges := negb (N.eqb len 0); r_body := body |}
  | Some (range_start, range_end0) =>
      let range_end := if len <=? range_end0 then len else range_end0 in
      if len <=? range_start then Err E_RANGE else
      obind (sub_u64 checked range_end 1) (fun end_incl =>
      obind (slice_chk (N.to_nat range_start) (N.to_nat range_end) body) (fun sl =>
      Ok {| r_status := if N.eqb status 200 then 206 else status;
            r_content_range :=
              Some (B "bytes " ++ dec range_start ++ B "-" ++ dec end_incl ++ B "/" ++ dec len);
            r_accept_ranges := false;
            r_body := sl |}))
  end.

(** What a client observes for a 200 representation [body] and an optional
    Range header: 416 (both error sites map to it) or the ranged response. *)
Inductive range_reply :=
| R416
| RResp (r : ranged).

Definition serve_range (checked : bool) (hdr : option bytes) (status : N) (body : bytes)
  : outcome range_reply :=
  match sanitize_range hdr with
  | Panic => Panic
  | Err _ => Ok R416
  | Ok range =>
      match apply_range checked range status body with
      | Panic => Panic
      | Err _ => Ok R416
      | Ok r => Ok (RResp r)
      end
  end.

(** ---- Specification (independent of the code's structure) ---- *)

(** Declarative header syntax: [bytes=<num>-<num>], numbers in Rust's u64 syntax. *)
Definition all_digits (s : bytes) : bool := forallb is_digit s.
Fixpoint digits_value (acc : N) (s : bytes) : N :=
  match s with [] => acc | c :: r => digits_value (acc * 10 + (c - 48)) r end.
Definition number (s : bytes) (n : N) : Prop :=
  exists ds, (s = ds \/ s = 43 :: ds) /\ ds <> [] /\ all_digits ds = true /\
             digits_value 0 ds = n /\ n <= u64_max.
Definition range_syntax (v : bytes) (a c : N) : Prop :=
  exists sa sb, v = B "bytes=" ++ sa ++ [c_dash] ++ sb /\ number sa a /\ number sb c.

Definition range_spec (range : option (N * N)) (body : bytes) : range_reply :=
  let len := N.of_nat (length body) in
  match range with
  | None => RResp {| r_status := 200; r_content_range := None;
                     r_accept_ranges := negb (N.eqb len 0); r_body := body |}
  | Some (a, c) =>
      if (a <=? c) && (a <? len) then
        let last := N.min c (len - 1) in
        RResp {| r_status := 206;
                 r_content_range := Some (B "bytes " ++ dec a ++ B "-" ++ dec last ++ B "/" ++ dec len);
                 r_accept_ranges := false;
                 r_body := firstn (N.to_nat (last - a + 1)) (skipn (N.to_nat a) body) |}
      else R416
  end.

(** The same for a response whose status is not 200 (an error page, a handler's 404 ...): the property
    speaks about the representation of a 200 response; what the code does with any other status is
    recorded here — the body is sliced in the same way, the status is kept. *)
Definition range_spec_st (status : N) (range : option (N * N)) (body : bytes) : range_reply :=
  match range_spec range body with
  | R416 => R416
  | RResp r => RResp {| r_status := if N.eqb status 200 then r_status r else status;
                        r_content_range := r_content_range r;
                        r_accept_ranges := r_accept_ranges r;
                        r_body := r_body r |}
  end.

(** ---- xval interface ---- *)
Definition x_ranged (r : ranged) : xval :=
  XL [XN (r_status r); x_option XB (r_content_range r); x_bool (r_accept_ranges r); XB (r_body r)].
Definition x_range_reply (r : range_reply) : xval :=
  match r with R416 => XL [XN 416] | RResp r => x_ranged r end.

(** component input: (L checked (L [hdr]) status body) *)
Definition run_serve_range (x : xval) : xval :=
  match x with
  | XL [c; h; XN status; XB body] =>
      match d_bool c, d_option d_B h with
      | Some checked, Some hdr => x_outcome x_range_reply (serve_range checked hdr status body)
      | _, _ => bad_input
      end
  | _ => bad_input
  end.

Definition run_parse_range (x : xval) : xval :=
  match x with
  | XB v =>
      match sanitize_range (Some v) with
      | Ok r => x_option (x_pair XN XN) r
      | _ => XL [XN 416]
      end
  | _ => bad_input
  end.

(** spec component: the specification evaluated on the same input (oracle run) *)
Definition run_range_spec (x : xval) : xval :=
  match x with
  | XL [_; h; XN status; XB body] =>
      match d_option d_B h with
      | Some hdr =>
          x_outcome x_range_reply
            (Ok (range_spec_st status (match hdr with Some v => parse_range v | None => None end) body))
      | _ => bad_input
      end
  | _ => bad_input
  end.

Definition range_table : list (bytes * (xval -> xval)) :=
  [ (B "range.serve", run_serve_range);
    (B "range.parse", run_parse_range);
    (B "range.spec", run_range_spec) ].
