(** C04 — byte-level model of [kvarn_utils::parse::CacheControl]
    (from_cache_control, from_kvarn_cache_control, from_headers, store, as_freshness). *)
From KV Require Export Bytes RustInt Range.
Open Scope N_scope.

Record cache_control := { cc_max_age : option N; cc_no_store : bool }.

(** [str::trim] on header text (visible ASCII + TAB): strips spaces and tabs. *)
Definition is_ws (c : N) : bool := (c =? 32) || (c =? 9).
Fixpoint trim_start (s : bytes) : bytes :=
  match s with
  | c :: r => if is_ws c then trim_start r else s
  | [] => []
  end.
Definition trim (s : bytes) : bytes := rev (trim_start (rev (trim_start s))).

(** [str::split(',')] *)
Fixpoint split_on (sep : N) (s : bytes) (cur : bytes) : list bytes :=
  match s with
  | [] => [rev cur]
  | c :: r => if c =? sep then rev cur :: split_on sep r [] else split_on sep r (c :: cur)
  end.

Definition strip_prefix (p s : bytes) : option bytes :=
  if starts_with p s then Some (skipn (length p) s) else None.

(** error classes: 1 MultipleMaxAge, 2 InvalidInteger, 3 InvalidUnit, 4 InvalidKeyword, 5 InvalidBytes *)
Fixpoint cc_segments (segs : list bytes) (max_age : option N) (no_store : bool) : outcome cache_control :=
  match segs with
  | [] => Ok {| cc_max_age := max_age; cc_no_store := no_store |}
  | seg :: rest =>
      let t := trim seg in
      if starts_with (B "no-store") t then cc_segments rest max_age true
      else match strip_prefix (B "max-age=") t with
           | Some age =>
               match max_age with
               | Some _ => Err 1
               | None =>
                   match parse_u32 age with
                   | Some a => cc_segments rest (Some a) no_store
                   | None => Err 2
                   end
               end
           | None => cc_segments rest max_age no_store
           end
  end.
Definition from_cache_control (h : bytes) : outcome cache_control :=
  cc_segments (split_on 44 h []) None false.

Definition is_ascii_alpha (c : N) : bool := ((65 <=? c) && (c <=? 90)) || ((97 <=? c) && (c <=? 122)).

(** [checked]: overflow checks on ([integer * multiplier] panics) or off (wraps mod 2^32). *)
Definition from_kvarn_cache_control (checked : bool) (h0 : bytes) : outcome cache_control :=
  let h := trim h0 in
  if beq h (B "none") then Ok {| cc_max_age := None; cc_no_store := true |}
  else if beq h (B "full") then Ok {| cc_max_age := None; cc_no_store := false |}
  else
    match h, rev h with
    | first :: _, last :: rev_init =>
        if (Nat.ltb 1 (length h)) && is_digit first && is_ascii_alpha last then
          match parse_u32 (rev rev_init) with
          | None => Err 2
          | Some i =>
              let mult := if last =? 115 then Some 1 else if last =? 109 then Some 60
                          else if last =? 104 then Some 3600 else if last =? 100 then Some 86400 else None in
              match mult with
              | None => Err 3
              | Some m =>
                  if i * m <=? u32_max then Ok {| cc_max_age := Some (i * m); cc_no_store := false |}
                  else if checked then Panic
                  else Ok {| cc_max_age := Some ((i * m) mod (u32_max + 1)); cc_no_store := false |}
              end
          end
        else Err 4
    | _, _ => Err 4
    end.

Fixpoint assoc (k : bytes) (l : list (bytes * bytes)) : option bytes :=
  match l with
  | [] => None
  | (k', v) :: r => if beq k k' then Some v else assoc k r
  end.

Definition cc_from_headers (checked : bool) (hs : list (bytes * bytes)) : outcome cache_control :=
  match assoc (B "kvarn-cache-control") hs with
  | Some v => if to_str_ok v then from_kvarn_cache_control checked v else Err 5
  | None =>
      match assoc (B "cache-control") hs with
      | Some v => if to_str_ok v then from_cache_control v else Err 5
      | None => Ok {| cc_max_age := None; cc_no_store := false |}
      end
  end.

Definition cc_store (c : cache_control) : bool :=
  negb (cc_no_store c) || match cc_max_age c with Some a => 60 <? a | None => false end.
(** after the repair: the lifetime is the max-age whenever one was given *)
Definition cc_freshness (c : cache_control) : option N := cc_max_age c.
