(** C12 — model of [LimitManager] (src/limiting.rs: [new], [disable], [register]) and of
    the two places that react to its verdict (src/lib.rs: the accept loop [accept] and the
    request loop of [handle_connection]).  Definitions only; proofs are in
    Proofs/LimiterProofs.v.

    Conventions.  Addresses are [N] (an [IpAddr] is just a key).  Time is an explicit clock
    reading (an [N], unit irrelevant, nanoseconds in the code) handed to every call: the code
    reads [SystemTime::now()] once per sampled call for the comparison (and once more in
    [update_time], modelled as the same reading).  [usize] is 64 bit. *)
From KV Require Export Bytes RustInt.
Open Scope N_scope.

Definition usize_max : N := 18446744073709551615.

(** [limiting::Action] *)
Inductive action : Type := Passed | Send | Drop.

(** The three configuration fields.  [reset_after] is [reset_seconds] in clock units;
    [None] stands for the f64 values for which [elapsed >= reset_seconds] is never true
    (NaN, +inf); negative values behave like [Some 0]. *)
Record config : Type := { max_requests : N; check_every : N; reset_after : option N }.

(** The shared mutable part: [iteration] (AtomicUsize), [time] (secs+nanos atomics, the
    start of the current window) and [connection_map] (DashMap<IpAddr, usize>). *)
Record lstate : Type := { iteration : N; win_start : N; conn_map : list (N * N) }.

(** [LimitManager::new] calls [update_time]: the first window starts at creation. *)
Definition init (now : N) : lstate := {| iteration := 0; win_start := now; conn_map := [] |}.

(** [LimitManager::disable] = [set_check_every(usize::MAX)] (needs [&mut self]: configuration time). *)
Definition disable (c : config) : config :=
  {| max_requests := max_requests c; check_every := usize_max; reset_after := reset_after c |}.

(** The map, as an association list with functional update. *)
Fixpoint map_get (a : N) (m : list (N * N)) : option N :=
  match m with
  | [] => None
  | (k, v) :: r => if k =? a then Some v else map_get a r
  end.
Fixpoint map_set (a v : N) (m : list (N * N)) : list (N * N) :=
  match m with
  | [] => [(a, v)]
  | (k, w) :: r => if k =? a then (k, v) :: r else (k, w) :: map_set a v r
  end.

(** [*count += 1] on a usize: overflow panics with overflow checks, wraps without. *)
Definition inc_usize (checked : bool) (c : N) : outcome N :=
  if c + 1 <=? usize_max then Ok (c + 1) else if checked then Panic else Ok 0.
(** [self.max_requests * 3] *)
Definition mul3_usize (checked : bool) (m : N) : outcome N :=
  if 3 * m <=? usize_max then Ok (3 * m) else if checked then Panic else Ok ((3 * m) mod (usize_max + 1)).

(** [*map.entry(addr).and_modify(|count| *count += 1).or_insert(1)] *)
Definition entry_bump (checked : bool) (a : N) (m : list (N * N)) : outcome (N * list (N * N)) :=
  match map_get a m with
  | None => Ok (1, map_set a 1 m)
  | Some c =>
      match inc_usize checked c with
      | Ok c' => Ok (c', map_set a c' m)
      | Err e => Err e
      | Panic => Panic
      end
  end.

(** [get_time().elapsed().unwrap_or(ZERO).as_secs_f64() >= reset_seconds]; the truncated
    subtraction of [N] is exactly [unwrap_or(Duration::ZERO)] for a clock that stepped back. *)
Definition window_over (r : option N) (elapsed : N) : bool :=
  match r with Some R => R <=? elapsed | None => false end.

(** [LimitManager::register(&self, addr)] at clock reading [now].
    Order of the code: disabled test (short-circuits: the counter is not touched);
    [fetch_add(1) + 1 < check_every]  (the counter cannot overflow: it stays below
    [check_every], lemma [iteration_bounded]); [store(0)]; window test — a call that ends the
    window clears the map, restarts the window at [now] and is itself NOT counted;
    otherwise count, then the ladder [<= max], [<= max*3], else. *)
Definition register (checked : bool) (cfg : config) (st : lstate) (addr now : N) : lstate * outcome action :=
  if check_every cfg =? usize_max then (st, Ok Passed)
  else
    let it := iteration st + 1 in
    if it <? check_every cfg then
      ({| iteration := it; win_start := win_start st; conn_map := conn_map st |}, Ok Passed)
    else if window_over (reset_after cfg) (now - win_start st) then
      ({| iteration := 0; win_start := now; conn_map := [] |}, Ok Passed)
    else
      match entry_bump checked addr (conn_map st) with
      | Ok (requests, m') =>
          let st' := {| iteration := 0; win_start := win_start st; conn_map := m' |} in
          if requests <=? max_requests cfg then (st', Ok Passed)
          else
            match mul3_usize checked (max_requests cfg) with
            | Ok lim => (st', Ok (if requests <=? lim then Send else Drop))
            | Err e => (st', Err e)
            | Panic => (st', Panic)
            end
      | Err e => ({| iteration := 0; win_start := win_start st; conn_map := conn_map st |}, Err e)
      | Panic => ({| iteration := 0; win_start := win_start st; conn_map := conn_map st |}, Panic)
      end.

(** A sequential history: (address, clock reading) per call. *)
Definition event : Type := (N * N)%type.

Fixpoint run (checked : bool) (cfg : config) (st : lstate) (h : list event) : lstate * list (outcome action) :=
  match h with
  | [] => (st, [])
  | (a, t) :: r =>
      let (st1, d) := register checked cfg st a t in
      let (st2, ds) := run checked cfg st1 r in
      (st2, d :: ds)
  end.

Definition decisions (checked : bool) (cfg : config) (t0 : N) (h : list event) : list (outcome action) :=
  snd (run checked cfg (init t0) h).
Definition state_after (checked : bool) (cfg : config) (t0 : N) (h : list event) : lstate :=
  fst (run checked cfg (init t0) h).

(** ------------------------------------------------------------------------------------
    Specification: the obvious reference counter.

    A call is *sampled* when it is the [check_every]-th, 2*[check_every]-th, ... call made
    to the (enabled) limiter, counted over all addresses.  A sampled call made when the
    window is over starts a new window and is not counted.  Every other sampled call is
    *counted*: its address is added to the multiset of the window, and the verdict is the
    ladder on the multiplicity of the address (this call included).  Calls that are not
    sampled pass.  Real arithmetic everywhere. *)
Definition ladder (max n : N) : action :=
  if n <=? max then Passed else if n <=? 3 * max then Send else Drop.

Definition sampled (k : N) (seen : N) : bool := (k <=? 1) || ((seen + 1) mod k =? 0).

Fixpoint count (a : N) (l : list N) : N :=
  match l with
  | [] => 0
  | x :: r => (if x =? a then 1 else 0) + count a r
  end.

Record rstate : Type := { r_seen : N; r_start : N; r_counted : list N }.
Definition rinit (now : N) : rstate := {| r_seen := 0; r_start := now; r_counted := [] |}.

Definition ref_step (cfg : config) (rs : rstate) (a t : N) : rstate * action :=
  if check_every cfg =? usize_max then (rs, Passed)
  else if negb (sampled (check_every cfg) (r_seen rs)) then
    ({| r_seen := r_seen rs + 1; r_start := r_start rs; r_counted := r_counted rs |}, Passed)
  else if window_over (reset_after cfg) (t - r_start rs) then
    ({| r_seen := r_seen rs + 1; r_start := t; r_counted := [] |}, Passed)
  else
    ({| r_seen := r_seen rs + 1; r_start := r_start rs; r_counted := a :: r_counted rs |},
     ladder (max_requests cfg) (count a (a :: r_counted rs))).

Fixpoint ref_run (cfg : config) (rs : rstate) (h : list event) : rstate * list action :=
  match h with
  | [] => (rs, [])
  | (a, t) :: r =>
      let (rs1, d) := ref_step cfg rs a t in
      let (rs2, ds) := ref_run cfg rs1 r in
      (rs2, d :: ds)
  end.

Definition reference (cfg : config) (t0 : N) (h : list event) : list action := snd (ref_run cfg (rinit t0) h).

(** Number of *counted* requests of address [b] in the window that is current after the
    history [h] (the last event included when it was counted). *)
Definition counted (cfg : config) (t0 : N) (h : list event) (b : N) : N :=
  count b (r_counted (fst (ref_run cfg (rinit t0) h))).

(** Number of calls made by [b] in [h], counted or not. *)
Definition calls_of (b : N) (h : list event) : N := count b (map fst h).

(** Histories short enough that no usize can overflow (2^64/3 calls: 195 years at 1 ns per call). *)
Definition fits (n : nat) : Prop := N.of_nat n <= usize_max / 3.

(** ------------------------------------------------------------------------------------
    The server around the limiter (src/lib.rs).

    [accept]: loop { accept; on error count consecutive failures and give up above 100;
    on shutdown return; [register(addr.ip())] on the pre-host limiter — which shares its
    state with the first host's limiter (host.rs [CollectionBuilder::insert] clones it, the
    counters are behind [Arc]s) — [Drop] => drop the stream, anything else => spawn
    [handle_connection] }.
    [handle_connection]: for every request [register] again on the host's limiter:
    [Drop] => return (socket closed, no answer), [Send] => 429 and continue, [Passed] => the
    host's answer.
    A sequential connection history: each client connects, sends its requests one after
    the other waiting for each answer, and closes; so all [register] calls are ordered. *)
Inductive conn_event : Type :=
| Conn (addr : N) (t : N) (reqs : list N)   (* accepted at clock [t]; clock reading of each request *)
| AcceptErr                                 (* [accept()] returned an I/O error *)
| Shutdown.                                 (* [AcceptAction::Shutdown] *)

Inductive reply : Type := Normal | TooMany.
Inductive conn_result : Type :=
| Refused                                   (* nobody accepts: the listener task has ended *)
| Served (answers : list reply) (cut : bool). (* answers received; [cut]: closed by the server without an answer *)

Fixpoint serve_requests (checked : bool) (cfg : config) (st : lstate) (a : N) (ts : list N)
  : lstate * list reply * bool :=
  match ts with
  | [] => (st, [], false)
  | t :: r =>
      let (st1, d) := register checked cfg st a t in
      match d with
      | Ok Passed => let '(st2, l, c) := serve_requests checked cfg st1 a r in (st2, Normal :: l, c)
      | Ok Send => let '(st2, l, c) := serve_requests checked cfg st1 a r in (st2, TooMany :: l, c)
      | _ => (st1, [], true)      (* Drop: [return Ok(())]; a panic unwinds the task: the socket is closed either way *)
      end
  end.

Record aloop : Type := { alive : bool; fails : N; lim : lstate }.

(** [on_drop_continue]: what the accept loop does after dropping a stream:
    [true] = [continue] (the repaired code), [false] = [return Ok(())] (kvarn 0.6.3). *)
Definition accept_step (on_drop_continue checked : bool) (cfg : config) (s : aloop) (e : conn_event)
  : aloop * option conn_result :=
  if negb (alive s) then (s, match e with Conn _ _ _ => Some Refused | _ => None end)
  else
    match e with
    | Shutdown => ({| alive := false; fails := fails s; lim := lim s |}, None)
    | AcceptErr =>
        let f := fails s + 1 in
        ({| alive := negb (100 <? f); fails := f; lim := lim s |}, None)
    | Conn a t reqs =>
        let (st1, d) := register checked cfg (lim s) a t in
        match d with
        | Ok Drop => ({| alive := on_drop_continue; fails := 0; lim := st1 |}, Some (Served [] true))
        | Ok _ =>
            let '(st2, l, c) := serve_requests checked cfg st1 a reqs in
            ({| alive := true; fails := 0; lim := st2 |}, Some (Served l c))
        | _ => ({| alive := false; fails := 0; lim := st1 |}, Some (Served [] true))   (* the accept task panicked *)
        end
    end.

Fixpoint accept_run (odc checked : bool) (cfg : config) (s : aloop) (evs : list conn_event)
  : aloop * list conn_result :=
  match evs with
  | [] => (s, [])
  | e :: r =>
      let (s1, o) := accept_step odc checked cfg s e in
      let (s2, os) := accept_run odc checked cfg s1 r in
      (s2, match o with Some x => x :: os | None => os end)
  end.

Definition astart (t0 : N) : aloop := {| alive := true; fails := 0; lim := init t0 |}.

(** The accept loop of the code as it stands in the repository (after the [fix:] commit). *)
Definition accept_loop (checked : bool) (cfg : config) (t0 : N) (evs : list conn_event) : list conn_result * bool :=
  let (s, os) := accept_run true checked cfg (astart t0) evs in (os, alive s).
(** The accept loop of kvarn 0.6.3 ([LimitAction::Drop => { drop(stream); return Ok(()) }]). *)
Definition accept_loop_063 (checked : bool) (cfg : config) (t0 : N) (evs : list conn_event) : list conn_result * bool :=
  let (s, os) := accept_run false checked cfg (astart t0) evs in (os, alive s).

(** Specification of the server: every connection is accepted, and what it receives is
    decided by the reference counter alone. *)
Fixpoint spec_requests (cfg : config) (rs : rstate) (a : N) (ts : list N) : rstate * list reply * bool :=
  match ts with
  | [] => (rs, [], false)
  | t :: r =>
      let (rs1, d) := ref_step cfg rs a t in
      match d with
      | Passed => let '(rs2, l, c) := spec_requests cfg rs1 a r in (rs2, Normal :: l, c)
      | Send => let '(rs2, l, c) := spec_requests cfg rs1 a r in (rs2, TooMany :: l, c)
      | Drop => (rs1, [], true)
      end
  end.

Definition connection : Type := (N * N * list N)%type.
Definition conn_of (c : connection) : conn_event := let '(a, t, reqs) := c in Conn a t reqs.

Fixpoint spec_server_from (cfg : config) (rs : rstate) (cs : list connection) : list conn_result :=
  match cs with
  | [] => []
  | (a, t, reqs) :: r =>
      let (rs1, d) := ref_step cfg rs a t in
      match d with
      | Drop => Served [] true :: spec_server_from cfg rs1 r
      | _ => let '(rs2, l, c) := spec_requests cfg rs1 a reqs in Served l c :: spec_server_from cfg rs2 r
      end
  end.
Definition spec_server (cfg : config) (t0 : N) (cs : list connection) : list conn_result :=
  spec_server_from cfg (rinit t0) cs.

(** Upper bound on the number of [register] calls a connection history can cause. *)
Fixpoint calls_bound (cs : list connection) : nat :=
  match cs with
  | [] => O
  | (_, _, reqs) :: r => (S (length reqs) + calls_bound r)%nat
  end.

(** Longest run of consecutive accept errors and presence of a shutdown request. *)
Fixpoint max_err_run (cur : N) (evs : list conn_event) : N :=
  match evs with
  | [] => cur
  | AcceptErr :: r => N.max (cur + 1) (max_err_run (cur + 1) r)
  | Conn _ _ _ :: r => N.max cur (max_err_run 0 r)
  | Shutdown :: r => N.max cur (max_err_run cur r)
  end.
Definition is_shutdown (e : conn_event) : bool := match e with Shutdown => true | _ => false end.
Fixpoint ev_calls_bound (evs : list conn_event) : nat :=
  match evs with
  | [] => O
  | Conn _ _ reqs :: r => (S (length reqs) + ev_calls_bound r)%nat
  | _ :: r => ev_calls_bound r
  end.

(** ------------------------------------------------------------------------------------
    xval interface.
    config  : (L (N max) (N check_every) (L (N kind) (N v)))   kind 0: reset after v clock units,
              1: +inf, 2: NaN, 3: negative
    history : (L (L (N addr) (N dt)) ...)   dt = clock units elapsed since the previous call
              (the limiter is created at clock 0) *)
Definition d_reset (x : xval) : option (option N) :=
  match x with
  | XL [XN 0; XN v] => Some (Some v)
  | XL [XN 1; XN _] => Some None
  | XL [XN 2; XN _] => Some None
  | XL [XN 3; XN _] => Some (Some 0)
  | _ => None
  end.
Definition d_config (x : xval) : option config :=
  match x with
  | XL [XN m; XN k; r] =>
      match d_reset r with
      | Some ra =>
          if (m <=? usize_max) && (k <=? usize_max)
          then Some {| max_requests := m; check_every := k; reset_after := ra |}
          else None
      | None => None
      end
  | _ => None
  end.

Definition d_event (x : xval) : option (N * N) :=
  match x with XL [XN a; XN dt] => Some (a, dt) | _ => None end.
(** relative waits -> absolute clock readings *)
Fixpoint absolute (now : N) (l : list (N * N)) : list event :=
  match l with
  | [] => []
  | (a, dt) :: r => (a, now + dt) :: absolute (now + dt) r
  end.

Definition action_code (a : action) : N := match a with Passed => 0 | Send => 1 | Drop => 2 end.
Definition x_decision (d : outcome action) : xval :=
  match d with Ok a => XN (action_code a) | Err _ => XN 8 | Panic => XN 9 end.

Definition run_register (x : xval) : xval :=
  match x with
  | XL [c; cf; h] =>
      match d_bool c, d_config cf, d_list d_event h with
      | Some checked, Some cfg, Some evs => XL (map x_decision (decisions checked cfg 0 (absolute 0 evs)))
      | _, _, _ => bad_input
      end
  | _ => bad_input
  end.

Definition run_reference (x : xval) : xval :=
  match x with
  | XL [c; cf; h] =>
      match d_bool c, d_config cf, d_list d_event h with
      | Some _, Some cfg, Some evs => XL (map (fun a => XN (action_code a)) (reference cfg 0 (absolute 0 evs)))
      | _, _, _ => bad_input
      end
  | _ => bad_input
  end.

(** connection history: (L (L (N addr) (N dt) (N nreq)) ...); the requests of a connection
    are made at the clock reading of the connection. *)
Definition d_conn (x : xval) : option (N * N * nat) :=
  match x with XL [XN a; XN dt; XN n] => Some (a, dt, N.to_nat n) | _ => None end.
Fixpoint abs_conns (now : N) (l : list (N * N * nat)) : list connection :=
  match l with
  | [] => []
  | (a, dt, n) :: r => (a, now + dt, repeat (now + dt) n) :: abs_conns (now + dt) r
  end.
Definition reply_code (r : reply) : N := match r with Normal => 404 | TooMany => 429 end.
Definition x_conn_result (r : conn_result) : xval :=
  match r with
  | Refused => XL [XN 3]
  | Served l c => XL [XN 0; XL (map (fun r => XN (reply_code r)) l); x_bool c]
  end.

Definition run_server_gen (loop : bool -> config -> N -> list conn_event -> list conn_result * bool) (x : xval) : xval :=
  match x with
  | XL [c; cf; h] =>
      match d_bool c, d_config cf, d_list d_conn h with
      | Some checked, Some cfg, Some cs =>
          let (os, al) := loop checked cfg 0 (map conn_of (abs_conns 0 cs)) in
          XL [XL (map x_conn_result os); x_bool al]
      | _, _, _ => bad_input
      end
  | _ => bad_input
  end.
Definition run_server := run_server_gen accept_loop.
Definition run_server_063 := run_server_gen accept_loop_063.

Definition run_server_spec (x : xval) : xval :=
  match x with
  | XL [c; cf; h] =>
      match d_bool c, d_config cf, d_list d_conn h with
      | Some _, Some cfg, Some cs => XL [XL (map x_conn_result (spec_server cfg 0 (abs_conns 0 cs))); x_bool true]
      | _, _, _ => bad_input
      end
  | _ => bad_input
  end.

Definition limiter_table : list (bytes * (xval -> xval)) :=
  [ (B "limiter.register", run_register);
    (B "limiter.reference", run_reference);
    (B "limiter.server", run_server);
    (B "limiter.server_063", run_server_063);
    (B "limiter.server_spec", run_server_spec) ].
