(** C12 — model of [LimitManager] (src/limiting.rs: [new], [default], the setters, [disable],
    [register]; a manager = configuration + shared counters) and of
    the two places that react to its verdict (src/lib.rs: the accept loop [accept] and the
    request loop of [handle_connection]).  Definitions only; proofs are in
    Proofs/LimiterProofs.v.

    Conventions.  Addresses are [N] (an [IpAddr] is just a key).  Time is an explicit clock
    reading (an [N], unit irrelevant, nanoseconds in the code) handed to every call: the code
    reads [SystemTime::now()] once per sampled call for the comparison (and once more in
    [update_time], modelled as the same reading).  [usize] is 64 bit. *)
From KV Require Export Bytes RustInt.
Open Scope N_scope.

Definition usize_max : N := 18446744073709551615.

(** [limiting::Action] *)
Inductive action : Type := Passed | Send | Drop.

(** The three configuration fields.  [reset_after] is [reset_seconds] in clock units;
    [None] stands for the f64 values for which [elapsed >= reset_seconds] is never true
    (NaN, +inf); negative values behave like [Some 0]. *)
Record config : Type := { max_requests : N; check_every : N; reset_after : option N }.

(** The shared mutable part: [iteration] (AtomicUsize), [time] (secs+nanos atomics, the
    start of the current window) and [connection_map] (DashMap<IpAddr, usize>). *)
Record lstate : Type := { iteration : N; win_start : N; conn_map : list (N * N) }.

(** [LimitManager::new] calls [update_time]: the first window starts at creation. *)
Definition init (now : N) : lstate := {| iteration := 0; win_start := now; conn_map := [] |}.

(** [LimitManager::disable] = [set_check_every(usize::MAX)] (needs [&mut self]: configuration time). *)
Definition disable (c : config) : config :=
  {| max_requests := max_requests c; check_every := usize_max; reset_after := reset_after c |}.

(** The map, as an association list with functional update. *)
Fixpoint map_get (a : N) (m : list (N * N)) : option N :=
  match m with
  | [] => None
  | (k, v) :: r => if k =? a then Some v else map_get a r
  end.
Fixpoint map_set (a v : N) (m : list (N * N)) : list (N * N) :=
  match m with
  | [] => [(a, v)]
  | (k, w) :: r => if k =? a then (k, v) :: r else (k, w) :: map_set a v r
  end.

(** [*count += 1] on a usize: overflow panics with overflow checks, wraps without. *)
Definition inc_usize (checked : bool) (c : N) : outcome N :=
  if c + 1 <=? usize_max then Ok (c + 1) else if checked then Panic else Ok 0.
(** [self.max_requests * 3] *)
Definition mul3_usize (checked : bool) (m : N) : outcome N :=
  if 3 * m <=? usize_max then Ok (3 * m) else if checked then Panic else Ok ((3 * m) mod (usize_max + 1)).

(** [*map.entry(addr).and_modify(|count| *count += 1).or_insert(1)] *)
Definition entry_bump (checked : bool) (a : N) (m : list (N * N)) : outcome (N * list (N * N)) :=
  match map_get a m with
  | None => Ok (1, map_set a 1 m)
  | Some c =>
      match inc_usize checked c with
      | Ok c' => Ok (c', map_set a c' m)
      | Err e => Err e
      | Panic => Panic
      end
  end.

(** [get_time().elapsed().unwrap_or(ZERO).as_secs_f64() >= reset_seconds]; the truncated
    subtraction of [N] is exactly [unwrap_or(Duration::ZERO)] for a clock that stepped back. *)
Definition window_over (r : option N) (elapsed : N) : bool :=
  match r with Some R => R <=? elapsed | None => false end.

(** [LimitManager::register(&self, addr)] at clock reading [now].
    Order of the code: disabled test (short-circuits: the counter is not touched);
    [fetch_add(1) + 1 < check_every]  (the counter cannot overflow: it stays below
    [check_every], lemma [iteration_bounded]); [store(0)]; window test — a call that ends the
    window clears the map, restarts the window at [now] and is itself NOT counted;
    otherwise count, then the ladder [<= max], [<= max*3], else. *)
Definition register (checked : bool) (cfg : config) (st : lstate) (addr now : N) : lstate * outcome action :=
  if check_every cfg =? usize_max then (st, Ok Passed)
  else
    let it := iteration st + 1 in
    if it <? check_every cfg then
      ({| iteration := it; win_start := win_start st; conn_map := conn_map st |}, Ok Passed)
    else if window_over (reset_after cfg) (now - win_start st) then
      ({| iteration := 0; win_start := now; conn_map := [] |}, Ok Passed)
    else
      match entry_bump checked addr (conn_map st) with
      | Ok (requests, m') =>
          let st' := {| iteration := 0; win_start := win_start st; conn_map := m' |} in
          if requests <=? max_requests cfg then (st', Ok Passed)
          else
            match mul3_usize checked (max_requests cfg) with
            | Ok lim => (st', Ok (if requests <=? lim then Send else Drop))
            | Err e => (st', Err e)
            | Panic => (st', Panic)
            end
      | Err e => ({| iteration := 0; win_start := win_start st; conn_map := conn_map st |}, Err e)
      | Panic => ({| iteration := 0; win_start := win_start st; conn_map := conn_map st |}, Panic)
      end.

(** A sequential history: (address, clock reading) per call. *)
Definition event : Type := (N * N)%type.

Fixpoint run (checked : bool) (cfg : config) (st : lstate) (h : list event) : lstate * list (outcome action) :=
  match h with
  | [] => (st, [])
  | (a, t) :: r =>
      let (st1, d) := register checked cfg st a t in
      let (st2, ds) := run checked cfg st1 r in
      (st2, d :: ds)
  end.

Definition decisions (checked : bool) (cfg : config) (t0 : N) (h : list event) : list (outcome action) :=
  snd (run checked cfg (init t0) h).
Definition state_after (checked : bool) (cfg : config) (t0 : N) (h : list event) : lstate :=
  fst (run checked cfg (init t0) h).

(** ------------------------------------------------------------------------------------
    Specification: the obvious reference counter.

    A call is *sampled* when it is the [check_every]-th, 2*[check_every]-th, ... call made
    to the (enabled) limiter, counted over all addresses.  A sampled call made when the
    window is over starts a new window and is not counted.  Every other sampled call is
    *counted*: its address is added to the multiset of the window, and the verdict is the
    ladder on the multiplicity of the address (this call included).  Calls that are not
    sampled pass.  Real arithmetic everywhere. *)
Definition ladder (max n : N) : action :=
  if n <=? max then Passed else if n <=? 3 * max then Send else Drop.

Definition sampled (k : N) (seen : N) : bool := (k <=? 1) || ((seen + 1) mod k =? 0).

Fixpoint count (a : N) (l : list N) : N :=
  match l with
  | [] => 0
  | x :: r => (if x =? a then 1 else 0) + count a r
  end.

Record rstate : Type := { r_seen : N; r_start : N; r_counted : list N }.
Definition rinit (now : N) : rstate := {| r_seen := 0; r_start := now; r_counted := [] |}.

Definition ref_step (cfg : config) (rs : rstate) (a t : N) : rstate * action :=
  if check_every cfg =? usize_max then (rs, Passed)
  else if negb (sampled (check_every cfg) (r_seen rs)) then
    ({| r_seen := r_seen rs + 1; r_start := r_start rs; r_counted := r_counted rs |}, Passed)
  else if window_over (reset_after cfg) (t - r_start rs) then
    ({| r_seen := r_seen rs + 1; r_start := t; r_counted := [] |}, Passed)
  else
    ({| r_seen := r_seen rs + 1; r_start := r_start rs; r_counted := a :: r_counted rs |},
     ladder (max_requests cfg) (count a (a :: r_counted rs))).

Fixpoint ref_run (cfg : config) (rs : rstate) (h : list event) : rstate * list action :=
  match h with
  | [] => (rs, [])
  | (a, t) :: r =>
      let (rs1, d) := ref_step cfg rs a t in
      let (rs2, ds) := ref_run cfg rs1 r in
      (rs2, d :: ds)
  end.

Definition reference (cfg : config) (t0 : N) (h : list event) : list action := snd (ref_run cfg (rinit t0) h).

(** Number of *counted* requests of address [b] in the window that is current after the
    history [h] (the last event included when it was counted). *)
Definition counted (cfg : config) (t0 : N) (h : list event) (b : N) : N :=
  count b (r_counted (fst (ref_run cfg (rinit t0) h))).

(** Number of calls made by [b] in [h], counted or not. *)
Definition calls_of (b : N) (h : list event) : N := count b (map fst h).

(** Histories short enough that no usize can overflow (2^64/3 calls: 195 years at 1 ns per call). *)
Definition fits (n : nat) : Prop := N.of_nat n <= usize_max / 3.

(** ------------------------------------------------------------------------------------
    Configuration as part of the state.

    A [LimitManager] value is the three plain fields (the configuration) plus [Arc]s to the
    counters.  Every public way to obtain / change the configuration:
    [new(max, check_every, reset)], [Default] = [new(10, 10, 10.)] (also the [limiter] field
    of every new [Host], src/host.rs [Host::unsecure]/[Host::new]), [set_max_requests],
    [set_check_every], [set_reset_seconds], [disable] = [set_check_every(usize::MAX)].
    The setters take [&mut self] and write one field; they never touch the counters, the
    window start or the map.  A history may therefore interleave them with [register]. *)
Definition default_config : config := {| max_requests := 10; check_every := 10; reset_after := Some 10000 |}.
Definition set_max_requests (m : N) (c : config) : config :=
  {| max_requests := m; check_every := check_every c; reset_after := reset_after c |}.
Definition set_check_every (k : N) (c : config) : config :=
  {| max_requests := max_requests c; check_every := k; reset_after := reset_after c |}.
Definition set_reset_seconds (r : option N) (c : config) : config :=
  {| max_requests := max_requests c; check_every := check_every c; reset_after := r |}.

Inductive op : Type :=
| Reg (a t : N)                 (* [register(a)] at clock reading [t] *)
| SetMax (m : N)
| SetEvery (k : N)
| SetReset (r : option N)
| Disable.

Definition op_cfg (o : op) (c : config) : config :=
  match o with
  | Reg _ _ => c
  | SetMax m => set_max_requests m c
  | SetEvery k => set_check_every k c
  | SetReset r => set_reset_seconds r c
  | Disable => disable c
  end.

(** One manager driven through a history of operations; the answers of the [register] calls in order. *)
Fixpoint run_ops (checked : bool) (cfg : config) (st : lstate) (ops : list op) : config * lstate * list (outcome action) :=
  match ops with
  | [] => (cfg, st, [])
  | Reg a t :: r =>
      let (st1, d) := register checked cfg st a t in
      let '(c2, st2, ds) := run_ops checked cfg st1 r in
      (c2, st2, d :: ds)
  | o :: r => run_ops checked (op_cfg o cfg) st r
  end.

Definition decisions_ops (checked : bool) (cfg : config) (t0 : N) (ops : list op) : list (outcome action) :=
  snd (run_ops checked cfg (init t0) ops).
Definition state_after_ops (checked : bool) (cfg : config) (t0 : N) (ops : list op) : lstate :=
  snd (fst (run_ops checked cfg (init t0) ops)).
Fixpoint config_after (cfg : config) (ops : list op) : config :=
  match ops with [] => cfg | o :: r => config_after (op_cfg o cfg) r end.

(** Reference for histories with configuration changes.  "Every [check_every]-th call" has
    no meaning across a change of [check_every]; the reference counts the calls since the last
    sampled one: a call is *due* (sampled) when it is at least the [check_every]-th call since
    the last sampled call, [check_every] being the value configured at the time of the call.
    A due call made when the window is over (current [reset_seconds]) starts a new window and
    is not counted; every other due call is counted and answered by the ladder of the
    *current* [max_requests] on the multiplicity of its address in the window.  Real
    arithmetic.  For a constant configuration this is [reference] (proved). *)
Record qstate : Type := { q_seen : N; q_since : N; q_start : N; q_counted : list N }.
Definition qinit (now : N) : qstate := {| q_seen := 0; q_since := 0; q_start := now; q_counted := [] |}.
Definition due (k since : N) : bool := k <=? since + 1.

Definition qstep (cfg : config) (qs : qstate) (a t : N) : qstate * action :=
  if check_every cfg =? usize_max then (qs, Passed)
  else if negb (due (check_every cfg) (q_since qs)) then
    ({| q_seen := q_seen qs + 1; q_since := q_since qs + 1; q_start := q_start qs; q_counted := q_counted qs |}, Passed)
  else if window_over (reset_after cfg) (t - q_start qs) then
    ({| q_seen := q_seen qs + 1; q_since := 0; q_start := t; q_counted := [] |}, Passed)
  else
    ({| q_seen := q_seen qs + 1; q_since := 0; q_start := q_start qs; q_counted := a :: q_counted qs |},
     ladder (max_requests cfg) (count a (a :: q_counted qs))).

Fixpoint ref_ops (cfg : config) (qs : qstate) (ops : list op) : config * qstate * list action :=
  match ops with
  | [] => (cfg, qs, [])
  | Reg a t :: r =>
      let (qs1, d) := qstep cfg qs a t in
      let '(c2, qs2, ds) := ref_ops cfg qs1 r in
      (c2, qs2, d :: ds)
  | o :: r => ref_ops (op_cfg o cfg) qs r
  end.
Definition reference_ops (cfg : config) (t0 : N) (ops : list op) : list action := snd (ref_ops cfg (qinit t0) ops).

(** Counted requests of [b] in the window current after [ops]; calls of [b]; the [register] calls of a history. *)
Definition counted_ops (cfg : config) (t0 : N) (ops : list op) (b : N) : N :=
  count b (q_counted (snd (fst (ref_ops cfg (qinit t0) ops)))).
Definition reg_of (e : event) : op := Reg (fst e) (snd e).
Fixpoint regs (ops : list op) : list event :=
  match ops with
  | [] => []
  | Reg a t :: r => (a, t) :: regs r
  | _ :: r => regs r
  end.
Definition is_reg (o : op) : bool := match o with Reg _ _ => true | _ => false end.

(** ------------------------------------------------------------------------------------
    The server around the limiter (src/lib.rs).

    [accept] (one instance per listening socket: IPv4 and IPv6, TCP and — with TLS — QUIC;
    each instance has its own failure counter, all share the limiters):
      let mut fails_without_accepting = 0; let threshold = 100;
      loop {
        match listener.accept(shutdown_manager).await {
          Shutdown                  => return Ok(()),
          AcceptTcp(Ok(c))          => c,
          AcceptTcp(Err(e))         => { fails += 1; if fails > threshold { return Err(e) } continue }
          AcceptUdp(Ok(c))          => c,
          AcceptUdp(Err(TimedOut))  => continue,
          AcceptUdp(Err(e))         => { fails += 1; if fails > threshold { return Err(e) } continue }
        };
        fails = 0;
        match descriptor.data.limiter().register(addr.ip()) {      // the pre-host limiter
          Drop => { drop(stream); continue }
          Send | Passed => {}
        }
        spawn(handle_connection(..))
      }
    [return Err] makes the spawning task panic on [.expect("Failed to accept message!")];
    either [return] drops the listening socket.  A panic inside [register] unwinds the task.
    The pre-host limiter is a clone of the first host's limiter taken by
    [CollectionBuilder::insert] (same configuration at that moment, shared counters) unless
    [set_pre_host_limiter] installs another manager (own configuration; counters shared or not,
    depending on whether it is a clone).
    [handle_connection]: for every request [register] on the host's limiter:
    [Drop] => return (socket closed, no answer), [Send] => 429 and continue, [Passed] => the
    host's answer.
    A sequential connection history: each client connects, sends its requests one after
    the other waiting for each answer, and closes; so all [register] calls are ordered. *)
Record sconfig : Type := { pre_cfg : config; host_cfg : config; shared : bool }.
Definition same_limiter (c : config) : sconfig := {| pre_cfg := c; host_cfg := c; shared := true |}.

(** The counters of the pre-host limiter and of the host limiter. *)
Definition after_pre {A} (sh : bool) (new : A) (p : A * A) : A * A := if sh then (new, new) else (new, snd p).
Definition after_host {A} (sh : bool) (new : A) (p : A * A) : A * A := if sh then (new, new) else (fst p, new).

Inductive conn_event : Type :=
| Conn (addr : N) (t : N) (reqs : list N)   (* accepted at clock [t]; clock reading of each request *)
| AcceptErr                                 (* [accept()] returned an I/O error (TCP, or QUIC other than TimedOut) *)
| AcceptTimeout                             (* QUIC handshake timed out: [continue], nothing counted *)
| Shutdown                                  (* [AcceptAction::Shutdown] *)
| Other (on_host : bool) (addr t : N).      (* a [register] call made by another task (the loop of another
                                               listener, or one of its connections) on the shared limiters *)

Inductive reply : Type := Normal | TooMany.
Inductive conn_result : Type :=
| Refused                                   (* nobody accepts: the listener task has ended *)
| Served (answers : list reply) (cut : bool). (* answers received; [cut]: closed by the server without an answer *)

Fixpoint serve_requests (checked : bool) (sc : sconfig) (p : lstate * lstate) (a : N) (ts : list N)
  : (lstate * lstate) * list reply * bool :=
  match ts with
  | [] => (p, [], false)
  | t :: r =>
      let (st1, d) := register checked (host_cfg sc) (snd p) a t in
      let p1 := after_host (shared sc) st1 p in
      match d with
      | Ok Passed => let '(p2, l, c) := serve_requests checked sc p1 a r in (p2, Normal :: l, c)
      | Ok Send => let '(p2, l, c) := serve_requests checked sc p1 a r in (p2, TooMany :: l, c)
      | _ => (p1, [], true)      (* Drop: [return Ok(())]; a panic unwinds the task: the socket is closed either way *)
      end
  end.

Inductive lstatus : Type :=
| Running
| ReturnedOk      (* shutdown (or, in kvarn 0.6.3, a dropped connection) *)
| ReturnedErr     (* more than [fail_threshold] consecutive accept errors *)
| Panicked.       (* [register] panicked inside the loop *)

Record aloop : Type := { status : lstatus; fails : N; lims : lstate * lstate }.
Definition fail_threshold : N := 100.

(** [on_drop_continue]: what the accept loop does after dropping a stream:
    [true] = [continue] (the repaired code), [false] = [return Ok(())] (kvarn 0.6.3). *)
Definition accept_step (on_drop_continue checked : bool) (sc : sconfig) (s : aloop) (e : conn_event)
  : aloop * option conn_result :=
  match status s with
  | Running =>
      match e with
      | Shutdown => ({| status := ReturnedOk; fails := fails s; lims := lims s |}, None)
      | AcceptTimeout => (s, None)
      | AcceptErr =>
          let f := fails s + 1 in
          ({| status := if fail_threshold <? f then ReturnedErr else Running; fails := f; lims := lims s |}, None)
      | Other on_host a t =>
          if on_host
          then ({| status := Running; fails := fails s;
                   lims := after_host (shared sc) (fst (register checked (host_cfg sc) (snd (lims s)) a t)) (lims s) |}, None)
          else ({| status := Running; fails := fails s;
                   lims := after_pre (shared sc) (fst (register checked (pre_cfg sc) (fst (lims s)) a t)) (lims s) |}, None)
      | Conn a t reqs =>
          (* [fails_without_accepting = 0] comes first, then the limiter *)
          let (st1, d) := register checked (pre_cfg sc) (fst (lims s)) a t in
          let p1 := after_pre (shared sc) st1 (lims s) in
          match d with
          | Ok Drop => ({| status := if on_drop_continue then Running else ReturnedOk; fails := 0; lims := p1 |},
                        Some (Served [] true))
          | Ok _ =>
              let '(p2, l, c) := serve_requests checked sc p1 a reqs in
              ({| status := Running; fails := 0; lims := p2 |}, Some (Served l c))
          | _ => ({| status := Panicked; fails := 0; lims := p1 |}, Some (Served [] true))
          end
      end
  | _ => (s, match e with Conn _ _ _ => Some Refused | _ => None end)
  end.

Fixpoint accept_run (odc checked : bool) (sc : sconfig) (s : aloop) (evs : list conn_event)
  : aloop * list conn_result :=
  match evs with
  | [] => (s, [])
  | e :: r =>
      let (s1, o) := accept_step odc checked sc s e in
      let (s2, os) := accept_run odc checked sc s1 r in
      (s2, match o with Some x => x :: os | None => os end)
  end.

Definition astart (t0 : N) : aloop := {| status := Running; fails := 0; lims := (init t0, init t0) |}.

(** The accept loop of the code as it stands in the repository (after the [fix:] commit). *)
Definition accept_loop (checked : bool) (sc : sconfig) (t0 : N) (evs : list conn_event) : list conn_result * lstatus :=
  let (s, os) := accept_run true checked sc (astart t0) evs in (os, status s).
(** The accept loop of kvarn 0.6.3 ([LimitAction::Drop => { drop(stream); return Ok(()) }]). *)
Definition accept_loop_063 (checked : bool) (sc : sconfig) (t0 : N) (evs : list conn_event) : list conn_result * lstatus :=
  let (s, os) := accept_run false checked sc (astart t0) evs in (os, status s).

(** Specification of the listener: whether (and how) the loop has ended is a function of the
    *kinds* of the accept events alone — shutdown request, or more than 100 accept errors in a
    row with no accepted connection in between.  No address, request, limiter verdict or
    configuration occurs in it. *)
Fixpoint loop_spec (f : N) (evs : list conn_event) : lstatus :=
  match evs with
  | [] => Running
  | Shutdown :: _ => ReturnedOk
  | AcceptErr :: r => if fail_threshold <? f + 1 then ReturnedErr else loop_spec (f + 1) r
  | AcceptTimeout :: r => loop_spec f r
  | Other _ _ _ :: r => loop_spec f r
  | Conn _ _ _ :: r => loop_spec 0 r
  end.

(** Specification of the server: every connection is accepted, and what it receives is
    decided by the reference counter(s) alone. *)
Fixpoint spec_requests (sc : sconfig) (p : qstate * qstate) (a : N) (ts : list N) : (qstate * qstate) * list reply * bool :=
  match ts with
  | [] => (p, [], false)
  | t :: r =>
      let (q1, d) := qstep (host_cfg sc) (snd p) a t in
      let p1 := after_host (shared sc) q1 p in
      match d with
      | Passed => let '(p2, l, c) := spec_requests sc p1 a r in (p2, Normal :: l, c)
      | Send => let '(p2, l, c) := spec_requests sc p1 a r in (p2, TooMany :: l, c)
      | Drop => (p1, [], true)
      end
  end.

Definition connection : Type := (N * N * list N)%type.
Definition conn_of (c : connection) : conn_event := let '(a, t, reqs) := c in Conn a t reqs.

Fixpoint spec_server_from (sc : sconfig) (p : qstate * qstate) (cs : list connection) : list conn_result :=
  match cs with
  | [] => []
  | (a, t, reqs) :: r =>
      let (q1, d) := qstep (pre_cfg sc) (fst p) a t in
      let p1 := after_pre (shared sc) q1 p in
      match d with
      | Drop => Served [] true :: spec_server_from sc p1 r
      | _ => let '(p2, l, c) := spec_requests sc p1 a reqs in Served l c :: spec_server_from sc p2 r
      end
  end.
Definition spec_server (sc : sconfig) (t0 : N) (cs : list connection) : list conn_result :=
  spec_server_from sc (qinit t0, qinit t0) cs.

(** Upper bound on the number of [register] calls a connection history can cause. *)
Fixpoint calls_bound (cs : list connection) : nat :=
  match cs with
  | [] => O
  | (_, _, reqs) :: r => (S (length reqs) + calls_bound r)%nat
  end.

(** Longest run of consecutive accept errors and presence of a shutdown request. *)
Fixpoint max_err_run (cur : N) (evs : list conn_event) : N :=
  match evs with
  | [] => cur
  | AcceptErr :: r => N.max (cur + 1) (max_err_run (cur + 1) r)
  | Conn _ _ _ :: r => N.max cur (max_err_run 0 r)
  | _ :: r => N.max cur (max_err_run cur r)
  end.
Definition is_shutdown (e : conn_event) : bool := match e with Shutdown => true | _ => false end.
Fixpoint ev_calls_bound (evs : list conn_event) : nat :=
  match evs with
  | [] => O
  | Conn _ _ reqs :: r => (S (length reqs) + ev_calls_bound r)%nat
  | Other _ _ _ :: r => S (ev_calls_bound r)
  | _ :: r => ev_calls_bound r
  end.

(** Specification of the server for ANY event list: accept errors, QUIC time-outs, shutdown
    requests and calls of other tasks included.  Connections are answered from the reference
    counters alone as long as the listener has not been asked to stop and has not seen more
    than [fail_threshold] accept errors in a row ([f] counts them); from then on everybody is
    refused.  The second component is how the loop has ended ([Running]: not at all). *)
Definition is_conn (e : conn_event) : bool := match e with Conn _ _ _ => true | _ => false end.
Definition refused_all (evs : list conn_event) : list conn_result :=
  map (fun _ => Refused) (filter is_conn evs).

Fixpoint spec_events (sc : sconfig) (p : qstate * qstate) (f : N) (evs : list conn_event) : list conn_result * lstatus :=
  match evs with
  | [] => ([], Running)
  | Shutdown :: r => (refused_all r, ReturnedOk)
  | AcceptErr :: r => if fail_threshold <? f + 1 then (refused_all r, ReturnedErr) else spec_events sc p (f + 1) r
  | AcceptTimeout :: r => spec_events sc p f r
  | Other on_host a t :: r =>
      if on_host
      then spec_events sc (after_host (shared sc) (fst (qstep (host_cfg sc) (snd p) a t)) p) f r
      else spec_events sc (after_pre (shared sc) (fst (qstep (pre_cfg sc) (fst p) a t)) p) f r
  | Conn a t reqs :: r =>
      let (q1, d) := qstep (pre_cfg sc) (fst p) a t in
      let p1 := after_pre (shared sc) q1 p in
      match d with
      | Drop => let (os, st) := spec_events sc p1 0 r in (Served [] true :: os, st)
      | _ => let '(p2, l, c) := spec_requests sc p1 a reqs in
             let (os, st) := spec_events sc p2 0 r in (Served l c :: os, st)
      end
  end.
Definition spec_server_events (sc : sconfig) (t0 : N) (evs : list conn_event) : list conn_result * lstatus :=
  spec_events sc (qinit t0, qinit t0) 0 evs.

(** Calls of [register] with address [b] that an event list can cause (on either manager), and the
    smaller of the two configured maxima. *)
Fixpoint ev_calls_of (b : N) (evs : list conn_event) : N :=
  match evs with
  | [] => 0
  | Conn a _ reqs :: r => (if a =? b then 1 + N.of_nat (length reqs) else 0) + ev_calls_of b r
  | Other _ a _ :: r => (if a =? b then 1 else 0) + ev_calls_of b r
  | _ :: r => ev_calls_of b r
  end.
Definition min_max (sc : sconfig) : N := N.min (max_requests (pre_cfg sc)) (max_requests (host_cfg sc)).

(** ------------------------------------------------------------------------------------
    xval interface.
    config  : (L (N max) (N check_every) (L (N kind) (N v)))   kind 0: reset after v clock units,
              1: +inf, 2: NaN, 3: negative
    history : (L (L (N addr) (N dt)) ...)   dt = clock units elapsed since the previous call
              (the limiter is created at clock 0) *)
Definition d_reset (x : xval) : option (option N) :=
  match x with
  | XL [XN 0; XN v] => Some (Some v)
  | XL [XN 1; XN _] => Some None
  | XL [XN 2; XN _] => Some None
  | XL [XN 3; XN _] => Some (Some 0)
  | _ => None
  end.
Definition d_config (x : xval) : option config :=
  match x with
  | XL [XN m; XN k; r] =>
      match d_reset r with
      | Some ra =>
          if (m <=? usize_max) && (k <=? usize_max)
          then Some {| max_requests := m; check_every := k; reset_after := ra |}
          else None
      | None => None
      end
  | _ => None
  end.

Definition d_event (x : xval) : option (N * N) :=
  match x with XL [XN a; XN dt] => Some (a, dt) | _ => None end.
(** relative waits -> absolute clock readings *)
Fixpoint absolute (now : N) (l : list (N * N)) : list event :=
  match l with
  | [] => []
  | (a, dt) :: r => (a, now + dt) :: absolute (now + dt) r
  end.

Definition action_code (a : action) : N := match a with Passed => 0 | Send => 1 | Drop => 2 end.
Definition x_decision (d : outcome action) : xval :=
  match d with Ok a => XN (action_code a) | Err _ => XN 8 | Panic => XN 9 end.

Definition run_register (x : xval) : xval :=
  match x with
  | XL [c; cf; h] =>
      match d_bool c, d_config cf, d_list d_event h with
      | Some checked, Some cfg, Some evs => XL (map x_decision (decisions checked cfg 0 (absolute 0 evs)))
      | _, _, _ => bad_input
      end
  | _ => bad_input
  end.

Definition run_reference (x : xval) : xval :=
  match x with
  | XL [c; cf; h] =>
      match d_bool c, d_config cf, d_list d_event h with
      | Some _, Some cfg, Some evs => XL (map (fun a => XN (action_code a)) (reference cfg 0 (absolute 0 evs)))
      | _, _, _ => bad_input
      end
  | _ => bad_input
  end.

(** histories with configuration changes:  (L checked ctor (L op ...))
    ctor : (L (N 0) config)  [LimitManager::new]
           (L (N 1))         [LimitManager::default()]
           (L (N 2))         the [limiter] field of a new [Host]
    op   : (L (N 0) (N addr) (N dt))  register, dt clock units after the previous operation
           (L (N 1) (N m)) set_max_requests   (L (N 2) (N k)) set_check_every
           (L (N 3) reset) set_reset_seconds  (L (N 4)) disable *)
Definition d_ctor (x : xval) : option config :=
  match x with
  | XL [XN 0; cf] => d_config cf
  | XL [XN 1] => Some default_config
  | XL [XN 2] => Some default_config
  | _ => None
  end.
(** a decoded operation still carries the relative wait *)
Definition d_op (x : xval) : option op :=
  match x with
  | XL [XN 0; XN a; XN dt] => Some (Reg a dt)
  | XL [XN 1; XN m] => if m <=? usize_max then Some (SetMax m) else None
  | XL [XN 2; XN k] => if k <=? usize_max then Some (SetEvery k) else None
  | XL [XN 3; r] => match d_reset r with Some ra => Some (SetReset ra) | None => None end
  | XL [XN 4] => Some Disable
  | _ => None
  end.
Fixpoint absolute_ops (now : N) (l : list op) : list op :=
  match l with
  | [] => []
  | Reg a dt :: r => Reg a (now + dt) :: absolute_ops (now + dt) r
  | o :: r => o :: absolute_ops now r
  end.

Definition run_ops_x (x : xval) : xval :=
  match x with
  | XL [c; ct; h] =>
      match d_bool c, d_ctor ct, d_list d_op h with
      | Some checked, Some cfg, Some ops => XL (map x_decision (decisions_ops checked cfg 0 (absolute_ops 0 ops)))
      | _, _, _ => bad_input
      end
  | _ => bad_input
  end.
Definition run_ops_reference (x : xval) : xval :=
  match x with
  | XL [c; ct; h] =>
      match d_bool c, d_ctor ct, d_list d_op h with
      | Some _, Some cfg, Some ops => XL (map (fun a => XN (action_code a)) (reference_ops cfg 0 (absolute_ops 0 ops)))
      | _, _, _ => bad_input
      end
  | _ => bad_input
  end.

(** server:  (L checked sconf (L conn ...))
    sconf : (L (N path) config pre (N bind))
            path 0: [host.limiter = LimitManager::new(config)]
                 1: setters on the [limiter] field the [Host] was created with (a [Default])
            pre  (L)            the pre-host limiter is the clone taken by [insert]
                 (L (N 0) cfg)  [set_pre_host_limiter(LimitManager::new(cfg))]: own counters
                 (L (N 1) cfg)  [set_pre_host_limiter(host.limiter.clone() + setters)]: shared counters
            bind: which sockets the harness binds (IPv4 only / dual stack) — not a parameter of the model
    conn  : (L (N addr) (N dt) (N nreq))  or  (L (N addr) (N dt) (N nreq) (N times)): the same
            connection [times] times in a row (dt before the first only); the requests of a
            connection are made at the clock reading of the connection. *)
Definition d_sconfig (x : xval) : option sconfig :=
  match x with
  | XL [XN path; cf; pre; XN _] =>
      match d_config cf with
      | Some c0 =>
          let hc := if path =? 0 then Some c0
                    else if path =? 1
                    then Some (set_reset_seconds (reset_after c0) (set_check_every (check_every c0)
                                 (set_max_requests (max_requests c0) default_config)))
                    else None in
          match hc, pre with
          | Some hc, XL [] => Some (same_limiter hc)
          | Some hc, XL [XN 0; pc] =>
              match d_config pc with Some pc => Some {| pre_cfg := pc; host_cfg := hc; shared := false |} | None => None end
          | Some hc, XL [XN 1; pc] =>
              match d_config pc with Some pc => Some {| pre_cfg := pc; host_cfg := hc; shared := true |} | None => None end
          | _, _ => None
          end
      | None => None
      end
  | _ => None
  end.

Definition d_conn (x : xval) : option (N * N * nat * nat) :=
  match x with
  | XL [XN a; XN dt; XN n] => Some (a, dt, N.to_nat n, 1%nat)
  | XL [XN a; XN dt; XN n; XN k] => Some (a, dt, N.to_nat n, N.to_nat k)
  | _ => None
  end.
Fixpoint abs_conns (now : N) (l : list (N * N * nat * nat)) : list connection :=
  match l with
  | [] => []
  | (a, dt, n, k) :: r => repeat (a, now + dt, repeat (now + dt) n) k ++ abs_conns (now + dt) r
  end.
Definition reply_code (r : reply) : N := match r with Normal => 200 | TooMany => 429 end.
Definition x_conn_result (r : conn_result) : xval :=
  match r with
  | Refused => XL [XN 3]
  | Served l c => XL [XN 0; XL (map (fun r => XN (reply_code r)) l); x_bool c]
  end.
Definition running (s : lstatus) : bool := match s with Running => true | _ => false end.

Definition run_server_gen (loop : bool -> sconfig -> N -> list conn_event -> list conn_result * lstatus) (x : xval) : xval :=
  match x with
  | XL [c; cf; h] =>
      match d_bool c, d_sconfig cf, d_list d_conn h with
      | Some checked, Some sc, Some cs =>
          let (os, al) := loop checked sc 0 (map conn_of (abs_conns 0 cs)) in
          XL [XL (map x_conn_result os); x_bool (running al)]
      | _, _, _ => bad_input
      end
  | _ => bad_input
  end.
Definition run_server := run_server_gen accept_loop.
Definition run_server_063 := run_server_gen accept_loop_063.

Definition run_server_spec (x : xval) : xval :=
  match x with
  | XL [c; cf; h] =>
      match d_bool c, d_sconfig cf, d_list d_conn h with
      | Some _, Some sc, Some cs => XL [XL (map x_conn_result (spec_server sc 0 (abs_conns 0 cs))); x_bool true]
      | _, _, _ => bad_input
      end
  | _ => bad_input
  end.

(** server with events:  (L checked sconf (L ev ...)),  ev = conn (as above)
      | (L (N 200) (N n))  the next n calls of accept() fail
      | (L (N 201))        shutdown request *)
Inductive sev : Type := SConn (c : N * N * nat * nat) | SErrs (n : nat) | SShut.
Definition d_sev (x : xval) : option sev :=
  match x with
  | XL [XN 200; XN n] => Some (SErrs (N.to_nat n))
  | XL [XN 201] => Some SShut
  | _ => match d_conn x with Some c => Some (SConn c) | None => None end
  end.
Fixpoint abs_sevs (now : N) (l : list sev) : list conn_event :=
  match l with
  | [] => []
  | SConn (a, dt, n, k) :: r => repeat (Conn a (now + dt) (repeat (now + dt) n)) k ++ abs_sevs (now + dt) r
  | SErrs n :: r => repeat AcceptErr n ++ abs_sevs now r
  | SShut :: r => Shutdown :: abs_sevs now r
  end.
Definition run_server_ev (x : xval) : xval :=
  match x with
  | XL [c; cf; h] =>
      match d_bool c, d_sconfig cf, d_list d_sev h with
      | Some checked, Some sc, Some es =>
          let (os, al) := accept_loop checked sc 0 (abs_sevs 0 es) in
          XL [XL (map x_conn_result os); x_bool (running al)]
      | _, _, _ => bad_input
      end
  | _ => bad_input
  end.
Definition run_server_ev_spec (x : xval) : xval :=
  match x with
  | XL [c; cf; h] =>
      match d_bool c, d_sconfig cf, d_list d_sev h with
      | Some _, Some sc, Some es =>
          let (os, al) := spec_server_events sc 0 (abs_sevs 0 es) in
          XL [XL (map x_conn_result os); x_bool (running al)]
      | _, _, _ => bad_input
      end
  | _ => bad_input
  end.

Definition limiter_table : list (bytes * (xval -> xval)) :=
  [ (B "limiter.register", run_register);
    (B "limiter.reference", run_reference);
    (B "limiter.ops", run_ops_x);
    (B "limiter.ops_reference", run_ops_reference);
    (B "limiter.server", run_server);
    (B "limiter.server_063", run_server_063);
    (B "limiter.server_spec", run_server_spec);
    (B "limiter.server_ev", run_server_ev);
    (B "limiter.server_ev_spec", run_server_ev_spec) ].
