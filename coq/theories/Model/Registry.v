(** C16 — model of the extension registry of [kvarn::extensions::Extensions]
    (src/extensions.rs): the macros [add_sorted_list!] / [remove_sorted_list!] over Rust's
    [binary_search_by] (Model/RustStd.v), the [Id::no_override] loop with [checked_sub],
    the [add_*] / [remove_*] / [get_*] methods and [Extensions::{empty,new}].
    Definitions only; proofs live in Proofs/RegistryProofs.v.

    Priorities are [i32] in Rust, [Z] here; the only place where the width matters is
    [id.priority.checked_sub(1)], which is [None] exactly at [i32::MIN] (explicit panic). *)
From KV Require Export Bytes RustStd.
From Coq Require Export Sorted.
Open Scope N_scope.

Definition i32_min : Z := (-2147483648)%Z.
Definition i32_max : Z := 2147483647%Z.

(** Out-of-fuel / impossible std result: never a normal-looking value
    ([add_sorted_list_no_fuel] / [binary_search_by_total] exclude it). *)
Definition E_FUEL : N := 77.

Section SortedList.
Context {A : Type}.
(** An element of a sorted extension vector: the [Id]'s priority and everything else
    ([Id::name], predicate, the boxed extension) as an opaque payload. *)
Notation entry := (Z * A)%type.

(** [impl Ord for Id]: [self.priority().cmp(&other.priority())]. *)
(** comparator of [add_sorted_list!]:    [|probe| id.cmp(&probe.0)] *)
Definition cmp_id_probe (prio : Z) (probe : entry) : comparison := Z.compare prio (fst probe).
(** comparator of the original [remove_sorted_list!]: [|probe| probe.0.cmp(&$id)] — ascending
    orientation on a descending list (the defect, see [remove_sorted_list_v0]). *)
Definition cmp_probe_id (prio : Z) (probe : entry) : comparison := Z.compare (fst probe) prio.

(** [Vec] operations with their documented panics. *)
Definition vec_set (pos : nat) (x : entry) (l : list entry) : outcome (list entry) :=
  if Nat.ltb pos (length l) then Ok (firstn pos l ++ x :: skipn (S pos) l) else Panic.
Definition vec_insert (pos : nat) (x : entry) (l : list entry) : outcome (list entry) :=
  if Nat.leb pos (length l) then Ok (firstn pos l ++ x :: skipn pos l) else Panic.
Definition vec_remove (pos : nat) (l : list entry) : outcome (list entry) :=
  if Nat.ltb pos (length l) then Ok (firstn pos l ++ skipn (S pos) l) else Panic.

(** [add_sorted_list!($list, $id, …)]: the [loop] re-runs the search with a decremented
    priority while [id.no_override] hits an occupied priority.  Every iteration that
    continues found an element with a strictly smaller priority than the previous one, so
    [S (length l)] iterations always suffice ([fuel]). *)
Fixpoint add_loop (fuel : nat) (l : list entry) (prio : Z) (no_override : bool) (a : A)
  : outcome (list entry) :=
  match fuel with
  | O => Err E_FUEL
  | S fuel' =>
      match binary_search_by (cmp_id_probe prio) l with
      | None => Err E_FUEL
      | Some (BOk pos) =>
          if no_override then
            (* id.priority.checked_sub(1) *)
            if (prio - 1 <? i32_min)%Z then Panic
            else add_loop fuel' l (prio - 1)%Z no_override a
          else vec_set pos (prio, a) l
      | Some (BErr pos) => vec_insert pos (prio, a) l
      end
  end.
Definition add_sorted_list (l : list entry) (prio : Z) (no_override : bool) (a : A) :=
  add_loop (S (length l)) l prio no_override a.

(** [remove_sorted_list!($list, $id)] as repaired (same comparator orientation as the add
    macro): [.binary_search_by(|probe| $id.cmp(&probe.0)).ok().map(|pos| $list.remove(pos))]. *)
Definition remove_sorted_list_with (cmp : Z -> entry -> comparison) (l : list entry) (prio : Z)
  : outcome (list entry) :=
  match binary_search_by (cmp prio) l with
  | None => Err E_FUEL
  | Some (BOk pos) => vec_remove pos l
  | Some (BErr _) => Ok l
  end.
Definition remove_sorted_list := remove_sorted_list_with cmp_id_probe.
(** The macro as it was before the repair (kept for the refutation witness). *)
Definition remove_sorted_list_v0 := remove_sorted_list_with cmp_probe_id.

(** ---- reference: a finite map priority -> extension, kept as an association list in
    strictly descending priority order ---- *)
Fixpoint ref_add (l : list entry) (p : Z) (a : A) : list entry :=
  match l with
  | [] => [(p, a)]
  | (q, b) :: r =>
      if (p <? q)%Z then (q, b) :: ref_add r p a
      else if (p =? q)%Z then (p, a) :: r
      else (p, a) :: l
  end.
Definition ref_remove (l : list entry) (p : Z) : list entry :=
  filter (fun e => negb (fst e =? p)%Z) l.
Definition ref_mem (l : list entry) (p : Z) : bool := existsb (fun e => (fst e =? p)%Z) l.
Fixpoint ref_get (l : list entry) (p : Z) : option A :=
  match l with
  | [] => None
  | (q, b) :: r => if (q =? p)%Z then Some b else ref_get r p
  end.

(** the greatest priority [<= p] that is free, searched downwards; [None] when every
    priority from [p] down to [i32::MIN] is taken. Structural on the descending list. *)
Fixpoint ref_free_below (l : list entry) (p : Z) : option Z :=
  match l with
  | [] => Some p
  | (q, _) :: r =>
      if (p <? q)%Z then ref_free_below r p
      else if (p =? q)%Z then (if (p - 1 <? i32_min)%Z then None else ref_free_below r (p - 1)%Z)
      else Some p
  end.

(** the invariant of every extension vector: strictly descending priorities *)
Definition desc (l : list entry) : Prop := StronglySorted (fun a b => (fst b < fst a)%Z) l.

Inductive op : Type :=
| Add (p : Z) (no_override : bool) (a : A)
| Remove (p : Z).

(** One registry edit; a panic unwinds before the vector is touched. *)
Definition model_step (l : list entry) (o : op) : outcome (list entry) :=
  match o with
  | Add p no a => add_sorted_list l p no a
  | Remove p => remove_sorted_list l p
  end.
Definition ref_step (l : list entry) (o : op) : outcome (list entry) :=
  match o with
  | Add p false a => Ok (ref_add l p a)
  | Add p true a =>
      match ref_free_below l p with
      | Some p' => Ok (ref_add l p' a)
      | None => Panic
      end
  | Remove p => Ok (ref_remove l p)
  end.

(** A history: the listing after every operation (or the panic), the vector carried on
    unchanged after a panic (the unwinding leaves [self] as it was). *)
Fixpoint run_with (step : list entry -> op -> outcome (list entry)) (l : list entry) (ops : list op)
  : list (outcome (list entry)) :=
  match ops with
  | [] => []
  | o :: r =>
      let res := step l o in
      res :: run_with step (match res with Ok l' => l' | _ => l end) r
  end.
Definition run_model := run_with model_step.
Definition run_ref := run_with ref_step.

End SortedList.
Arguments op A : clear implicits.

(** ---- the whole [Extensions] value: five sorted vectors and three hash maps ---- *)
(** kinds: 0 prime, 1 prepare_fn, 2 present_fn, 3 package, 4 post (sorted vectors);
          5 prepare_single, 6 present_internal, 7 present_file (HashMap<CompactString, _>). *)
Record extensions : Type := {
  e_lists : list (list (Z * bytes));     (* 5 vectors; payload = Id::name *)
  e_maps : list (list bytes) }.          (* 3 key sets, kept sorted for listing *)

Definition extensions_empty : extensions :=
  {| e_lists := [[]; []; []; []; []]; e_maps := [[]; []; []] |}.

Fixpoint key_insert (k : bytes) (m : list bytes) : list bytes :=
  match m with
  | [] => [k]
  | x :: r => match bcmp k x with Lt => k :: m | Eq => m | Gt => x :: key_insert k r end
  end.
Definition key_remove (k : bytes) (m : list bytes) : list bytes := filter (fun x => negb (beq x k)) m.

Fixpoint upd {X} (n : nat) (f : X -> X) (l : list X) : list X :=
  match l, n with
  | [], _ => []
  | x :: r, O => f x :: r
  | x :: r, S n' => x :: upd n' f r
  end.

(** request: kind, code (0 add, 1 add with [Id::no_override()], 2 remove), priority, name/key *)
Record request := { rq_kind : nat; rq_code : N; rq_prio : Z; rq_name : bytes }.

Definition listing := list (Z * bytes).
Inductive step_view : Type :=
| VList (l : outcome listing)
| VKeys (k : list bytes).

Definition ext_step (remove_fn : list (Z * bytes) -> Z -> outcome (list (Z * bytes)))
                    (e : extensions) (r : request) : extensions * step_view :=
  if Nat.ltb (rq_kind r) 5 then
    let l := nth (rq_kind r) (e_lists e) [] in
    let res := if N.eqb (rq_code r) 2 then remove_fn l (rq_prio r)
               else add_sorted_list l (rq_prio r) (N.eqb (rq_code r) 1) (rq_name r) in
    match res with
    | Ok l' => ({| e_lists := upd (rq_kind r) (fun _ => l') (e_lists e); e_maps := e_maps e |}, VList res)
    | _ => (e, VList res)
    end
  else
    let i := (rq_kind r - 5)%nat in
    let m := nth i (e_maps e) [] in
    let m' := if N.eqb (rq_code r) 2 then key_remove (rq_name r) m else key_insert (rq_name r) m in
    ({| e_lists := e_lists e; e_maps := upd i (fun _ => m') (e_maps e) |}, VKeys m').

Fixpoint ext_run remove_fn (e : extensions) (rs : list request) : list step_view * extensions :=
  match rs with
  | [] => ([], e)
  | r :: rest =>
      let '(e', v) := ext_step remove_fn e r in
      let '(vs, ef) := ext_run remove_fn e' rest in
      (v :: vs, ef)
  end.

(** [Extensions::new()]: with_uri_redirect, with_no_referrer, with_disallow_cors, with_csp,
    with_server_header, with_nonce — in this order, through the same [add_*] methods. *)
Definition mkrq k c p n := {| rq_kind := k; rq_code := c; rq_prio := p; rq_name := n |}.
Definition extensions_new_requests : list request :=
  [ mkrq 0 0 (-100)%Z (B "Expand . and /");
    mkrq 3 0 10%Z (B "Set the referrer-policy header to no-referrer");
    mkrq 0 0 16777216%Z (B "Reroute all CORS requests to /./cors_fail");
    mkrq 5 0 0%Z (B "/./cors_fail");
    mkrq 5 0 0%Z (B "/./cors_options");
    mkrq 0 0 16777215%Z (B "Provides CORS preflight request support");
    mkrq 3 0 128%Z (B "Add content security policy header");
    mkrq 3 0 (-1327)%Z (B "add `server` header");
    mkrq 6 0 0%Z (B "nonce") ].
Definition extensions_new : extensions :=
  snd (ext_run remove_sorted_list extensions_empty extensions_new_requests).

(** ---- reference for whole histories (spec component) ---- *)
Definition ref_remove_fn (l : list (Z * bytes)) (p : Z) : outcome (list (Z * bytes)) := Ok (ref_remove l p).
Definition ext_step_ref (e : extensions) (r : request) : extensions * step_view :=
  if Nat.ltb (rq_kind r) 5 then
    let l := nth (rq_kind r) (e_lists e) [] in
    let o := if N.eqb (rq_code r) 2 then Remove (rq_prio r)
             else Add (rq_prio r) (N.eqb (rq_code r) 1) (rq_name r) in
    let res := ref_step l o in
    match res with
    | Ok l' => ({| e_lists := upd (rq_kind r) (fun _ => l') (e_lists e); e_maps := e_maps e |}, VList res)
    | _ => (e, VList res)
    end
  else ext_step remove_sorted_list e r.
Fixpoint ext_run_ref (e : extensions) (rs : list request) : list step_view * extensions :=
  match rs with
  | [] => ([], e)
  | r :: rest =>
      let '(e', v) := ext_step_ref e r in
      let '(vs, ef) := ext_run_ref e' rest in
      (v :: vs, ef)
  end.

(** ---- xval interface ---- *)
Definition x_entry (e : Z * bytes) : xval := XL [x_Z (fst e); XB (snd e)].
Definition x_listing (l : listing) : xval := x_list x_entry l.
Definition x_view (v : step_view) : xval :=
  match v with
  | VList o => x_outcome x_listing o
  | VKeys k => XL [XN 0; x_list XB k]
  end.
Definition x_extensions (e : extensions) : xval :=
  XL [x_list x_listing (e_lists e); x_list (x_list XB) (e_maps e)].

Definition d_request (x : xval) : option request :=
  match x with
  | XL [XN k; XN c; p; XB n] =>
      match d_Z p with
      | Some p => if (k <? 8) && (c <? 3) then Some (mkrq (N.to_nat k) c p n) else None
      | None => None
      end
  | _ => None
  end.

(** the decidable form of [desc] (checked on a start state that comes from the implementation) *)
Fixpoint desc_b {A} (l : list (Z * A)) : bool :=
  match l with
  | [] => true
  | (q, _) :: r => forallb (fun e => (fst e <? q)%Z) r && desc_b r
  end.
Fixpoint keys_sorted_b (m : list bytes) : bool :=
  match m with
  | [] => true
  | k :: r => forallb (fun x => match bcmp k x with Lt => true | _ => false end) r && keys_sorted_b r
  end.
Definition d_entry (x : xval) : option (Z * bytes) :=
  match x with
  | XL [p; XB n] => match d_Z p with Some p => Some (p, n) | None => None end
  | _ => None
  end.
(** an explicit start state (L (L listing x5) (L keys x3)): accepted when every vector is strictly
    descending and every key list strictly ascending *)
Definition d_extensions (x : xval) : option extensions :=
  match x with
  | XL [ls; ms] =>
      match d_list (d_list d_entry) ls, d_list (d_list d_B) ms with
      | Some ls, Some ms =>
          if Nat.eqb (length ls) 5 && Nat.eqb (length ms) 3 && forallb desc_b ls && forallb keys_sorted_b ms
          then Some {| e_lists := ls; e_maps := ms |} else None
      | _, _ => None
      end
  | _ => None
  end.

(** component input: (L init (L request...)); init (N 0) = [Extensions::empty()], (N 1) = the recorded
    [Extensions::new()] of kvarn 0.6.3, (L lists maps) = an explicit start state (the harness checks that it is
    what the real [Extensions::new()] lists, so that the model does not pin the built-in extensions).
    output: (L (L view...) final) *)
Definition run_registry_with (run : extensions -> list request -> list step_view * extensions) (x : xval) : xval :=
  match x with
  | XL [init; rs] =>
      match d_list d_request rs, (match init with
                                  | XN 0 => Some extensions_empty
                                  | XN 1 => Some extensions_new
                                  | _ => d_extensions init
                                  end) with
      | Some rs, Some e0 =>
          let '(vs, ef) := run e0 rs in
          XL [x_list x_view vs; x_extensions ef]
      | _, _ => bad_input
      end
  | _ => bad_input
  end.
Definition run_registry := run_registry_with (ext_run remove_sorted_list).
Definition run_registry_v0 := run_registry_with (ext_run remove_sorted_list_v0).
Definition run_registry_spec := run_registry_with ext_run_ref.

(** [slice::binary_search_by] itself: (L orient target (L key...)); orient 0 = [|probe| target.cmp(probe)]
    (the add macro), 1 = [|probe| probe.cmp(target)].  output: (L 0 i) = Ok(i), (L 1 i) = Err(i). *)
Definition run_bsearch (x : xval) : xval :=
  match x with
  | XL [XN orient; t; ks] =>
      match d_Z t, d_list d_Z ks with
      | Some t, Some ks =>
          let l := map (fun k => (k, tt)) ks in
          match binary_search_by ((if N.eqb orient 0 then cmp_id_probe else cmp_probe_id) t) l with
          | Some (BOk i) => XL [XN 0; x_nat i]
          | Some (BErr i) => XL [XN 1; x_nat i]
          | None => XL [XN 77]
          end
      | _, _ => bad_input
      end
  | _ => bad_input
  end.

(** [get_present_fn] lists the predicate-bound Present vector (it returned the present_file map before
    the repair): after add 7 "seven", add 3 "three" on [Extensions::empty()] and one present_file. *)
Definition run_present_fn_getter (x : xval) : xval :=
  match obind (add_sorted_list [] 7%Z false (B "seven")) (fun l => add_sorted_list l 3%Z false (B "three")) with
  | Ok l => x_listing l
  | _ => XL [XN 77]
  end.

Definition registry_table : list (bytes * (xval -> xval)) :=
  [ (B "reg.ops", run_registry);
    (B "reg.ops_v0", run_registry_v0);
    (B "reg.spec", run_registry_spec);
    (B "reg.present_fn_getter", run_present_fn_getter);
    (B "std.bsearch", run_bsearch) ].
