(** C04 — the two administrative clears as their caller names them: [Collection::clear_page(host, uri)] and
    [Collection::clear_response_caches(host_filter)] (src/host.rs) over the collection the pipeline fixture builds
    (harness/src/c00pipe.rs [build_host]: ONE host named by cfg [host] (default "localhost"), added with
    [.default(host)] when cfg [default_host] is set and with [.insert(host)] otherwise).

    The collection, its builder and the two lookups are those of Model/Hosts.v (C15: [build], [clear_target],
    [clear_all_targets]); the cache below is Model/CacheX.v ([stepX]).  A designated operation resolves the host and
    then acts as the plain operation of CacheX — or does nothing:
      - clear_page: [""] / ["default"] -> [get_default]; any other text -> [get_host].  In the default branch the host
        counts as found only when it has a response cache ([if let Some(cache) = &host.response_cache { found = true; .. }]),
        in the named branch whenever the name resolves;
      - clear_response_caches: every stored host whose [name] equals the filter (all of them without a filter).
    Definitions only; proofs in Proofs/CacheClearProofs.v.  Component ["pipex.rund"] (harness/src/c04x.rs). *)
From KV Require Export Bytes Hosts CacheX.
Open Scope N_scope.

(** ---- the fixture's collection ---- *)
Definition fixture_hostcfg (own : bytes) : hostcfg := {| h_name := own; h_alts := [] |}.
Definition fixture_ops (own : bytes) (dflt : bool) : list Hosts.op := [(dflt, fixture_hostcfg own)].
Definition fixture_host (own : bytes) : host := {| hid := O; hname := own |}.
(** what [build (fixture_ops own dflt)] returns (CacheClearProofs.fixture_collection_built) *)
Definition fixture_collection (own : bytes) (dflt : bool) : collection :=
  {| c_default := if dflt then Some own else None;
     c_by_name := [(own, HHost (fixture_host own))];
     c_first := Some own;
     c_inserts := 1 |}.

(** ---- operations as the caller writes them ---- *)
Inductive opd :=
| DReq (r : request)
| DClearPage (name : bytes) (r : request)      (* clear_page(name, uri) *)
| DClearAll (flt : option bytes)               (* clear_response_caches(flt) *)
| DWait (ms : N).

Section Designated.
  Variable hstate : Type.
  (** the host's own pipeline: [stepX] with its parameters *)
  Variable step : statex hstate -> N -> opx -> statex hstate * N * obsx.
  Variable cache_on : bool.                    (* the host has a response cache *)
  Variable col : collection.

  (** does [clear_page(name, _)] reach a host / does [clear_response_caches(flt)] reach one *)
  Definition designates (name : bytes) : bool :=
    match clear_target V1 col name with Ok (Some _) => true | _ => false end.
  Definition filter_reaches (flt : option bytes) : bool :=
    match clear_all_targets col flt with [] => false | _ :: _ => true end.

  Definition stepD (st : statex hstate) (now : N) (o : opd) : statex hstate * N * obsx :=
    match o with
    | DReq r => step st now (XReq r)
    | DClearPage name r =>
        if designates name then
          if is_default_name name && negb cache_on then (st, now, XbCleared false false)
          else step st now (XClearPage r)
        else (st, now, XbCleared false false)
    | DClearAll flt => if filter_reaches flt then step st now XClearAll else (st, now, XbNone)
    | DWait ms => step st now (XWait ms)
    end.

  Fixpoint runD (st : statex hstate) (now : N) (ops : list opd) : list obsx :=
    match ops with
    | [] => []
    | o :: rest => let '(st', now', ob) := stepD st now o in ob :: runD st' now' rest
    end.
  Fixpoint runD_state (st : statex hstate) (now : N) (ops : list opd) : statex hstate * N :=
    match ops with
    | [] => (st, now)
    | o :: rest => let '(st', now', _) := stepD st now o in runD_state st' now' rest
    end.

  (** the plain operation a designated one amounts to on the cache (a clear that reaches nothing = no operation,
      written as a wait of 0 ms) *)
  Definition erase (o : opd) : opx :=
    match o with
    | DReq r => XReq r
    | DClearPage name r =>
        if designates name && negb (is_default_name name && negb cache_on) then XClearPage r else XWait 0
    | DClearAll flt => if filter_reaches flt then XClearAll else XWait 0
    | DWait ms => XWait ms
    end.
  (** the plain history with the host's own name / no filter, as the legacy operations of the harness call them *)
  Definition embed (own : bytes) (o : opx) : opd :=
    match o with
    | XReq r => DReq r
    | XClearPage r => DClearPage own r
    | XClearAll => DClearAll None
    | XWait ms => DWait ms
    end.

  (** iteration of an arbitrary step function (what [runX] / [runX_state] are for [stepX]) *)
  Fixpoint iter_obs (st : statex hstate) (now : N) (ops : list opx) : list obsx :=
    match ops with
    | [] => []
    | o :: rest => let '(st', now', ob) := step st now o in ob :: iter_obs st' now' rest
    end.
  Fixpoint iter_state (st : statex hstate) (now : N) (ops : list opx) : statex hstate * N :=
    match ops with
    | [] => (st, now)
    | o :: rest => let '(st', now', _) := step st now o in iter_state st' now' rest
    end.
End Designated.

(** ---- the specification of the two lookups, from the doc comments of src/host.rs alone ---- *)
(** [clear_page]: "If host is "" or "default", the default host is used"; otherwise the host of that name *)
Definition spec_designates (own : bytes) (dflt : bool) (name : bytes) : bool :=
  if beq name [] || beq name (B "default") then dflt else beq name own.
(** [clear_response_caches]: the hosts whose name is the filter; all without a filter *)
Definition spec_filter_reaches (own : bytes) (flt : option bytes) : bool :=
  match flt with Some f => beq f own | None => true end.

(** ---- xval interface: component pipex.rund ----
    scenario as for pipex.run, plus cfg [host] (B name, default "localhost") and [default_host] (bool), and the operations
      (L (N 1) (B target) (B designation))   clear_page(designation, target)
      (L (N 2) (L [(B name)]))               clear_response_caches(filter)
    the legacy forms (L (N 1) (B target)) / (L (N 2)) = by the host's own name / without filter. *)
Definition d_opd (own : bytes) (x : xval) : option opd :=
  match x with
  | XL [XN 1; XB t; XB name] => Some (DClearPage name (d_request 0 (B "GET") t []))
  | XL [XN 2; XL []] => Some (DClearAll None)
  | XL [XN 2; XL [XB f]] => Some (DClearAll (Some f))
  | _ => option_map (embed own) (d_opx x)
  end.

Definition cfg_own (x : xval) : bytes :=
  match x with
  | XL l => match kv_get (B "host") l with Some (XB n) => n | _ => B "localhost" end
  | _ => B "localhost"
  end.
Definition cfg_dflt (x : xval) : bool :=
  match x with XL l => kv_flag (B "default_host") l false | _ => false end.

(** host's own pipeline with the parameters [run_cfgx] gives [runX] *)
Definition cfgx_step (cache_on : bool) (cx : configx) : statex (list N) -> N -> opx -> statex (list N) * N * obsx :=
  let cfg := cx_base cx in
  stepX (list N) (compute_x (cf_default_ext cfg) (cf_handlers cfg) (cx_xhandlers cx)) cache_on (cf_ims cfg)
        (cx_fix_vary cx) (cx_fix_ovkey cx) (cx_fix_clear cx) (cx_fix_svary cx) (cx_fix_qmkey cx) (cx_fix_ims cx)
        (sfilter_fix (cx_sfilter cx)) parse_ims_fix sanitize_ok_fix
        (if cf_default_ext cfg then uri_redirect else (fun r => r))
        (override_x (cf_default_ext cfg) (cx_ovprime cx))
        (fun _ _ => None)
        (vary_tuple_x (cx_fix_ovkey cx) (cf_vary cfg)) (vary_header_x (cx_fix_ovkey cx) (cf_vary cfg)) clear_alias_fix.

Definition run_cfgd (cache_on : bool) (cx : configx) (col : collection) (ops : list opd) : list obsx :=
  runD (list N) (cfgx_step cache_on cx) cache_on col
       ([], repeat 0 (length (cf_handlers (cx_base cx)) + 8)) (cf_phase (cx_base cx)) ops.

Definition run_pipexd (x : xval) : xval :=
  match x with
  | XL [c; XL ops] =>
      match d_configx c, d_all (d_opd (cfg_own c)) ops with
      | Some cx, Some ops' =>
          match build (fixture_ops (cfg_own c) (cfg_dflt c)) with
          | Ok col => XL (map (x_obsx (cf_report (cx_base cx))) (run_cfgd (cf_cache (cx_base cx)) cx col ops'))
          | _ => bad_input
          end
      | _, _ => bad_input
      end
  | _ => bad_input
  end.

(** the specification run: the same history with the two lookups replaced by their specification
    ([spec_designates] / [spec_filter_reaches]) — component pipex.rund_spec *)
Section SpecRun.
  Variable hstate : Type.
  Variable step : statex hstate -> N -> opx -> statex hstate * N * obsx.
  Variable cache_on : bool.
  Variable own : bytes.
  Variable dflt : bool.
  Definition stepS (st : statex hstate) (now : N) (o : opd) : statex hstate * N * obsx :=
    match o with
    | DReq r => step st now (XReq r)
    | DClearPage name r =>
        if spec_designates own dflt name then
          if is_default_name name && negb cache_on then (st, now, XbCleared false false)
          else step st now (XClearPage r)
        else (st, now, XbCleared false false)
    | DClearAll flt => if spec_filter_reaches own flt then step st now XClearAll else (st, now, XbNone)
    | DWait ms => step st now (XWait ms)
    end.
  Fixpoint runS (st : statex hstate) (now : N) (ops : list opd) : list obsx :=
    match ops with
    | [] => []
    | o :: rest => let '(st', now', ob) := stepS st now o in ob :: runS st' now' rest
    end.
End SpecRun.

Definition run_pipexd_spec (x : xval) : xval :=
  match x with
  | XL [c; XL ops] =>
      match d_configx c, d_all (d_opd (cfg_own c)) ops with
      | Some cx, Some ops' =>
          XL (map (x_obsx (cf_report (cx_base cx)))
                  (runS (list N) (cfgx_step (cf_cache (cx_base cx)) cx) (cf_cache (cx_base cx)) (cfg_own c) (cfg_dflt c)
                        ([], repeat 0 (length (cf_handlers (cx_base cx)) + 8)) (cf_phase (cx_base cx)) ops'))
      | _, _ => bad_input
      end
  | _ => bad_input
  end.

Definition cacheclear_table : list (bytes * (xval -> xval)) :=
  [ (B "pipex.rund", run_pipexd); (B "pipex.rund_spec", run_pipexd_spec) ].
