(** C15 — the multi-host server with the real pipeline below it: the product of Model/Hosts.v
    ([MultiHost]) instantiated with
      - per-host [serve] = [kvarn::handle_cache] as modelled for C03/C04 (Model/CacheX.v [stepX]: response
        cache with its keys, variants, lifetimes, If-Modified-Since, the handlers of the fixture menu of
        harness/src/c00pipe.rs with their invocation counters),
      - routing = [handle_connection]'s choice ([choose_host_uri] on the built collection),
      - the administrative operations [Collection::clear_page(host, uri)] (which host's cache is touched:
        [clear_target]) and [Collection::clear_response_caches(filter)] ([clear_all_targets]).
    Definitions only; proofs in Proofs/HostsPipeProofs.v.  Components ["hosts.pipe"], ["hosts.pipe_spec"]
    (harness/src/c15pipe.rs). *)
From KV Require Export Bytes Hosts CacheX.
Open Scope N_scope.

(** events that are answered by (at most) one host ... *)
Inductive preq :=
| PReq (sni : option bytes) (hh : list bytes) (r : request)    (* a request; [hh] = its host header values *)
| PClear (name : bytes) (r : request).                         (* [clear_page(name, uri)] *)
(** ... and events without answer that may touch several *)
Inductive padm :=
| PClearAll (flt : option bytes)                                (* [clear_response_caches(filter)] *)
| PWait (ms : N).
Inductive prep :=
| PRefused                                                      (* 409 / [(false, false)] *)
| PObs (i : nat) (o : obsx).

(** a host: response cache and handler counters, and the clock *)
Definition pstate := (statex (list N) * N)%type.

(** host [i]'s own pipeline: [stepX] with the parameters [run_cfgx] gives it *)
Definition cfg_step (cx : configx) : statex (list N) -> N -> opx -> statex (list N) * N * obsx :=
  let cfg := cx_base cx in
  stepX (list N) (compute_x (cf_default_ext cfg) (cf_handlers cfg) (cx_xhandlers cx)) (cf_cache cfg) (cf_ims cfg)
        (cx_fix_vary cx) (cx_fix_ovkey cx) (cx_fix_clear cx) (cx_fix_svary cx) (cx_fix_qmkey cx) (cx_fix_ims cx)
        (sfilter_fix (cx_sfilter cx)) parse_ims_fix sanitize_ok_fix
        (if cf_default_ext cfg then uri_redirect else (fun r => r))
        (override_x (cf_default_ext cfg) (cx_ovprime cx))
        (fun _ _ => None)
        (vary_tuple_x (cx_fix_ovkey cx) (cf_vary cfg)) (vary_header_x (cx_fix_ovkey cx) (cf_vary cfg)) clear_alias_fix.
Definition cfg_state0 (cx : configx) : pstate :=
  (([], repeat 0 (length (cf_handlers (cx_base cx)) + 8)), cf_phase (cx_base cx)).

Definition empty_cx : configx :=
  mkCfgX (mkCfg true false true [] [] [] 500) [] 0 None true true true true true true.
Definition cfg_of (cfgs : list configx) (i : nat) : configx := nth i cfgs empty_cx.


(** [clear_page]: with [""] / ["default"] the host counts as found only if it has a response cache *)
Definition pserve (cfgs : list configx) (i : nat) (s : pstate) (q : preq) : pstate * prep :=
  let cx := cfg_of cfgs i in
  let '(st, now) := s in
  match q with
  | PReq _ _ r => let '(st', now', ob) := cfg_step cx st now (XReq r) in ((st', now'), PObs i ob)
  | PClear name r =>
      let '(st', now', ob) := cfg_step cx st now (XClearPage r) in
      ((st', now'),
       PObs i (match ob with
               | XbCleared f c => XbCleared (if is_default_name name then cf_cache (cx_base cx) else f) c
               | o => o
               end))
  end.

Definition padmin (a : padm) (s : pstate) : pstate :=
  let '((c, hs), now) := s in
  match a with
  | PClearAll _ => (([], hs), now)
  | PWait ms => ((c, hs), now + ms)
  end.

(** the authority of the URI the harness builds: the last host header value (c00pipe::make_request), else "localhost" *)
Definition s_localhost_b : bytes := Eval vm_compute in B "localhost".
Definition req_authority (hh : list bytes) : bytes := match rev hh with h :: _ => h | [] => s_localhost_b end.

(** the model of the code: [get_from_request] + the second lookup; [clear_page]'s lookup; the hosts
    [clear_response_caches] walks over *)
Definition proute (c : collection) (q : preq) : option nat :=
  match q with
  | PReq sni hh _ =>
      match choose_host_uri true V1 c sni hh (Some (req_authority hh)) with
      | Ok (ServeWith h) => Some (hid h)
      | _ => None
      end
  | PClear name _ =>
      match clear_target V1 c name with
      | Ok (Some h) => Some (hid h)
      | _ => None
      end
  end.
Definition ptargets (c : collection) (a : padm) (i : nat) : bool :=
  match a with
  | PClearAll flt => existsb (fun h => Nat.eqb (hid h) i) (clear_all_targets c flt)
  | PWait _ => true
  end.

(** the specification: the reference resolver; a name's owner; the hosts that are still reachable
    under their own name and whose name passes the filter *)
Definition spec_proute (ops : list Hosts.op) (q : preq) : option nat :=
  match q with
  | PReq sni hh _ => reference_general ops sni (first_some (text_hd hh) (Some (req_authority hh)))
  | PClear name _ => clear_reference ops name
  end.
Definition spec_ptargets (ops : list Hosts.op) (a : padm) (i : nat) : bool :=
  match a with
  | PClearAll flt => cleared_by_all ops flt i
  | PWait _ => true
  end.

Definition pevent := event preq padm.
Definition prun (cfgs : list configx) (route : preq -> option nat) (targets : padm -> nat -> bool)
           (st : nat -> pstate) (es : list pevent) : (nat -> pstate) * list (option prep) :=
  mrun pstate preq prep padm (pserve cfgs) padmin route targets PRefused st es.

(** ==== xval interface ====
    input  (L hosts cfgs events): hosts as for hosts.lookup, one c00pipe configuration per host,
           event = (L (N 0) sni (L hosthdr...) addr method target headers body) | (L (N 1) name target)
                 | (L (N 2) (L [filter])) | (L (N 3) ms)
    output (L (N 0) (L reply...)) | (L (N 2)) (the builder panicked);
           reply = (L (N 409)) | (L (N 200) host obs) | (L found cleared) | (L) *)
Definition host_name_b : bytes := Eval vm_compute in B "host".
Definition d_pevent (x : xval) : option pevent :=
  match x with
  | XL [XN 0; sni; hh; XN addr; XB m; XB t; hs; XB _] =>
      match d_option d_B sni, d_list d_B hh, d_list d_pair_bb hs with
      | Some sni, Some hh, Some hs =>
          Some (ERequest (PReq sni hh (d_request addr m t (map (fun h => (host_name_b, h)) hh ++ hs))))
      | _, _, _ => None
      end
  | XL [XN 1; XB name; XB t] => Some (ERequest (PClear name (d_request 0 (B "GET") t [])))
  | XL [XN 2; flt] => option_map (fun f => EAdmin (PClearAll f)) (d_option d_B flt)
  | XL [XN 3; XN ms] => Some (EAdmin (PWait ms))
  | _ => None
  end.

Definition x_prep (cfgs : list configx) (e : pevent) (r : option prep) : xval :=
  match e, r with
  | ERequest (PReq _ _ _), Some PRefused => XL [XN 409]
  | ERequest (PReq _ _ _), Some (PObs i o) => XL [XN 200; x_nat i; x_obsx (cf_report (cx_base (cfg_of cfgs i))) o]
  | ERequest (PClear _ _), Some PRefused => XL [x_bool false; x_bool false]
  | ERequest (PClear _ _), Some (PObs _ o) => x_obsx [] o
  | _, _ => XL []
  end.

Definition run_pipe_with (cfgs : list configx) (route : preq -> option nat) (targets : padm -> nat -> bool)
           (es : list pevent) : xval :=
  XL [XN 0; XL (map (fun er => x_prep cfgs (fst er) (snd er))
                    (combine es (snd (prun cfgs route targets (fun i => cfg_state0 (cfg_of cfgs i)) es))))].

Definition run_hpipe (x : xval) : xval :=
  match x with
  | XL [hosts; cfgs; XL es] =>
      match d_ops hosts, d_list d_configx cfgs, d_all d_pevent es with
      | Some ops, Some cfgs, Some es =>
          if negb (Nat.eqb (length ops) (length cfgs)) then bad_input else
          match build ops with
          | Ok c => run_pipe_with cfgs (proute c) (ptargets c) es
          | Err e => XL [XN 1; XN e]
          | Panic => XL [XN 2]
          end
      | _, _, _ => bad_input
      end
  | _ => bad_input
  end.

Definition run_hpipe_spec (x : xval) : xval :=
  match x with
  | XL [hosts; cfgs; XL es] =>
      match d_ops hosts, d_list d_configx cfgs, d_all d_pevent es with
      | Some ops, Some cfgs, Some es =>
          if negb (Nat.eqb (length ops) (length cfgs)) then bad_input else
          if at_most_one_default ops then run_pipe_with cfgs (spec_proute ops) (spec_ptargets ops) es else XL [XN 2]
      | _, _, _ => bad_input
      end
  | _ => bad_input
  end.

Definition hostspipe_table : list (bytes * (xval -> xval)) :=
  [ (B "hosts.pipe", run_hpipe); (B "hosts.pipe_spec", run_hpipe_spec) ].
